import sys, time, os
sys.path.insert(0,'/verif/harness'); sys.path.insert(0,'/repo')
import logging; logging.disable(logging.CRITICAL)
from core import runner, coqrun
from props import c09
ctx=runner.Ctx('C09','quick',0)
t=time.time(); cases,n_ex=c09._matcher_cases(ctx); print('gen',time.time()-t,len(cases))
t=time.time(); impl=[c09._impl_match(c) for c in cases]; print('impl',time.time()-t)
blk=list(range(3510,3660))
term='concat [' + '; '.join('run_match %s %s %s' % (coqrun.z(cases[i]['d']), coqrun.z(cases[i]['min']), c09._pairs(cases[i]['ms'])) for i in blk) + ']'
t=time.time(); v=coqrun.eval_terms(c09.HEADER+'\nFrom CF Require Import Common.Digest.\n',['digest (%s)'%term],tag='tt'); print('one block digest',time.time()-t)
t=time.time(); v=coqrun.eval_terms(c09.HEADER,['1'],tag='tt'); print('trivial',time.time()-t)
