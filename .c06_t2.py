import random,time,sys
from props import c06
from core import coqrun
rng=random.Random(0)
cases=[c06.gen_case(rng,'faulty') for _ in range(40)]
terms=[c06.case_term(c) for c in cases]
exp=[c06.run_impl(c)[0] for c in cases]
t=time.time()
r=coqrun.compare_blocks(c06.HEADER, terms, exp, tag='c06t', shard=40)
print(time.time()-t, len(r))
for bi,mv in r[:2]:
    e=exp[bi]; pos=next((k for k in range(min(len(mv),len(e))) if mv[k]!=e[k]), None)
    print(bi,pos,mv[max(0,pos-15):pos+10],e[max(0,pos-15):pos+10], cases[bi]['events'])
