#!/bin/bash
# usage: showgoal.sh file line  -> inserts Show before the last tactic "lia." on that line
cd /verif/coq
python3 - "$1" "$2" <<'PY'
import sys
f,l=sys.argv[1],int(sys.argv[2])
s=open(f).read().split('\n')
x=s[l-1]
k=x.rfind('lia.')
s[l-1]=x[:k]+'Show. '+x[k:]
open('Tmp/tmp_c06p.v','w').write('\n'.join(s))
PY
timeout 300 coqc -Q . CF Tmp/tmp_c06p.v 2>&1 | head -${3:-60}; rm -f Tmp/tmp_c06p* Tmp/.tmp_c06p*
