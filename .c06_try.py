import random,time,sys
from props import c06
rng=random.Random(int(sys.argv[1]) if len(sys.argv)>1 else 0)
t=time.time()
bad=0
for k in range(600):
    c=c06.gen_case(rng,'clean' if k%3==0 else 'faulty')
    f=c06.judge(c)
    if f:
        bad+=1
        if bad<6: print(f['class'], f['detail'], [e if e[0]!='W' else e[:3]+[len(e[3]),e[4]] for e in f['case']['events']], f['case']['plan'][:10])
print('bad',bad,time.time()-t)
for c in c06.systematic_cases(True):
    f=c06.judge(c)
    if f: print('SYS',f['class'],f['detail'],c['events'][:3]); break
print(c06.high_level_cases())
