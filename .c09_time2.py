import sys, time, os
sys.path.insert(0,'/verif/harness'); sys.path.insert(0,'/repo')
import logging; logging.disable(logging.CRITICAL)
from core import runner, coqrun
from props import c09
ctx=runner.Ctx('C09','quick',0)
dis=[];info={}
t=time.time(); c09._tie_matcher(ctx,dis,info); print('tie matcher',time.time()-t, len(dis))
t=time.time(); c09._tie_link(ctx,dis,info); print('tie link',time.time()-t, len(dis))
