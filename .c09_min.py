import sys, random, json
sys.path.insert(0,'/verif/harness')
from fakes import c09_rooms as R
def room(seed, idx):
    rng=random.Random(seed)
    for i in range(idx+1):
        c=R.gen_room(rng)
    return c
jobs={'A': ('replay', None), 'A2': (25,7), 'A3': (26,85), 'B': (24,183), 'B2': (26,6), 'C': (22,61), 'C2': (26,52)}
which=sys.argv[1]
src=jobs[which]
if src[0]=='replay':
    case=json.load(open('/verif/replays/C09/713a8833e6d7.json'))['case']['room']
else:
    case=room(*src)
r=R.run_pipeline(case); j=R.judge(case,r)
print(which,'start',len(case['bs']),len(case['cf']),j and j[0])
if j:
    m=R.minimise(case,j[0],log=print)
    r=R.run_pipeline(m); j2=R.judge(m,r)
    print(which,'min',len(m['bs']),len(m['cf']),j2)
    json.dump({'class':j[0],'case':m},open('/verif/.c09_min_%s.json'%which,'w'))
