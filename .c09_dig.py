import sys, json, math
sys.path.insert(0,'/verif/harness')
import numpy as np
from fakes import c09_rooms as R
from cflib.localization.lighthouse_sample_matcher import LighthouseSampleMatcher
from cflib.localization.lighthouse_initial_estimator import LighthouseInitialEstimator as E
from cflib.localization.ippe_cf import IppeCf
from cflib.localization.lighthouse_types import LhDeck4SensorPositions, Pose
case=json.load(open(sys.argv[1])); k=int(sys.argv[2])
ms=R.measurements(case)
matched=LighthouseSampleMatcher.match(ms,max_time_diff=0.02,min_nr_of_bs_in_match=2)
bs={int(b):R._pose(v) for b,v in case['bs'].items()}
cf=[R._pose(v) for v in case['cf']]
S=LhDeck4SensorPositions.positions
bs_positions=E._find_solutions(matched,S)
ids=sorted(bs)
for pair,pos in bs_positions.items():
    true=bs[pair.bs1].inv_rotate_translate_pose(bs[pair.bs2]).translation
    print('pair',pair,'expected err',np.linalg.norm(pos-true))
s=matched[k]
sols={}
for b,ang in s.angles_calibrated.items():
    est=E._convert_estimates_to_cf_reference_frame(IppeCf.solve(S,ang.projection_pair_list()))
    true=cf[k].inv_rotate_translate_pose(bs[b])
    print('bs',b,'errs of 2 IPPE sols (pos,rot):',[tuple('%.2e'%x for x in R.pose_error(true,p)) for p in est], 'reproj', [x.reproj_err for x in IppeCf.solve(S,ang.projection_pair_list())])
    sols[b]=est
i0=sorted(sols)[0]
for o in sorted(sols)[1:]:
    true=bs[i0].inv_rotate_translate_pose(bs[o]).translation
    for a in range(2):
        for b in range(2):
            rel=sols[i0][a].inv_rotate_translate_pose(sols[o][b]).translation
            print(i0,o,a,b,'dist to true rel',np.linalg.norm(rel-true),'dist to expected',np.linalg.norm(rel-bs_positions[(i0,o)]))
