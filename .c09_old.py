import sys, random, json
sys.path.insert(0,'/verif/harness')
from fakes import c09_rooms as R
import cflib; print(cflib.__file__)
rng=random.Random(5)
found=0
for i in range(200):
    case=R.gen_room(rng, n_bs=2, n_cf=rng.randint(3,6), mode='full')
    r=R.run_pipeline(case); j=R.judge(case,r)
    if j and j[0].startswith('pipeline_raises'):
        print(i,j[0],j[2],len(case['cf']))
        json.dump(case,open('/verif/.c09_oldcrash.json','w'))
        found+=1
        if found>=1: break
