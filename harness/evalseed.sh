#!/bin/bash
# usage: evalseed.sh c10-b C10-b [props]
s=$1; n=$2; props=${3:-}
cd /verif
if [ -n "$props" ]; then extra="--props $props"; else extra=""; fi
timeout 3000 python3 harness/seed_eval.py /tmp/seed-$s/out $n $extra 2>&1 | python3 -c "import sys,json; d=json.load(sys.stdin); print(d['name'], 'DETECTED' if d['detected'] else 'MISSED', d['demo_unchanged_rc'], d['demo_patched_rc'], d['tests'], [l[:130] for p in d['checks'].values() for l in p][:5])"
git -C /repo worktree remove --force /tmp/seed-$s/repo 2>/dev/null
