"""C01 — radio link: exactly once, in order, despite loss; link error exactly at the N-th consecutive
unacknowledged transmission; safelink only if confirmed.

Tie (V): the unmodified radio loop (_RadioDriverThread.run, _send_packet_safe, RadioDriver.send_packet /
receive_packet, Crazyradio.send_packet on a fake USB device, CRTPPacket) is run synchronously against the
reconstructed safelink peer on scripted sessions; Coq evaluates C01/Model.v (session_obs /
host_session_obs) on the same script; every observable is compared (frame bytes of every transmission,
the answer the driver thread saw, error-callback count and in_queue length after every event, acceptance
of every submission, every received packet, final host and peer state).
Oracle: the property text on the real code's observables, no model involved."""
import itertools

from core import coqrun
from core.runner import sha

ID = 'C01'
PROPERTY_FILE = 'C01/Property.v'
LEVEL = 'proof'
ALLOWED_AXIOMS = ()
TRUSTED_BASE = [
    'shared-dongle layer: Model.rexec hand-written from _SharedRadio.run and Crazyradio.set_*/scan_*; tied on command histories '
    'through the real RadioManager/_SharedRadio thread/_SharedRadioInstance/Crazyradio on a fake USB device with tuning state',
    'C01/Model.v host side is hand-written from cflib/crtp/radiodriver.py (_RadioDriverThread.run, '
    '_send_packet_safe, RadioDriver.send_packet/receive_packet), crtpstack.CRTPPacket.__init__ and '
    'crazyradio.Crazyradio.send_packet; tied on every run by differential evaluation against the real code '
    'driven through a fake USB device (harness/fakes/c01_radio.py)',
    'the safelink peer (Crazyflie nRF51 end) and the channel are environment models reconstructed from the '
    'protocol: Python Peer in harness/fakes/c01_radio.py == Coq peer_recv (compared on every run); the real '
    'firmware is not available offline',
    'granularity: application calls touch only out_queue.put / in_queue.get (thread-safe queue.Queue), the loop '
    'touches them only at out_queue.get / in_queue.put, so every interleaving is equivalent to one where '
    'application calls fall between two loop iterations (the schedule points of the harness)',
]
ASSUMPTIONS = [
    'peer supports safelink and always answers an acknowledged frame with at least a header byte',
    'application and firmware do not use port 15 / channel 3 (header & 0xF3 == 0xF3), which is the link layer\'s own '
    '(null packets, safelink enable)',
    'a transmission has one of three outcomes: delivered+acked, uplink lost, delivered+ack lost; iterations in which the '
    'dongle returns None (usb.USBError) may occur anywhere (modelled, proved transparent, tied); iterations in which '
    'radio.send_packet raises are a reported link failure and outside the delivery / link-error theorems (modelled, tied, '
    'behaviour stated as theorems C01_usb_exception_*)',
    'time is not modelled: the 2 s of RadioDriver.send_packet and the wait of receive_packet appear as the events '
    '"timed out" / "returned None"; rate limiting and relaxation sleeps are left out',
    '_nr_of_retries is not changed while the link is open',
]
PROVED = ('For every start-up script, every peer start state and every interleaving of Submit / SubmitTimeout / PeerQueue / '
          'Recv / RecvWait / Tx{Ok,UpLost,AckLost} / silent USB error events after a confirmed negotiation: '
          'received-by-peer ++ pending == accepted and got ++ in_queue ++ pending == queued (null packets filtered), pending '
          'having at most two elements; two acknowledged transmissions flush everything pending; the link-error callback '
          'of the loop fires at a transmission iff it is unacknowledged and is the N-th consecutive one since the last '
          'acknowledgement (both modes); safelink mode iff one of at most 10 attempts was answered by exactly ff 05 01, '
          'needs_resending is its negation, frames are untouched when not in safelink mode; dataOut is never empty. '
          'Round 2: what an exception of radio.send_packet does (one report, stale answer processed again) with witnesses '
          'that exactly-once and the loss count break AFTER it; witness that without confirmation one lost ack duplicates and '
          'loses; the sending-thread report happens iff a put times out on a full queue and only if no transmission was '
          'acknowledged since that packet was accepted; receive_packet wait modes; close() discards out_queue; the parsing '
          'of all 256 dongle status bytes. Round 3: for a new start-up on the same driver object (restart / reconnect) from an '
          'arbitrary earlier world, safelink mode, needs_resending and frame stamping depend on that start-up alone. Round 5: on a '
          'dongle shared by several instances and scans every SEND_PACKET leaves tuned to its own instance\'s setting, for all '
          'command histories; the cached-tuple variant is refuted. Round 6: with a fresh result per transfer every instance reads '
          'exactly the answers of its own transfers in order under every interleaving; a result cell shared per dongle is refuted. Wave 12: the statistics update run inside the radio loop never raises '
          '(HEAD guard structure), the unguarded report is refuted. Wave 13: the frame is the whole packet (header :: payload, up to 31 bytes); '
          'truncation at 30 bytes of frame is refuted. Wave 15: instance ids of one dongle are pairwise distinct over every open/close '
          'history (counter); numbering by the count of open instances is refuted.')
NOT_PROVED = ('No guarantee when the negotiation is not confirmed but the peer enabled safelink (two generals) nor after an '
              'exception of radio.send_packet (refuted by witness). Not modelled: wall-clock time, pause()/restart(), rate '
              'limiting and relaxation sleeps, the shared-radio multiplexing thread, rate/RSSI/congestion statistics (only '
              'shown not to influence the link: differential runs), real firmware conformance to the peer model.')

HEADER = 'From CF Require Import Common.Bytes C01.Model.\nOpen Scope Z_scope.\n'


# ------------------------------------------------------------------ Coq terms

def _zl(xs):
    return coqrun.zlist(xs)


def _fl(fs):
    return '[' + '; '.join(_zl(f) for f in fs) + ']'


def _b(x):
    return 'true' if x else 'false'


_OUT = {'O': 'Ok', 'U': 'UpLost', 'A': 'AckLost'}


def _usb(u):
    return 'None' if u is None else '(Some %s)' % _zl(u)


def coq_parts_lists(case):
    negs = []
    for o in case['negs']:
        if o in ('O', 'U', 'A'):
            negs.append({'O': 'NOk', 'U': 'NUpLost', 'A': 'NAckLost'}[o])
        else:
            negs.append('NOther %s %s' % (_b(o[1]), _zl(o[2])))
    evs = []
    for e in case['evs']:
        if e[0] == 'S':
            evs.append('Submit %s %s' % (coqrun.z(e[1]), _zl(e[2])))
        elif e[0] == 'Q':
            evs.append('PeerQueue %s %s' % (coqrun.z(e[1]), _zl(e[2])))
        elif e[0] == 'R':
            evs.append('Recv')
        elif e[0] == 'T':
            evs.append('Tx %s %s' % (_OUT[e[1]], _zl(e[2])))
        elif e[0] == 'N':
            evs.append('TxUsb false')
        elif e[0] == 'E':
            evs.append('TxUsb true')
        elif e[0] == 'ST':
            evs.append('SubmitTimeout %s %s' % (coqrun.z(e[1]), _zl(e[2])))
        elif e[0] == 'RW':
            evs.append('RecvWait %s' % coqrun.z(e[1]))
        else:
            raise ValueError(e)
    return negs, evs


def coq_parts(case):
    negs, evs = coq_parts_lists(case)
    return '; '.join(negs), '; '.join(evs)


def coq_term(case):
    if case.get('host_only'):
        us = []
        for o in case['negs']:
            if o == 'U':
                us.append([0])
            elif o[0] == 'W':
                us.append(o[1])
            elif o[0] == 'X':
                us.append(([1] if o[1] else [0x30]) + list(o[2]))
            else:
                raise ValueError(o)
        while len(us) < 10:
            us.append([0])
        evs = []
        for e in case['evs']:
            if e[0] == 'S':
                evs.append('HSubmit %s %s' % (coqrun.z(e[1]), _zl(e[2])))
            elif e[0] == 'R':
                evs.append('HRecv')
            elif e[0] == 'W':
                evs.append('HTx %s' % _usb(e[1]))
            elif e[0] == 'N':
                evs.append('HTx None')
            elif e[0] == 'E':
                evs.append('HTxExc')
            elif e[0] == 'ST':
                evs.append('HSubmitTimeout %s %s' % (coqrun.z(e[1]), _zl(e[2])))
            elif e[0] == 'RW':
                evs.append('HRecvWait %s' % coqrun.z(e[1]))
            else:
                raise ValueError(e)
        return 'host_session_obs %s [%s] [%s] %s' % (coqrun.z(case['N']), '; '.join(_usb(u) for u in us), '; '.join(evs),
                                                     _b(case.get('close')))
    p0 = case['p0']
    peer = '(mkPeer %s %s %s [] %s %s)' % (_b(p0['on']), _b(p0['up']), _b(p0['down']), _fl(p0['txq']),
                                          'None' if p0['last'] is None else '(Some %s)' % _zl(p0['last']))
    negs, evs = coq_parts_lists(case)
    if case.get('more'):
        more = []
        for seg in case['more']:
            sub = coq_parts(seg)
            more.append('(%s, [%s], [%s])' % ({'restart': 'Restart', 'reconnect': 'Reconnect'}[seg['how']], sub[0], sub[1]))
        return 'history_obs %s %s [%s] [%s] [%s] %s' % (coqrun.z(case['N']), peer, '; '.join(negs), '; '.join(evs),
                                                       '; '.join(more), _b(case.get('close')))
    return 'session_obs %s %s [%s] [%s] %s' % (coqrun.z(case['N']), peer, '; '.join(negs), '; '.join(evs),
                                               _b(case.get('close')))


# A cheap checksum of the observation list, computed inside Coq and in Python (Common.Digest's prime-field digest
# costs ~0.5 ms per element under vm_compute: too slow for ~10^6 observed values).  Test plumbing only: two
# multiplicative hashes modulo 2^45 (masking, no division); a mismatching case is re-evaluated and printed in full.
DG_MASK = (1 << 45) - 1
DG_HEADER = HEADER + (
    'Definition dgm : Z := 35184372088831.\n'
    'Definition dg1 (l : list Z) : Z := fold_left (fun h v => Z.land (33 * h + v + 1) dgm) l 7.\n'
    'Definition dg2 (l : list Z) : Z := fold_left (fun h v => Z.land (73 * h + v + 12345) dgm) l 11.\n'
    'Definition dg (l : list Z) : Z * Z * Z := (Z.of_nat (length l), dg1 l, dg2 l).\n')


def _dg(values):
    h1, h2 = 7, 11
    for v in values:
        h1 = (33 * h1 + v + 1) & DG_MASK
        h2 = (73 * h2 + v + 12345) & DG_MASK
    return (len(values), h1, h2)


def compare_cases(terms, expected):
    """terms[i] : Coq term of type list Z, expected[i] the implementation's observation list.
    Returns [(index, model values or None)] for the cases that differ."""
    B = 12          # cases per Eval (each Eval command costs ~20 ms whatever its size)
    chunks = [terms[i:i + B] for i in range(0, len(terms), B)]
    vals = coqrun.eval_terms(DG_HEADER, ['[' + '; '.join('dg (%s)' % t for t in ch) + ']' for ch in chunks],
                             tag='c01', shard=max(4, len(chunks) // 16 + 1))
    got = [d for v in vals for d in v]
    if len(got) != len(terms):
        raise coqrun.CoqError('C01 model evaluation: %d checksums for %d cases' % (len(got), len(terms)))

    def _flat3(d):
        return (d[0][0], d[0][1], d[1]) if isinstance(d[0], tuple) else tuple(d)
    bad = [i for i, (d, e) in enumerate(zip(got, expected)) if _flat3(d) != _dg(e)]
    out = []
    if bad:
        full = coqrun.eval_terms(HEADER, [terms[i] for i in bad[:6]], tag='c01f', shard=1)
        out = list(zip(bad[:6], full)) + [(i, None) for i in bad[6:]]
    return out


def run_impl(case, timeout=None):
    from fakes import c01_radio
    return c01_radio.run_case(case, timeout)


def _err_text():
    """text of the exception being handled; 'BLOCKED: …' / 'SKIPPED: …' for a case stopped by the watchdog"""
    import sys
    import traceback
    from fakes import c01_radio
    e = sys.exc_info()[1]
    if isinstance(e, c01_radio.Blocked):
        return '%s | stuck in: %s' % (e, e.where)
    return traceback.format_exc()[-1200:]


def _crash_class(err):
    return 'radio_thread_blocked' if str(err).startswith('BLOCKED') else None if str(err).startswith('SKIPPED') else 'radio_loop_raised'


# ------------------------------------------------------------------ case generation

P0_STD = {'on': 0, 'up': 0, 'down': 1, 'txq': [], 'last': None}


def _app_hdr(rng):
    """a CRTPPacket.header of an application packet: port<<4 | 0xC | channel, not port 15 channel 3"""
    while True:
        h = (rng.randrange(16) << 4) | 0x0c | rng.randrange(4)
        if h & 0xf3 != 0xf3:
            return h


def _fw_hdr(rng):
    """header byte as the firmware queues it (bits 2,3 arbitrary), not a null packet"""
    while True:
        h = rng.randrange(256)
        if h & 0xf3 != 0xf3:
            return h


MAX_UP = 30      # CRTPPacket.MAX_DATA_SIZE: payload bytes of an uplink packet (the frame is header + payload: 31 bytes)
MAX_DN = 31      # an ESB ack payload is at most 32 bytes: header + 31


def _payload(rng, maximum):
    """payload lengths: mostly short, the maximum itself often (boundary), the rest anywhere in 0..maximum"""
    r = rng.random()
    n = rng.randrange(0, 6) if r < 0.5 else maximum if r < 0.72 else maximum - 1 if r < 0.78 else rng.randrange(0, maximum + 1)
    return [rng.randrange(256) for _ in range(n)]


def _full(first, n):
    """a recognisable payload of exactly n bytes starting with `first`"""
    return (list(first) + [(7 * j + 3) & 0xff for j in range(n)])[:n]


SUB_PATTERNS = ('every', 'alt', 'burst')
DN_PATTERNS = ('every', 'alt', 'burst')


def enum_case(script, sp, dp, recv, serial):
    """One case of the exhaustive family: outcome string `script`, submission pattern sp, downlink pattern dp.
    Packet contents are a deterministic function of their serial number (distinct, recognisable)."""
    evs = []
    k = len(script)
    ns = nq = 0

    def sub():
        nonlocal ns
        ns += 1
        return ['S', ((ns * 5 % 15) << 4) | 0x0c | (ns % 3), _full([ns, serial & 0xff], MAX_UP if (ns + serial) % 3 == 0 else 2)]

    def que():
        nonlocal nq
        nq += 1
        return ['Q', ((nq * 3 % 15) << 4) | ((nq & 3) << 2) | (nq % 3), _full([0x40 + nq], MAX_DN if (nq + serial) % 3 == 1 else 1)]
    for i, o in enumerate(script):
        if sp == 'every' or (sp == 'alt' and i % 2 == 0):
            evs.append(sub())
        elif sp == 'burst' and i in (0, k // 2):
            evs += [sub(), sub()]
        if dp == 'every' or (dp == 'alt' and i % 2 == 1):
            evs.append(que())
        elif dp == 'burst' and i == 0:
            evs += [que(), que(), que()]
        evs.append(['T', o, [] if i % 3 else [1, 0x20 + i]])
        if recv and i % 2 == 1:
            evs.append(['R'])
    evs.append(['D'])
    return {'N': 3, 'p0': dict(P0_STD), 'negs': ['O'], 'evs': evs, 'family': 'enum'}


def enum_cases(kmax, kfull):
    """all outcome strings up to length kmax; all 9 pattern pairs up to kfull, one rotating pair beyond"""
    out = []
    serial = 0
    for k in range(1, kmax + 1):
        for script in itertools.product('OUA', repeat=k):
            serial += 1
            if k <= kfull:
                pairs = [(s, d) for s in SUB_PATTERNS for d in DN_PATTERNS]
            else:
                pairs = [(SUB_PATTERNS[serial % 3], DN_PATTERNS[(serial // 3) % 3])]
            for (s, d) in pairs:
                out.append(enum_case(script, s, d, (serial + len(out)) & 1, serial))
    return out


def random_case(rng, maxlen):
    n = rng.randrange(5, maxlen + 1)
    N = rng.choice([1, 2, 3, 3, 4, 7, 100])
    p_loss = rng.choice([0.1, 0.3, 0.5, 0.8])
    kind = rng.random()
    if kind < 0.70:
        negs = [rng.choice('UA') for _ in range(rng.randrange(0, 4))] + ['O']
    elif kind < 0.80:
        negs = [rng.choice(['U', 'A', ['X', 1, [0xf3, 1, 0x30]], ['X', 0, []]]) for _ in range(10)]   # never confirmed
    elif kind < 0.90:
        negs = [['X', rng.randrange(2), [rng.randrange(256) for _ in range(rng.randrange(0, 5))]]
                for _ in range(rng.randrange(0, 9))] + ['O']
    else:
        negs = ['U'] * rng.randrange(8, 12) + ['O']          # success on the 9th/10th attempt, or never
    p0 = {'on': rng.randrange(2), 'up': rng.randrange(2), 'down': rng.randrange(2),
          'txq': [[_fw_hdr(rng)] + _payload(rng, MAX_DN)
                  for _ in range(rng.randrange(0, 3))],
          'last': None if rng.random() < 0.7 else [_fw_hdr(rng), 1]}
    evs = []
    api = rng.random() < 0.5            # use the whole RadioDriver API (timeouts, wait modes) and silent USB errors
    exc = rng.random() < 0.12           # radio.send_packet raises now and then (outside the property; tie only)
    for i in range(n):
        r = rng.random()
        if r < 0.22:
            kind_s = 'ST' if api and rng.random() < 0.4 else 'S'
            evs.append([kind_s, _app_hdr(rng), _payload(rng, MAX_UP)])
        elif r < 0.40:
            evs.append(['Q', _fw_hdr(rng), _payload(rng, MAX_DN)])
        elif r < 0.52:
            evs.append(['RW', rng.choice([0, -1, -2, 1, 3])] if api and rng.random() < 0.6 else ['R'])
        elif api and r < 0.57:
            evs.append(['N'])
        elif exc and r < 0.62:
            evs.append(['E'])
        else:
            o = 'O' if rng.random() > p_loss else rng.choice('UA')
            evs.append(['T', o, rng.choice([[], [1, rng.randrange(256)], [rng.randrange(256)]])])
    if rng.random() < 0.6:
        evs.append(['D'])
    c = {'N': N, 'p0': p0, 'negs': negs, 'evs': evs, 'family': 'random'}
    if rng.random() < 0.3:
        c['close'] = 1
    return c


def host_case(rng, maxlen):
    """host alone against arbitrary dongle answers (also ones no safelink peer would give)"""
    def usb(safe_bias):
        r = rng.random()
        if r < 0.08:
            return None
        if r < 0.25:
            return [rng.choice([0, 0x30, 0x10])]
        if r < 0.33:
            return [rng.choice([0x30, 0x02, 0x44])] + [rng.randrange(256) for _ in range(rng.randrange(0, 4))]
        st = 0x01 | (rng.randrange(4) << 4) | (rng.randrange(2) << 1)
        if r < 0.40:
            return [st]                                        # acknowledged, empty payload
        return [st, rng.randrange(256)] + _payload(rng, MAX_DN)
    kind = rng.random()
    negs = []
    for _ in range(rng.randrange(0, 11)):
        r = rng.random()
        if r < 0.5:
            negs.append('U')
        elif r < 0.6:
            negs.append(['W', None])
        elif r < 0.8:
            negs.append(['X', rng.randrange(2), [rng.choice([0xff, 0xf3]), 5, rng.randrange(2)]])
        else:
            negs.append(['X', 1, [rng.randrange(256) for _ in range(rng.randrange(0, 5))]])
    if kind < 0.6:
        negs.append(['X', rng.randrange(2), [0xff, 5, 1]])
    evs = []
    for _ in range(rng.randrange(3, maxlen + 1)):
        r = rng.random()
        if r < 0.25:
            evs.append(['S', rng.randrange(256), _payload(rng, MAX_UP)])
        elif r < 0.35:
            evs.append(['R'])
        elif r < 0.38:
            # a run of acknowledged answers without payload (drives emptyCtr, at times past its threshold of 10)
            st = 0x01 | (rng.randrange(4) << 4)
            evs += [['W', [st]] for _ in range(rng.choice([3, 6, 7, 8, 9, 12]))]
            evs.append(['W', [st, rng.randrange(256), rng.randrange(256)]])
        elif r < 0.46:
            evs.append(['E'])
        elif r < 0.50:
            evs.append(['ST', rng.randrange(256), _payload(rng, MAX_UP)])
        elif r < 0.54:
            evs.append(['RW', rng.choice([0, -1, 2, 7])])
        else:
            evs.append(['W', usb(kind < 0.6)])
    c = {'N': rng.choice([1, 2, 3, 5]), 'host_only': 1, 'negs': negs, 'evs': evs, 'family': 'host'}
    if rng.random() < 0.3:
        c['close'] = 1
    return c


def threaded_case(rng, ntx, napp):
    """real threads: the script holds only the radio-thread side (outcomes, firmware queueing); the application
    thread submits `napp` packets and polls receive_packet concurrently"""
    p_loss = rng.choice([0.1, 0.3, 0.6])
    evs = []
    for i in range(ntx):
        if rng.random() < 0.12:
            evs.append(['Q', _fw_hdr(rng), [i & 0xff, (i >> 8) & 0xff, rng.randrange(256)]])
        else:
            evs.append(['T', 'O' if rng.random() > p_loss else rng.choice('UA'), rng.choice([[], [1, 0x21]])])
    evs.append(['D'])
    return {'N': rng.choice([2, 5, 1000]), 'p0': dict(P0_STD), 'negs': [rng.choice('UA'), 'O'], 'evs': evs,
            'threaded': {'n': napp, 'seed': rng.randrange(1 << 30)}, 'family': 'threaded'}


NEG_KINDS = {
    'ok': ['O'],
    'late': ['U', 'A', 'U', 'O'],
    'lost': [],                                   # all 10 requests unanswered
    'acklost': ['A'] * 10,                        # peer switched, host never saw the echo
    'other': [['X', 1, [0xf3, 1, 0x2c]]] * 10,    # a peer that answers with something else (other firmware, bootloader)
}


def _small_events(rng, n, api=False):
    evs = []
    for i in range(n):
        r = rng.random()
        if r < 0.3:
            evs.append(['S', _app_hdr(rng), _payload(rng, MAX_UP)])
        elif r < 0.45:
            evs.append(['Q', _fw_hdr(rng), _payload(rng, MAX_DN)])
        elif r < 0.55:
            evs.append(['R'])
        else:
            evs.append(['T', rng.choice('OOOUA'), rng.choice([[], [1, 0x22]])])
    return evs


def multi_cases(ctx):
    """several sessions on ONE RadioDriver object: every pair of start-up kinds x both ways of reopening, then
    random longer histories"""
    rng = ctx.rng
    out = []
    for k1 in NEG_KINDS:
        for how in ('restart', 'reconnect'):
            for k2 in NEG_KINDS:
                out.append({'N': 3, 'p0': dict(P0_STD), 'negs': list(NEG_KINDS[k1]), 'evs': _small_events(rng, 8),
                            'more': [{'how': how, 'negs': list(NEG_KINDS[k2]), 'evs': _small_events(rng, 8)}],
                            'family': 'multi'})
    for _ in range(ctx.scale(40, 600)):
        kinds = list(NEG_KINDS)
        c = {'N': rng.choice([2, 3, 100]), 'p0': dict(P0_STD, on=rng.randrange(2)),
             'negs': list(NEG_KINDS[rng.choice(kinds)]), 'evs': _small_events(rng, rng.randrange(0, 25)),
             'more': [{'how': rng.choice(['restart', 'reconnect']), 'negs': list(NEG_KINDS[rng.choice(kinds)]),
                       'evs': _small_events(rng, rng.randrange(0, 25))} for _ in range(rng.randrange(1, 4))],
             'family': 'multi'}
        if rng.random() < 0.3:
            c['close'] = 1
        out.append(c)
    return out


def shared_case(rng, maxlen):
    """link A over the REAL _SharedRadio/_SharedRadioInstance/RadioManager stack on a dongle with tuning state; between
    A's transmissions: scans from other driver objects and traffic of a second link B on other settings.  Scans never
    use A's own (channel, datarate, address): a foreign transmitter hitting A's Crazyflie is outside the property."""
    evs = []
    nb = 0
    for i in range(rng.randrange(4, maxlen + 1)):
        r = rng.random()
        if r < 0.2:
            evs.append(['S', _app_hdr(rng), _payload(rng, MAX_UP)])
        elif r < 0.3:
            evs.append(['Q', _fw_hdr(rng), _payload(rng, MAX_DN)])
        elif r < 0.38:
            evs.append(['R'])
        elif r < 0.44:
            evs.append(['SC', rng.choice([None, None, 0xE7E7E7E702, 0xE7E7E7E7E7, 0x0102030405])])
        elif r < 0.50:
            evs.append(['SS', rng.sample(['radio://0/33/250K', 'radio://0/80/2M', 'radio://0/125/2M', 'radio://0/7/1M',
                                          'radio://0/80/1M', 'radio://0/125/250K', 'radio://0/2/2M'], rng.randrange(1, 5))])
        elif r < 0.58:
            nb += 1
            evs.append(['BS', [_app_hdr(rng), nb & 0xff, rng.randrange(256)]])
        elif r < 0.66:
            evs.append(rng.choice([['CL', 'x'], ['CL', 'y'], ['CL', 'b'], ['OP', 'x'], ['OP', 'y'], ['OP', 'z'], ['CL', 'z'], ['GS']]))
        else:
            evs.append(['T', rng.choice('OOOOUA'), rng.choice([[], [1, 0x23]])])
    evs.append(['D'])
    c = {'shared': 1, 'N': rng.choice([3, 5, 100]), 'p0': dict(P0_STD), 'negs': rng.choice([['O'], ['U', 'A', 'O']]),
         'evs': evs, 'family': 'shared', 'pre': rng.choice([[], [], ['x'], ['x', 'y'], ['y', 'x']])}
    if rng.random() < 0.3:
        c['close'] = 1
    return c


def shared_cases(ctx):
    out = []
    # the smallest histories: one accepted packet, one scan of each kind / one frame of link B, before and after it
    for side in (['SC', None], ['SS', ['radio://0/33/250K', 'radio://0/125/2M']], ['BS', [0x5c, 1, 2]], ['SC', 0xE7E7E7E702]):
        for pos in (0, 1, 2):
            evs = [['S', 0x3c, _full([1], MAX_UP)], ['T', 'O', []], ['S', 0x4d, [2]]]
            evs.insert(pos, list(side))
            out.append({'shared': 1, 'N': 3, 'p0': dict(P0_STD), 'negs': ['O'], 'evs': evs + [['D']], 'family': 'shared'})
    # open/close HISTORIES of instances on the one dongle: others opened before the link, closed in every order while the
    # link is in use, then somebody new arrives (a third instance, a scan, a status query, link B)
    for pre in (['x'], ['x', 'y'], ['y', 'x']):
        for closing in ([['CL', 'x']], [['CL', 'y']], [['CL', 'x'], ['CL', 'y']], [['CL', 'y'], ['CL', 'x']]):
            for newcomer in (['OP', 'z'], ['GS'], ['SC', None], ['BS', [0x5c, 1, 2]]):
                evs = [['S', 0x3c, [1]], ['T', 'O', []]] + [list(e) for e in closing] + [list(newcomer), ['S', 0x4d, [2]], ['Q', 0x50, [3]]]
                out.append({'shared': 1, 'N': 3, 'p0': dict(P0_STD), 'negs': ['O'], 'pre': list(pre), 'evs': evs + [['D']], 'family': 'shared'})
    out += [shared_case(ctx.rng, ctx.scale(30, 80)) for _ in range(ctx.scale(25, 400))]
    return out


def command_history(rng, n):
    """commands at the _SharedRadioInstance API from up to 3 instances sharing the dongle"""
    addrs = [(0xe7,) * 5, (0xe7, 0xe7, 0xe7, 0xe7, 1), (1, 2, 3, 4, 5)]
    sets = {k: (rng.choice([2, 40, 80, 125]), rng.randrange(3), rng.choice(addrs)) for k in range(3)}
    cmds = [['open', 0]]
    for _ in range(n):
        r = rng.random()
        k = rng.randrange(3)
        if r < 0.12:
            cmds.append(['open', k])
        elif r < 0.5:
            if rng.random() < 0.2:
                sets[k] = (rng.choice([2, 40, 80, 125]), rng.randrange(3), rng.choice(addrs))
            cmds.append(['send', k, sets[k], [rng.randrange(256) for _ in range(rng.randrange(1, 4))]])
        elif r < 0.65:
            a = rng.randrange(0, 126)
            cmds.append(['scanc', k, rng.randrange(3), rng.choice(addrs), a, min(125, a + rng.randrange(-1, 6))])
        elif r < 0.8:
            cmds.append(['scans', k, rng.randrange(3), rng.choice(addrs),
                         [(rng.choice([2, 40, 80, 125, 7]), rng.randrange(3)) for _ in range(rng.randrange(0, 4))]])
        elif r < 0.88:
            cmds.append(['arc', k, rng.randrange(0, 16)])
        else:
            cmds.append(['close', k])
    return cmds


def _coq_setting(t):
    return '(mkSet %d %d %s)' % (t[0], t[1], _zl(t[2]))


def coq_commands(seen):
    out = []
    for c in seen:
        if c[0] == 'reset':
            out.append('CReset')
        elif c[0] == 'send':
            out.append('CSend %d %s %s' % (c[1], _coq_setting(c[2]), _zl(c[3])))
        elif c[0] == 'scanc':
            out.append('CScanChannels %d %d %s %d %d%%nat [255]' % (c[1], c[2], _zl(c[3]), c[4], max(0, c[5] - c[4] + 1)))
        elif c[0] == 'scans':
            out.append('CScanSelected %d %d %s [%s] [255; 255; 255]' % (c[1], c[2], _zl(c[3]),
                                                                      '; '.join('(%d, %d)' % t for t in c[4])))
        elif c[0] == 'arc':
            out.append('CSetArc %d %d' % (c[1], c[2]))
        elif c[0] == 'close':
            out.append('CStop %d' % c[1])
    return 'air_obs (fst (rexec [%s] dongle0))' % '; '.join(out)


_cmd_runs = {}
CMD_AIR = [(125, 2, (0xe7,) * 5), (40, 1, (1, 2, 3, 4, 5))]


def _run_cmds(cmds, timeout=8):
    from fakes import c01_shared, c01_radio
    return c01_radio.bounded(lambda: c01_shared.run_commands(cmds, air=CMD_AIR), timeout)



def command_results(ctx):
    key = (ctx.tier, ctx.seed, ctx.repo)
    if key not in _cmd_runs:
        from fakes import c01_shared
        rng = __import__('random').Random(ctx.seed * 31 + 5)
        out = []
        fixed = [[['open', 0], ['open', 1], ['send', 0, (80, 2, (0xe7, 0xe7, 0xe7, 0xe7, 1)), [255]],
                  ['scanc', 1, 0, (0xe7,) * 5, 0, 3], ['send', 0, (80, 2, (0xe7, 0xe7, 0xe7, 0xe7, 1)), [60, 1]]]]
        for cmds in fixed + [command_history(rng, rng.randrange(3, 40)) for _ in range(ctx.scale(40, 600))]:
            try:
                out.append((cmds,) + tuple(_run_cmds(cmds)))
            except Exception:
                out.append((cmds, None, None, None, _err_text()[-800:]))
        _cmd_runs.clear()
        _cmd_runs[key] = out
    return _cmd_runs[key]


def _pair_script(rng, n, mark):
    """a link's own script; payloads start with `mark` so that packets of the two links can be told apart"""
    evs = []
    ns = nq = 0
    for _ in range(n):
        r = rng.random()
        if r < 0.3:
            ns += 1
            evs.append(['S', _app_hdr(rng), _full([mark, ns & 0xff], MAX_UP if rng.random() < 0.25 else 2)])
        elif r < 0.5:
            nq += 1
            evs.append(['Q', _fw_hdr(rng), _full([mark ^ 0x0f, nq & 0xff], MAX_DN if rng.random() < 0.25 else 2)])
        elif r < 0.6:
            evs.append(['R'])
        else:
            evs.append(['T', rng.choice('OOOOUA'), rng.choice([[], [1, 0x24]])])
    return evs + [['D']]


def pair_cases(ctx):
    """two complete links (own safelink session, own Crazyflie, own loss script) on ONE dongle, under a gate that decides
    who moves between the hand-over points (about to transfer / holds the answer, not yet looked at)"""
    rng = ctx.rng
    out = []
    small_a = [['S', 0x3c, _full([0xa1, 1], MAX_UP)], ['Q', 0x50, _full([0xae, 1], MAX_DN)], ['T', 'O', []], ['D']]
    small_b = [['S', 0x4c, [0xb1, 1]], ['Q', 0x60, [0xbe, 1]], ['T', 'A', []], ['D']]
    # B's complete transfer placed inside each of A's first windows (and vice versa)
    for sched in ('aabbb' * 6, 'bbaaa' * 6, 'ab' * 20, 'aabb' * 10, 'abbba' * 8, 'a' * 7 + 'b' * 7 + 'aabbb' * 5):
        out.append({'pair': 1, 'N': 3, 'schedule': sched, 'family': 'pair',
                    'A': {'p0': dict(P0_STD), 'negs': ['O'], 'evs': [list(e) for e in small_a]},
                    'B': {'p0': dict(P0_STD), 'negs': ['O'], 'evs': [list(e) for e in small_b]}})
    for _ in range(ctx.scale(30, 500)):
        n = rng.randrange(3, ctx.scale(25, 60))
        out.append({'pair': 1, 'N': rng.choice([3, 5, 100]), 'family': 'pair',
                    'schedule': ''.join(rng.choice('ab') for _ in range(rng.randrange(0, 200))),
                    'A': {'p0': dict(P0_STD), 'negs': rng.choice([['O'], ['A', 'O']]), 'evs': _pair_script(rng, n, 0xa1)},
                    'B': {'p0': dict(P0_STD), 'negs': rng.choice([['O'], ['U', 'O']]), 'evs': _pair_script(rng, rng.randrange(3, 25), 0xb1)}})
    return out


_pair_runs = {}


def pair_results(ctx):
    key = (ctx.tier, ctx.seed, ctx.repo)
    if key not in _pair_runs:
        out = []
        for c in pair_cases(ctx):
            try:
                out.append((c, run_impl(c), None))
            except Exception:
                out.append((c, None, _err_text()))
        _pair_runs.clear()
        _pair_runs[key] = out
    return _pair_runs[key]


def judge_pair(case, res):
    """the ordinary C01 oracle on EACH of the two links, plus: nothing a link receives comes from the other link's Crazyflie"""
    fails = []
    pc = {k: v for k, v in case.items() if k != 'family'}
    if res.hung or any(s.crashed for s in res.sims.values()):
        return [{'class': 'radio_thread_blocked' if res.hung else 'radio_loop_raised', 'case': pc, 'expected': 'both sessions end',
                 'observed': {n: s.crashed for n, s in res.sims.items()}, 'detail': 'two links on one dongle'}]
    for n, other in (('A', 'B'), ('B', 'A')):
        sim, osim = res.sims[n], res.sims[other]
        for f in judge(dict(case[n], N=case['N']), sim):
            f['case'] = pc
            f['detail'] = 'link %s of two links sharing the dongle: %s' % (n, f.get('detail', ''))
            fails.append(f)
        mine = [[(q[0] & 0xf3) | 0x0c] + q[1:] for q in sim.queued]
        theirs = [[(q[0] & 0xf3) | 0x0c] + q[1:] for q in osim.queued]
        alien = [f for f in sim.got + sim.final['inq'] if _nn(f) and f in theirs and f not in mine]
        if alien:
            fails.append({'class': 'other_links_packet_received', 'case': pc, 'expected': [], 'observed': alien[:3],
                          'detail': "receive_packet on link %s returned packets queued by link %s's Crazyflie" % (n, other)})
    return fails


IDLE_DTS = (0.0, 0.05, 0.15, 0.35)


def idle_case(rng, maxlen):
    """a safelink peer that answers with a ZERO-LENGTH ack payload when it has nothing queued, idle phases of
    0 / 0.05 / 0.15 / 0.35 s (virtual statistics clock) between transmissions, mixed with losses"""
    evs = []
    for _ in range(rng.randrange(3, maxlen + 1)):
        r = rng.random()
        if r < 0.15:
            evs.append(['S', _app_hdr(rng), _payload(rng, MAX_UP)])
        elif r < 0.27:
            evs.append(['Q', _fw_hdr(rng), _payload(rng, MAX_DN)])
        elif r < 0.35:
            evs.append(['R'])
        elif r < 0.55:
            evs.append(['I', rng.choice(IDLE_DTS)])
        else:
            evs.append(['T', rng.choice('OOOOUA'), []])
    evs.append(['D'])
    p0 = dict(P0_STD, empty_idle=1, txq=[[_fw_hdr(rng), 7]] if rng.random() < 0.3 else [])
    return {'N': rng.choice([2, 3, 100]), 'p0': p0, 'negs': rng.choice([['O'], ['U', 'O'], []]), 'evs': evs, 'family': 'idle'}


def idle_cases(ctx):
    out = []
    for dt in IDLE_DTS:                      # the smallest: one acknowledged empty answer, an idle phase, another one
        for pre in ([], [['Q', 0x50, [1]], ['T', 'O', []]]):
            out.append({'N': 3, 'p0': dict(P0_STD, empty_idle=1), 'negs': ['O'], 'family': 'idle',
                        'evs': pre + [['T', 'O', []], ['I', dt], ['T', 'O', []], ['S', 0x3c, _full([1], MAX_UP)], ['T', 'U', []], ['D']]})
    out += [idle_case(ctx.rng, ctx.scale(40, 100)) for _ in range(ctx.scale(40, 600))]
    return out


def host_replay_term(case, sim):
    """the host model alone on the dongle answers this run produced (the empty-when-idle peer is environment of the
    oracle only): negotiation answers and per-transmission raw USB answers are replayed into host_session_obs"""
    us = [None if u is None else list(u) for u in sim.sessions[0]['neg_usb']]
    while len(us) < 10:
        us.append([0])
    evs = []
    k = 0
    for e in sim.sessions[0]['executed']:
        if e[0] == 'S':
            evs.append('HSubmit %s %s' % (coqrun.z(e[1]), _zl(e[2])))
        elif e[0] == 'R':
            evs.append('HRecv')
        elif e[0] == 'Q':
            evs.append('HNop')
        elif e[0] == 'T':
            evs.append('HTx %s' % _usb(sim.tx[k].get('usb')))
            k += 1
        else:
            raise ValueError(e)
    return 'host_session_obs %s [%s] [%s] %s' % (coqrun.z(case['N']), '; '.join(_usb(u) for u in us), '; '.join(evs),
                                                 _b(case.get('close')))


def length_cases(ctx):
    """every uplink payload length 0..30 and every downlink payload length 0..31, each under the loss patterns
    O, UO, AO, UAO of its first transmission(s) (the frame is re-stamped and re-sent: the bytes must survive that)"""
    out = []
    for n in range(0, MAX_DN + 1):
        for pat in ('O', 'UO', 'AO', 'UAO') if n in (0, 1, 29, 30, 31) or ctx.thorough else ('UAO',):
            evs = []
            if n <= MAX_UP:
                evs.append(['S', 0x3c | ((n % 14) << 4) & 0xf0, _full([n], n)])
            evs.append(['Q', 0x10 + n, _full([0x80 | n], n)])
            evs.append(['T', 'O', []])             # loads the packet into dataOut
            evs += [['T', o, []] for o in pat]
            evs.append(['D'])
            out.append({'N': 5, 'p0': dict(P0_STD), 'negs': ['O'], 'evs': evs, 'family': 'length'})
    return out


def corpus_cases():
    import glob
    import json
    import os
    out = []
    for p in sorted(glob.glob(os.path.join(coqrun.VERIF, 'corpus', 'C01', '*.json'))):
        c = json.load(open(p))
        c = c.get('case', c)
        c['family'] = 'corpus'
        out.append(c)
    return out


def all_cases(ctx):
    cs = corpus_cases()
    cs += enum_cases(ctx.scale(5, 9), ctx.scale(3, 6))
    cs += [random_case(ctx.rng, ctx.scale(100, 400)) for _ in range(ctx.scale(110, 2500))]
    cs += [host_case(ctx.rng, ctx.scale(40, 120)) for _ in range(ctx.scale(110, 3000))]
    cs += multi_cases(ctx)
    cs += shared_cases(ctx)
    cs += idle_cases(ctx)
    cs += length_cases(ctx)
    return cs


# ------------------------------------------------------------------ running the real code (cached per process)

_runs = {}


def results(ctx):
    key = (ctx.tier, ctx.seed, ctx.repo)
    if key not in _runs:
        out = []
        for c in all_cases(ctx):
            try:
                out.append((c, run_impl(c), None))
            except Exception:
                out.append((c, None, _err_text()))
        _runs.clear()
        _runs[key] = out
    return _runs[key]


def explicit(case, sim):
    """the case with the drain expanded (what the model is run on)"""
    c = dict(case)
    c['evs'] = list(sim.sessions[0]['executed'])
    if case.get('more'):
        c['more'] = [dict(seg, evs=list(ss['executed'])) for seg, ss in zip(case['more'], sim.sessions[1:])]
    return c


def _nontrivial(case, sim):
    if case.get('host_only'):
        return any(e[0] == 'W' and (e[1] is None or not (e[1][0] & 1)) for e in case['evs']) and len(sim.final['inq']) + len(sim.got) >= 2
    lost = sum(1 for t in sim.tx if t['o'] in ('U', 'A'))
    up = sum(1 for f in sim.peer.rx if f and f[0] & 0xf3 != 0xf3)
    dn = sum(1 for f in sim.got + sim.final['inq'] if f[0] & 0xf3 != 0xf3)
    return lost >= 1 and up >= 2 and dn >= 2


def tie(ctx):
    res = results(ctx)
    dis = []
    terms, exp, idx = [], [], []
    dist = {'enum': 0, 'random': 0, 'host': 0, 'corpus': 0, 'multi': 0, 'threaded': 0, 'shared': 0, 'idle': 0, 'length': 0, 'transmissions': 0, 'lost': 0, 'not_confirmed': 0,
            'link_errors': 0, 'max_events': 0}
    seen = set()
    nontriv = 0
    for i, (c, sim, err) in enumerate(res):
        dist[c.get('family', 'random')] += 1
        if sim is None:
            if _crash_class(err):
                dis.append({'what': 'the real radio loop raised or got stuck on a scripted session', 'case': c, 'impl': err, 'model': None})
            continue
        ec = explicit(c, sim)
        if c.get('family') == 'idle':
            terms.append(host_replay_term(c, sim))
            exp.append(sim.flat_host)
        else:
            terms.append(coq_term(ec))
            exp.append(sim.flat_host if c.get('host_only') else sim.flat)
        idx.append(i)
        dist['transmissions'] += len(sim.tx)
        dist['lost'] += sum(1 for t in sim.tx if t.get('ack') is not True)
        dist['not_confirmed'] += 0 if sim.final['safe'] else 1
        dist['link_errors'] += sim._n_lost_errors()
        dist['max_events'] = max(dist['max_events'], len(ec['evs']))
        h = sha(ec)
        if h not in seen:
            seen.add(h)
            if _nontrivial(c, sim):
                nontriv += 1
    for bi, mv in compare_cases(terms, exp):
        c, sim, _ = res[idx[bi]]
        first = None
        if mv is not None:
            for k, (a, b) in enumerate(zip(mv, exp[bi])):
                if a != b:
                    first = k
                    break
            if first is None:
                first = min(len(mv), len(exp[bi]))
        if len(dis) < 6:
            dis.append({'what': 'radio loop: model and implementation observe different things',
                        'case': c, 'first_difference_at': first,
                        'model': None if mv is None else mv[max(0, (first or 0) - 12):(first or 0) + 12],
                        'impl': exp[bi][max(0, (first or 0) - 12):(first or 0) + 12]})
    # ---- two complete links on one dongle under the gate: each link observes exactly what it would observe alone
    for c, pres, err in pair_results(ctx):
        dist['pair'] = dist.get('pair', 0) + 1
        if pres is None and _crash_class(err) is None:
            continue
        if pres is None or pres.hung or any(s.crashed for s in pres.sims.values()):
            dis.append({'what': 'two links on one dongle: the real stack raised or hung', 'case': c,
                        'impl': err or {n: s.crashed for n, s in pres.sims.items()}, 'model': None})
            continue
        pt, pe = [], []
        for n in 'AB':
            sub = dict(c[n], N=c['N'])
            pt.append(coq_term(explicit(sub, pres.sims[n])))
            pe.append(pres.sims[n].flat)
        c['_terms'], c['_exp'] = pt, pe
    pcs = [c for c, r, e in pair_results(ctx) if '_terms' in c]
    pterms2 = [t for c in pcs for t in c['_terms']]
    pexp2 = [e for c in pcs for e in c['_exp']]
    for bi, mv in compare_cases(pterms2, pexp2):
        if len(dis) < 8:
            c = pcs[bi // 2]
            dis.append({'what': 'two links on one dongle: link %s does not observe what it observes alone' % 'AB'[bi % 2],
                        'case': {k: v for k, v in c.items() if not k.startswith('_') and k != 'family'},
                        'model': None if mv is None else mv[:40], 'impl': pexp2[bi][:40]})
    for c in pcs:
        c.pop('_terms', None)
        c.pop('_exp', None)
    # ---- the shared dongle: command histories through the real RadioManager / _SharedRadio thread / _SharedRadioInstance /
    #      Crazyradio on a dongle with tuning state; per packet on the air (channel, datarate, address, bytes) == Model.rexec
    cterms, cexp, cidx = [], [], []
    cres = command_results(ctx)
    for k, r in enumerate(cres):
        if r[1] is None:
            dis.append({'what': 'shared dongle: the real stack raised on a command history', 'case': {'cmds': r[0]}, 'impl': r[4], 'model': None})
            continue
        flat = []
        for (ch, dr, addr), data in r[1]:
            flat += [ch, dr, len(addr)] + list(addr) + [len(data)] + data
        cterms.append(coq_commands(r[2]))
        cexp.append(flat)
        cidx.append(k)
    # instance ids handed out over the open/close history == Model.irun_counter
    for k, r in enumerate(cres):
        if r[1] is None or not r[3] or not isinstance(r[3][-1], dict):
            continue
        info = r[3][-1]
        cterms.append('snd (irun_counter [%s])' % '; '.join('IOpen' if e[0] == 'open' else 'IClose %d' % e[1] for e in info['ievs']))
        cexp.append(list(info['open_ids']))
        cidx.append(k)
    for bi, mv in compare_cases(cterms, cexp):
        if len(dis) < 8:
            dis.append({'what': 'shared dongle: tuning/packets on the air differ between model and implementation',
                        'case': {'cmds': cres[cidx[bi]][0]}, 'model': None if mv is None else mv[:60], 'impl': cexp[bi][:60]})
    dist['command_histories'] = len(cterms)
    dist['packets_on_air_in_command_histories'] = sum(len(r[1]) for r in cres if r[1] is not None)
    # ---- dongle answer parsing: every status byte through the real Crazyradio.send_packet (two ARC settings)
    from fakes import c01_radio
    pterms, pexp = [], []
    for arc in (3, 11):
        pterms.append('concat (map (fun s => ack_obs (parse_ack %d (Some [s; s mod 7; 9; 255 - s]))) (zr 0 256))' % arc)
        pexp.append(c01_radio.parse_all_status(arc, lambda s: [s % 7, 9, 255 - s]))
    pterms.append('concat (map (fun s => ack_obs (parse_ack 3 (Some [s]))) (zr 0 256))')
    pexp.append(c01_radio.parse_all_status(3, lambda s: []))
    # ---- link-quality window of RadioLinkStatistics (bookkeeping only; nothing in the loop reads it)
    lrng = __import__('random').Random(ctx.seed + 77)
    lqs = [[lrng.randrange(0, 16) for _ in range(lrng.choice([1, 5, 99, 100, 101, 180, 260]))] for _ in range(ctx.scale(12, 60))]
    for rs in lqs:
        pterms.append('let w := fold_left lq_push %s [] in [lq_sum w; Z.of_nat (length w)]' % _zl(rs))
        sm, ln, val = c01_radio.link_quality_run(rs)
        pexp.append([sm, ln])
        if val is None or abs(val - float(sm) / ln * 10) > 1e-9:
            dis.append({'what': 'link_quality is not sum/len*10 of the window', 'retries': rs[:20], 'impl': val, 'model': [sm, ln]})
    # ---- rate/congestion counters of RadioLinkStatistics (report step and its divisions) vs Model.stats_update
    srng = __import__('random').Random(ctx.seed + 91)
    n_stats_seq = 0
    for _ in range(ctx.scale(30, 300)):
        calls = [(srng.random() < 0.5, srng.choice([[], [], [0xf3], [0xf7, 1, 40], [0x50, 1], [0x2c]]), srng.choice(IDLE_DTS))
                 for _ in range(srng.randrange(1, 30))]
        flags, counters = c01_radio.stats_counters_run(calls)
        cl = '; '.join('(%s, %s, %s)' % (_b(o), _zl(d), _b(f)) for (o, d, _), f in zip(calls, flags))
        pterms.append('match stats_run stats_update [%s] stats0 with Some s => [st_up s; st_nup s; st_down s; st_ndown s] '
                      '| None => [-1] end' % cl)
        pexp.append(counters)
        n_stats_seq += 1
    dist['statistics_call_sequences'] = n_stats_seq
    zr = 'Fixpoint zr (a : Z) (n : nat) : list Z := match n with O => [] | S k => a :: zr (a + 1) k end.\n'
    pv = coqrun.eval_terms(DG_HEADER + zr, ['dg (%s)' % t for t in pterms], tag='c01p', shard=200)
    for k, (d, e) in enumerate(zip(pv, pexp)):
        d3 = (d[0][0], d[0][1], d[1]) if isinstance(d[0], tuple) else tuple(d)
        if d3 != _dg(e):
            dis.append({'what': 'dongle answer parsing / link-quality window: model and implementation differ',
                        'term': pterms[k][:200], 'impl': e[:40], 'model': None})
    dist['status_bytes_parsed'] = 3 * 256
    dist['link_quality_sequences'] = len(lqs)
    samples = []
    for c, sim, _ in res:
        if sim is not None and c.get('family') == 'random' and _nontrivial(c, sim):
            samples.append({'N': c['N'], 'negs': c['negs'], 'events': len(sim.executed),
                            'first_events': sim.executed[:8], 'frames': [t['frame'] for t in sim.tx[:4]]})
            if len(samples) >= 3:
                break
    return {
        'evaluations': len(terms) + len(pterms) + len(cterms) + len(pterms2),
        'distinct_nontrivial': nontriv,
        'rule': 'distinct explicit scripts with >= 1 unacknowledged transmission and >= 2 non-null packets delivered in '
                'each direction (host-only family: >= 1 unacknowledged/USB-error answer and >= 2 packets received); '
                'every observable compared: frame bytes and dongle answer of every transmission, error count and in_queue '
                'length after every event, acceptance of each submission, each received packet, final host/peer state; '
                'outputs compared by digest inside Coq, differing cases re-evaluated and diffed',
        'samples': samples,
        'distribution': dist,
        'exhaustive': False,
        'disagreements': dis,
    }


# ------------------------------------------------------------------ oracle: the property text on the real code

def _nn(f):
    return bool(f) and (f[0] & 0xf3) != 0xf3


def _preconditions(case):
    """the property's hypotheses, on the script itself"""
    if case.get('host_only'):
        return False
    if any(not _nn(q) for q in case['p0'].get('txq', [])):
        return False
    for e in case['evs']:
        if e[0] in ('S', 'Q', 'ST') and (e[1] & 0xf3) == 0xf3:
            return False
        if e[0] in ('W', 'E'):          # raw answers / exceptions of the dongle: outside the property
            return False
    return True


def judge(case, sim):
    """All clauses of C01 on one finished run of the real code.  Returns a list of failure dicts."""
    fails = []

    def fail(cls, expected, observed, detail):
        fails.append({'class': cls, 'case': {k: v for k, v in case.items() if k != 'family'},
                      'expected': expected, 'observed': observed, 'detail': detail})
    fin = sim.final
    if getattr(sim, 'hung', False):
        fail('radio_thread_blocked', 'session ends', 'threads still alive after the timeout', 'real-thread session did not finish')
        return fails
    # ---- safelink only if confirmed DURING THAT START-UP; needs_resending; per session of the driver object
    confirmed = True
    for k, ss in enumerate(sim.sessions):
        tag = '' if k == 0 else ' (session %d, after %s)' % (k + 1, case['more'][k - 1]['how'])
        answers = [r[2:] if r[0] != -1 else None for r in ss['neg_resps']]
        conf_at = next((i for i, a in enumerate(answers[:10]) if a == [0xff, 0x05, 0x01]), None)
        conf = conf_at is not None
        confirmed = confirmed and conf
        # the same, read off the dongle's raw answers (status byte != 0, payload ff 05 01): what the peer really confirmed
        raw_at = next((i for i, u in enumerate(ss['neg_usb'][:10]) if u and u[0] != 0 and u[1:] == [0xff, 0x05, 0x01]), None)
        if (raw_at is not None) != conf:
            fail('confirmation_misread', raw_at is not None, conf,
                 'the driver must see the echo ff 05 01 exactly when the dongle delivered it' + tag)
        if ss['safe'] != conf:
            fail('safelink_mode_without_confirmation' if ss['safe'] else 'safelink_not_used_after_confirmation',
                 conf, ss['safe'], 'safelink must be used iff an attempt of this start-up was answered by exactly ff 05 01' + tag)
        if ss['n_neg'] != (conf_at + 1 if conf else 10) or any(f != [0xff, 0x05, 0x01] for f in ss['neg_frames']):
            fail('negotiation_attempts_wrong', conf_at + 1 if conf else 10, ss['n_neg'],
                 'up to 10 attempts of ff 05 01, stopping at the confirmation' + tag)
        if ss['needs'] != (not conf):
            fail('needs_resending_wrong', not conf, ss['needs'], 'needs_resending must be "no safelink in this session"' + tag)
        if not conf and not case.get('host_only'):
            allowed = [[0xff]] + sim.accepted
            bad = [t['frame'] for t in sim.tx[ss['tx_from']:ss['tx_to']] if t['frame'] not in allowed]
            if bad:
                fail('frames_altered_without_safelink', 'packets as submitted', bad[:3],
                     'without a confirmed safelink the header bits are not to be touched' + tag)
    # ---- link error exactly at the N-th consecutive unacknowledged transmission.  An iteration in which the
    #      dongle returned None is not a transmission (neither counted nor resetting); sessions in which
    #      radio.send_packet raised are outside the property (only: every exception must be reported).
    n_exc = sum(1 for t in sim.tx if t.get('ack') == 'exc')
    if fin['exc_errors'] != n_exc:
        fail('usb_exception_not_reported_once', n_exc, fin['exc_errors'],
             'every exception of radio.send_packet is reported as a link error, once')
    if n_exc == 0:
        N = case['N']
        run, exp_idx = 0, []
        starts = set(ss['tx_from'] + 1 for ss in sim.sessions)
        for i, t in enumerate(sim.tx, 1):
            if i in starts:
                run = 0                      # a new thread starts with a full retry budget
            if t.get('ack') is None and t['o'] not in ('O', 'U', 'A'):
                continue
            # "its peer acknowledges": the scripted outcome of the transmission (raw-answer cases: what the dongle said)
            acked = (t['o'] == 'O') if t['o'] in ('O', 'U', 'A') else bool(t['ack'])
            if acked:
                run = 0
            else:
                run += 1
                if run == N:
                    exp_idx.append(i)
        got_idx = [i for i, m in sim.errors if m == 'Too many packets lost']
        if got_idx != exp_idx:
            fail('link_error_not_exact', exp_idx, got_idx,
                 'link error must be reported at (and only at) the N-th consecutive unacknowledged transmission, N=%d' % N)
    other = fin['other_errors']
    if other:
        fail('unexpected_link_error', [], other[:2], 'no other link error is expected')
    if fin['send_errors'] and not case.get('threaded'):
        # the sending thread may report only when its put timed out, i.e. on a full queue: never after an accepted put
        pass
    if not case.get('threaded') and fin['send_errors'] != sim.st_failed:
        # the sending thread reports exactly when its put timed out (send_packet returned False), never otherwise
        fail('send_timeout_report_wrong', sim.st_failed, fin['send_errors'],
             "'Could not send packet' must be reported once per send_packet call that timed out, and only then")
    if fin.get('closed'):
        cl = fin['closed']
        if not (cl['radio_closed'] == 1 and cl['radio_ref'] and cl['callbacks_cleared'] and cl['out_queue_empty']):
            fail('close_incomplete', 'dongle closed once, callbacks cleared, out_queue emptied', cl, 'RadioDriver.close()')
    # ---- a dongle shared with scans and a second link: nothing of link A goes to another Crazyflie, link B's frames
    #      reach B's Crazyflie (once, in order), scans find exactly who is listening
    if case.get('shared'):
        from fakes import c01_shared
        scan_pk = ([0xff], [0xff, 0xff, 0xff])
        for setting, pr in sim.air.items():
            if pr is sim.peer:
                continue
            stray = [f for f in pr.rx if f not in scan_pk and not (setting == c01_shared.SET_B and f in [b for b, _ in sim.b_sent])]
            if stray:
                fail('delivered_to_foreign_crazyflie', [], {'listening_on': list(setting), 'received': stray[:3]},
                     'packets of the link must reach ITS Crazyflie only')
        b_rx = [f for f in sim.air[c01_shared.SET_B].rx if f not in scan_pk]
        if b_rx != [b for b, _ in sim.b_sent] or not all(a for _, a in sim.b_sent):
            fail('second_link_not_delivered', [b for b, _ in sim.b_sent], b_rx, "link B's frames must reach B's Crazyflie, acknowledged")
        for e, found in sim.scans:
            if found != sim.expected_scan(e):
                fail('scan_result_wrong', sim.expected_scan(e), found, 'a scan finds exactly the Crazyflies listening on the scanned settings')
    # ---- exactly once, in order, both directions
    if confirmed and _preconditions(case) and not case.get('more'):
        drained = bool(case['evs']) and case['evs'][-1][0] == 'D'
        acc = [[f[0] & 0xf3] + f[1:] for f in sim.accepted]
        rx = [f for f in sim.peer.rx if _nn(f)]
        ok = rx == acc[:len(rx)] and len(acc) - len(rx) <= 2 and (not drained or len(rx) == len(acc))
        if not ok:
            fail('uplink_not_exactly_once_in_order', acc, rx,
                 'packets handed to the Crazyflie must be the accepted ones, once each, in order'
                 + (' (all of them after the drain)' if drained else ' (at most 2 still pending)'))
        qd = [[(f[0] & 0xf3) | 0x0c] + f[1:] for f in sim.queued]
        dl = [f for f in sim.got + fin['inq'] if _nn(f)]
        gt = [f for f in sim.got if _nn(f)]
        ok = dl == qd[:len(dl)] and (not drained or gt == qd)
        if not ok:
            fail('downlink_not_exactly_once_in_order', qd, dl,
                 'packets coming out of receive_packet must be the queued ones, once each, in order'
                 + (' (all of them after the drain)' if drained else ''))
    return fails


def _shrink(case, cls, budget=250):
    from fakes import c01_radio
    c01_radio._blocks['shrinking'] = True
    try:
        return _shrink_body(case, cls, budget)
    finally:
        c01_radio._blocks['shrinking'] = False


def _shrink_body(case, cls, budget=250):
    """shortest event prefix (+ drain if the case had one) that still fails with the same class"""
    evs = case['evs']
    drained = bool(evs) and evs[-1][0] == 'D'
    body = evs[:-1] if drained else evs
    best = case
    runs = 0

    t_end = __import__('time').time() + 45

    def still(c):
        nonlocal runs
        runs += 1
        if __import__('time').time() > t_end:
            return False
        try:
            return any(f['class'] == cls for f in judge(c, run_impl(c, 3 if cls == 'radio_thread_blocked' else None)))
        except Exception:
            return _crash_class(_err_text()) == cls
    for n in range(1, len(body)):
        if runs >= budget:
            break
        c = dict(case, evs=body[:n] + ([['D']] if drained else []))
        if still(c):
            best = c
            break
    body = best['evs'][:-1] if drained else best['evs']
    i = 0
    while i < len(body) and runs < budget:
        c = dict(best, evs=body[:i] + body[i + 1:] + ([['D']] if drained else []))
        if still(c):
            best, body = c, body[:i] + body[i + 1:]
        else:
            i += 1
    # later sessions of a multi-session history: drop events from each segment while the failure stays
    for si in range(len(best.get('more') or [])):
        i = 0
        while i < len(best['more'][si]['evs']) and runs < budget:
            segs = [dict(s) for s in best['more']]
            segs[si]['evs'] = segs[si]['evs'][:i] + segs[si]['evs'][i + 1:]
            c = dict(best, more=segs)
            if still(c):
                best = c
            else:
                i += 1
    return best


def _shrink_pair(f, budget=60):
    """drop events of either link's script / shorten the schedule while the same class still fails"""
    best = f
    runs = 0

    def attempt(c):
        nonlocal runs, best
        runs += 1
        try:
            got = [x for x in judge_pair(c, run_impl(c)) if x['class'] == f['class']]
        except Exception:
            return False
        if got:
            best = got[0]
            return True
        return False
    for n in 'AB':
        i = 0
        while runs < budget and i < len(best['case'][n]['evs']) - 1:
            c = dict(best['case'])
            c[n] = dict(c[n], evs=c[n]['evs'][:i] + c[n]['evs'][i + 1:])
            if not attempt(c):
                i += 1
    return best


def _cmds_fail(cmds, crash=False):
    try:
        _, _, _, sends = _run_cmds(cmds, 3)
    except Exception:
        return True
    return (not crash) and any(act is None or tuple(act) != tuple(req) for req, act, _ in sends)


def _shrink_cmds(cmds, budget=150, crash=False):
    import time
    from fakes import c01_radio
    best = list(cmds)
    i, runs, t_end = 1, 0, time.time() + 40
    c01_radio._blocks['shrinking'] = True
    try:
        while i < len(best) and runs < budget and time.time() < t_end:
            c = best[:i] + best[i + 1:]
            runs += 1
            if _cmds_fail(c, crash):
                best = c
            else:
                i += 1
    finally:
        c01_radio._blocks['shrinking'] = False
    return best


def oracle(ctx, deep=False):
    from fakes import c01_radio as c01_radio_mod
    res = list(results(ctx))
    if deep:
        extra = enum_cases(8, 6) + [random_case(ctx.rng, 200) for _ in range(1500)]
        for c in extra:
            try:
                res.append((c, run_impl(c), None))
            except Exception:
                res.append((c, None, _err_text()))
    # link statistics must not influence the link: same script with a statistics callback and a statistics clock
    # that makes every rate/congestion branch run => identical observations
    stat_fail = None
    n_stat = 0
    for i, (c, sim, err) in enumerate(res[:]):
        if sim is None or i % ctx.scale(6, 10) or c.get('threaded'):
            continue
        n_stat += 1
        try:
            s2 = run_impl(dict(c, stats=1))
            same = (s2.flat_host == sim.flat_host) if c.get('host_only') else (s2.flat == sim.flat)
            # (after pause()+restart() no statistics are reported at all: connect() never stores the callback that
            #  restart() passes on — a cflib quirk outside C01; so the 'was called' part is for single sessions)
            if not same or (not c.get('more') and any(t.get('ack') is True for t in s2.tx) and not s2.stats):
                stat_fail = (c, 'observations differ' if not same else 'statistics callback never called')
        except Exception:
            if _crash_class(_err_text()) == 'radio_loop_raised':
                stat_fail = (c, _err_text()[-600:])
        if stat_fail:
            break
    # real-thread sessions (non-deterministic schedules; oracle only)
    trng = __import__('random').Random(ctx.seed * 7919 + 13)
    for _ in range(ctx.scale(5, 80) * (3 if deep else 1)):
        c = threaded_case(trng, ctx.scale(1500, 2500), ctx.scale(150, 250))
        try:
            res.append((c, run_impl(c), None))
        except Exception:
            res.append((c, None, _err_text()))
    pair_fails = []
    n_pair = 0
    for c, pres, err in pair_results(ctx):
        n_pair += 1
        if pres is None:
            if _crash_class(err):
                pair_fails.append({'class': _crash_class(err), 'case': {k: v for k, v in c.items() if k != 'family'},
                                   'expected': 'both sessions end, no exception', 'observed': err, 'detail': 'two links on one dongle'})
        else:
            pair_fails += judge_pair(c, pres)
    cmd_fail = None
    cmd_crash = None
    n_cmd = 0
    for r in command_results(ctx):
        n_cmd += 1
        if r[1] is None:
            if _crash_class(r[4]) and cmd_crash is None:
                cmd_crash = (r[0], r[4])
            continue
        bad = [(req, act) for req, act, _ in r[4] if act is None or tuple(act) != tuple(req)]
        if bad and cmd_fail is None:
            cmd_fail = (r[0], bad[0])
    fails = []
    seen = set()
    n = n_stat + n_cmd + n_pair
    if cmd_crash:
        cls = _crash_class(cmd_crash[1])
        seen.add(cls)
        fails.append({'class': cls, 'case': {'cmds': _shrink_cmds(cmd_crash[0], crash=True)}, 'expected': 'every call returns',
                      'observed': cmd_crash[1], 'detail': 'instances opened, used and closed on one shared dongle'})
    if cmd_fail:
        small = _shrink_cmds(cmd_fail[0])
        seen.add('send_on_wrong_tuning')
        fails.append({'class': 'send_on_wrong_tuning', 'case': {'cmds': small},
                      'expected': 'every SEND_PACKET leaves with the dongle tuned to the sending instance\'s channel/datarate/address',
                      'observed': {'requested': list(cmd_fail[1][0]), 'tuned_to': None if cmd_fail[1][1] is None else list(cmd_fail[1][1])},
                      'detail': '_SharedRadio serves several instances and scans on one dongle'})
    if stat_fail:
        seen.add('statistics_affect_the_link')
        fails.append({'class': 'statistics_affect_the_link', 'case': {k: v for k, v in stat_fail[0].items() if k != 'family'},
                      'expected': 'same observations with and without a statistics callback', 'observed': stat_fail[1],
                      'detail': 'RadioLinkStatistics.update runs inside the radio loop'})
    for c, sim, err in res:
        n += 1
        if sim is None:
            if _crash_class(err) is None:
                continue
            fs = [{'class': _crash_class(err), 'case': {k: v for k, v in c.items() if k != 'family'},
                   'expected': 'the session ends, no exception', 'observed': err,
                   'detail': 'the radio loop raised / a library thread is stuck for ever on a scripted session'}]
        else:
            fs = judge(c, sim)
        for f in fs:
            if f['class'] in seen:
                continue
            seen.add(f['class'])
            small = f['case'] if f['case'].get('threaded') else _shrink(f['case'], f['class'])
            if small is not f['case']:
                try:
                    c01_radio_mod._blocks['shrinking'] = True
                    f2 = [x for x in judge(small, run_impl(small, 3 if f['class'] == 'radio_thread_blocked' else None)) if x['class'] == f['class']]
                    if f2:
                        f = f2[0]
                except Exception:
                    if f['class'] in ('radio_loop_raised', 'radio_thread_blocked'):     # the smaller script still kills / blocks the loop
                        f = dict(f, case={k: v for k, v in small.items() if k != 'family'}, observed=_err_text()[-700:])
                finally:
                    c01_radio_mod._blocks['shrinking'] = False
            fails.append(f)
    for f in pair_fails:                     # two-link histories last: a single-link input for the same class is simpler
        if f['class'] not in seen:
            seen.add(f['class'])
            fails.append(_shrink_pair(f))
    return {'evaluations': n, 'failures': fails,
            'rule': 'on every scripted session of the real loop: accepted == received-by-peer (+ <= 2 pending, none after the '
                    'drain), queued == received-by-application (+ pending), error callback exactly at the N-th consecutive '
                    'unacknowledged transmission, safelink/needs_resending iff ff 05 01 echoed within 10 attempts, frames '
                    'untouched without safelink'}


def replay(payload, ctx):
    c = payload['case']
    if c.get('pair'):
        try:
            fs = judge_pair(c, run_impl(c))
        except Exception:
            err = _err_text()
            return {'class': _crash_class(err) or 'radio_thread_blocked', 'observed': err[-500:]}
        want = payload.get('class')
        for f in fs:
            if want is None or f['class'] == want:
                return f
        return fs[0] if fs else None
    if 'cmds' in c:
        crash = payload.get('class') in ('radio_thread_blocked', 'radio_loop_raised')
        return {'class': payload.get('class', 'send_on_wrong_tuning'), 'observed': 'still fails'} if _cmds_fail(c['cmds'], crash) else None
    if payload.get('class') == 'statistics_affect_the_link':
        try:
            a, b = run_impl(c), run_impl(dict(c, stats=1))
            same = (a.flat_host == b.flat_host) if c.get('host_only') else (a.flat == b.flat)
            return None if same else {'class': 'statistics_affect_the_link', 'observed': 'observations differ'}
        except Exception as e:
            return {'class': 'statistics_affect_the_link', 'observed': repr(e)}
    try:
        sim = run_impl(c)
    except Exception:
        err = _err_text()
        return {'class': _crash_class(err) or 'radio_thread_blocked', 'observed': err[-500:]}
    fs = judge(c, sim)
    want = payload.get('class')
    for f in fs:
        if want is None or f['class'] == want:
            return f
    return fs[0] if fs else None
