"""C02 — connection lifecycle well-formed, never hangs.

Tie: DetSched runs of the real Crazyflie + SyncCrazyflie against a scripted device; each run's entries into the
library's transition functions (open, first packet, tables complete, parameters complete, link error, close) are
replayed on the Gallina lifecycle model (C02/Model.v) and the callbacks the application observed are compared
with the model's.  Oracle: the property text on the observed trace + DetSched's hang / dead-thread detectors."""
import json
import os

from core import coqrun

from props import c02_oracle, c02_run

ID = 'C02'
PROPERTY_FILE = 'C02/Property.v'
PROPERTY_FILES = ['C02/Property.v', 'C02/PropertyReentrant.v', 'C02/PropertySync.v']
LEVEL = 'other'
ALLOWED_AXIOMS = ()
TRUSTED_BASE = [
    'C02/Reentrant.v: the same transitions written statement by statement with application callbacks that may call '
    'close_link re-entrantly; hand-written, tied on the runs with in-callback closes',
    'C02/Model.v: hand-written lifecycle state machine of Crazyflie/SyncCrazyflie (open_link, first packet, setup '
    'stages, _link_error_cb fan-out, close_link) at the granularity "one library transition function runs atomically"',
    'DetSched (harness/detsched.py): real threads, one at a time, hand-over only at blocking operations, virtual time; '
    'byte-code-level preemption inside a callback is NOT explored',
    'scripted device harness/fakes/c02_device.py (platform v7, V2 TOCs, 0..4 memories incl. 1-wire deck memories with valid content)',
]
ASSUMPTIONS = ['a thread runs until its next blocking operation (lock, event, queue, join, sleep, thread start)',
               'bounded time is checked as: no thread blocked without deadline on an unsatisfied condition after the '
               'script and 5 s of virtual settling time; virtual-time horizon 200 s']
PROVED = ('over the lifecycle model, for every event list: per-attempt callback grammar, link-failure / close fan-out '
          'exactness, no setup callback after the first disconnected of an attempt, re-openable state after disconnect; '
          'SyncCrazyflie open/close always return or raise in the model; re-entrant model (C02/Reentrant.v): the same grammar '
          'for every policy of calling close_link from inside callbacks, at any nesting depth (code after fix F02j), and it is '
          'the atomic model when the application never re-enters')
NOT_PROVED = ('absence of deadlock for arbitrary thread interleavings is explored (DetSched sampling), not proved; '
              'interleavings where two library transition functions overlap (known finding F02c) are outside the atomic model')


def _cases(ctx, deep=False):
    rng = ctx.rng
    cases = []
    seeds = ctx.scale(2, 3) * (2 if deep else 1)
    sizes = [(3, 2)] if not ctx.thorough else [(3, 2), (0, 0), (1, 1), (5, 4)]
    # (the empty-table configuration is always covered by corpus/C02/F02g_empty_param_table.json)
    # corpus first
    cdir = os.path.join(coqrun.VERIF, 'corpus', 'C02')
    if os.path.isdir(cdir):
        for f in sorted(os.listdir(cdir)):
            if f.endswith('.json'):
                cases.append(json.load(open(os.path.join(cdir, f)))['case'])
    for (nl, npar) in sizes:
        total = 41 + 2 * (nl + npar) + 4
        base = {'n_log': nl, 'n_param': npar}
        for mode in ('driver', 'sender'):
            for k in range(1, total):
                for s in range(seeds):
                    for sync in (True, False):
                        cases.append({'cfg': dict(base, fault_at=k, fault_mode=mode), 'seed': rng.randrange(1 << 30),
                                      'script': [['sync_open'] if sync else ['open'], ['sleep', 1.0],
                                                 ['sync_close'] if sync else ['close'], ['reconnect']]})
        for k in range(1, total):
            for s in range(seeds):
                cases.append({'cfg': dict(base), 'seed': rng.randrange(1 << 30),
                              'script': [['open'], ['wait_packets', k], ['close'], ['reconnect']]})
                cases.append({'cfg': dict(base), 'seed': rng.randrange(1 << 30),
                              'script': [['bg_close', k], ['sync_open'], ['sleep', 0.5], ['sync_close'], ['reconnect']]})
    # devices with memories: the 1-wire (deck) memories are read inside the setup chain; fault at every point of
    # it, then the SAME object must connect again to a healthy device
    for mems in ([1], [0, 1], [1, 1]) if not ctx.thorough else ([1], [0, 1], [1, 1], [1, 0, 1, 1], [0]):
        total = 41 + 2 * 5 + 4 + 2 + 6 * len(mems)
        for mode in ('driver', 'sender'):
            for k in range(1, total):
                sync = (k + len(mems)) % 2 == 0
                cases.append({'cfg': {'mems': mems, 'fault_at': k, 'fault_mode': mode}, 'seed': rng.randrange(1 << 30),
                              'script': [['sync_open'] if sync else ['open'], ['sleep', 1.0],
                                         ['sync_close'] if sync else ['close'], ['reconnect']]})
        for k in range(1, total, 2):
            cases.append({'cfg': {'mems': mems}, 'seed': rng.randrange(1 << 30),
                          'script': [['open'], ['wait_packets', k], ['close'], ['reconnect']]})
    # the application closes (or re-opens) the link from INSIDE one of its lifecycle callbacks ("all times at which the
    # user closes the link"): the library function that delivered the callback goes on afterwards.  Not generated:
    # close inside connection_requested (no link exists yet; the library treats it as a close that precedes the
    # attempt) and open inside the disconnected callback of a failing link (connection_lost of the old attempt is
    # then necessarily delivered inside the new attempt)
    for sync in (True, False):
        o, c_ = (['sync_open'], ['sync_close']) if sync else (['open'], ['close'])
        for cbn in ('link_established', 'connected', 'fully_connected'):
            for mems in ((), (1,)):
                cases.append({'cfg': {'mems': list(mems)}, 'seed': rng.randrange(1 << 30), 'cb_actions': [[cbn, 'close']],
                              'script': [o, ['sleep', 1.0], c_, ['reconnect']]})
        for nth in (0, 1, 2):      # close from inside a parameter-value callback during the initial download
            cases.append({'cfg': {'n_param': 3}, 'seed': rng.randrange(1 << 30), 'cb_actions': [['param_update', 'close', nth]],
                          'script': [o, ['sleep', 1.0], c_, ['reconnect']]})
        cases.append({'cfg': {}, 'seed': rng.randrange(1 << 30), 'cb_actions': [['connection_requested', 'close']],
                      'script': [o, ['sleep', 1.0], c_, ['reconnect']]})      # known finding F02l
        for cbn in ('disconnected', 'connection_lost'):
            for k in (5, 30, 52):
                cases.append({'cfg': {'fault_at': k}, 'seed': rng.randrange(1 << 30), 'cb_actions': [[cbn, 'close']],
                              'script': [o, ['sleep', 1.0], c_, ['reconnect']]})
        cases.append({'cfg': {'fault_at': 30}, 'seed': rng.randrange(1 << 30), 'cb_actions': [['connection_lost', 'open']],
                      'script': [o, ['sleep', 2.0], c_, ['reconnect']]})
        cases.append({'cfg': {}, 'seed': rng.randrange(1 << 30), 'cb_actions': [['disconnected', 'open']],
                      'script': [o, ['sleep', 1.0], c_, ['sleep', 2.0], c_, ['reconnect']]})
        # (open_link from inside connection_failed while the outer open_link is still inside driver.connect() is a
        # re-entrant open_link: not generated)
        cases.append({'cfg': {'fault_at': 0, 'fault_mode': 'connect_sync'}, 'seed': rng.randrange(1 << 30),
                      'cb_actions': [['connection_failed', 'close']], 'script': [o, ['sleep', 2.0], c_, ['reconnect']]})
    # retry timers against user threads and a driver whose send_packet blocks: an unanswered request (timer every
    # 0.2 s) is issued again by the user while another sender holds the send lock across the timer's deadline
    for d1 in (0.05, 0.15, 0.19):
        for slow in (0.04, 0.1, 0.3):
            for gap in (0.12, 0.18, 0.21):
                for s_ in range(seeds):
                    cases.append({'cfg': {'needs_resending': True, 'slow_send': [3, slow]}, 'seed': rng.randrange(1 << 30),
                                  'script': [['sync_open'], ['sleep', 3.0], ['request', 7], ['bg_slow_send', d1],
                                             ['sleep', gap], ['request', 7], ['sleep', 1.0], ['sync_close'], ['reconnect']]})
    for i in range(ctx.scale(40, 400)):
        script = [['sync_open'], ['sleep', rng.choice([0.05, 3.0])]]
        for k in range(rng.randrange(2, 6)):
            x = rng.random()
            if x < 0.45:
                script.append(['request', rng.choice([7, 7, 8]), rng.choice([0.2, 0.1])])
            elif x < 0.8:
                script.append(['bg_slow_send', rng.choice([0.0, 0.05, 0.1, 0.15, 0.19, 0.3])])
            script.append(['sleep', rng.choice([0.02, 0.1, 0.12, 0.18, 0.2, 0.21, 0.4])])
        script += [rng.choice([['sync_close'], ['close']]), ['reconnect']]
        cfg = {'needs_resending': True, 'slow_send': [3, rng.choice([0.04, 0.1, 0.3, 1.0])]}
        if rng.random() < 0.3:
            cfg.update(fault_at=rng.randrange(50, 70), fault_mode=rng.choice(['driver', 'sender']))
        cases.append({'cfg': cfg, 'seed': rng.randrange(1 << 30), 'script': script})
    # two unanswered requests with different patterns (two retry timers) on a radio-like link whose send_packet reports
    # the link error from the SENDING thread after blocking 2 s (RadioDriver: out queue full): the retry that hits the
    # fault holds the send lock while the other timer fires and waits for that lock; the error handler then runs in
    # the first timer's thread with the second one blocked behind it (sender_fault_on: the n-th packet of the request port)
    for nth in (1, 2, 3, 4, 5, 6):
        for t2 in (0.2, 0.1):
            for gap in (0.05, 0.15):
                cases.append({'cfg': {'needs_resending': True, 'sender_fault_on': [14, nth]},
                              'seed': rng.randrange(1 << 30),
                              'script': [['sync_open'], ['sleep', 3.0], ['request', 7, 0.2], ['sleep', gap], ['request', 8, t2],
                                         ['sleep', 4.0], ['close'], ['sleep', 0.5], ['reconnect']]})
    # a driver-thread link error that is pending around the moment connected is delivered: many schedules, so that the
    # error handler runs between SyncCrazyflie's connected handler and the wake-up of the thread blocked in open_link
    for k in range(12, 24):
        for s_ in range(8):
            cases.append({'cfg': {'fault_at': k, 'fault_mode': 'driver'}, 'seed': rng.randrange(1 << 30),
                          'script': [['sync_open'], ['sleep', 0.5], ['sync_close'], ['reconnect']]})
    # a slow application callback: the user thread closes the link / the driver thread reports an error while the
    # dispatcher thread is still inside the connected (or link_established) callbacks
    for cbn in ('connected', 'link_established'):
        for k in range(16, 30) if cbn == 'connected' else range(1, 6):
            for s_ in range(2):
                cases.append({'cfg': {}, 'seed': rng.randrange(1 << 30), 'cb_actions': [[cbn, 'sleep', 0, 0.05]],
                              'script': [['bg_close', k], ['open'], ['sleep', 1.0], ['close'], ['reconnect']]})
                # ... and the closing thread is itself held up in a slow disconnected callback
                cases.append({'cfg': {}, 'seed': rng.randrange(1 << 30),
                              'cb_actions': [[cbn, 'sleep', 0, 0.05], ['disconnected', 'sleep', 0, 0.2]],
                              'script': [['bg_close', k], ['open'], ['sleep', 1.0], ['close'], ['reconnect']]})
                cases.append({'cfg': {'fault_at': k, 'fault_mode': 'driver'}, 'seed': rng.randrange(1 << 30),
                              'cb_actions': [[cbn, 'sleep', 0, 0.05]],
                              'script': [['open'], ['sleep', 1.0], ['close'], ['reconnect']]})
    # link error during connect(): reported synchronously, by the driver's thread before connect() returns, or by
    # the driver thread as soon as it is scheduled
    for s in range(seeds * 2):
        for mode in ('connect_sync', 'connect_thread', 'driver'):
            for sync in (True, False):
                cases.append({'cfg': {'fault_at': 0, 'fault_mode': mode}, 'seed': rng.randrange(1 << 30),
                              'script': [['sync_open'] if sync else ['open'], ['sleep', 0.5],
                                         ['sync_close'] if sync else ['close'], ['reconnect']]})
    # a second user thread writes to a memory while the link fails (lock order: send lock vs memory write lock)
    for k in (20, 30, 46):
        for mode in ('sender', 'driver'):
            for s in range(seeds):
                cases.append({'cfg': {'fault_at': k + 1 + s, 'fault_mode': mode}, 'seed': rng.randrange(1 << 30),
                              'script': [['bg_mem_write', k], ['sync_open'], ['sleep', 3.0], ['sync_close'], ['reconnect']]})
        cases.append({'cfg': {}, 'seed': rng.randrange(1 << 30),
                      'script': [['bg_mem_write', k], ['sync_open'], ['sleep', 1.0], ['sync_close'], ['reconnect']]})
    # byte-code-level preemption at the two check-then-use sites of Crazyflie.link (every source line of the
    # dispatcher loop / of send_packet is a yield point; the user closes the link while another thread stands at
    # the line that uses the link)
    for fn, text in (('run', 'receive_packet('), ('send_packet', 'send_packet(pk)'), ('send_packet', 'needs_resending')):
        for k in (0, 12, 30, 47):
            for nr in (False, True):
                cases.append({'cfg': {'needs_resending': nr}, 'seed': rng.randrange(1 << 30),
                              'line_yield': [['cflib/crazyflie/__init__.py', fn]],
                              'script': [['open'], ['wait_line', fn, text, k], ['close'], ['sleep', 0.5], ['reconnect']]})
    # the user closes the link / the driver reports an error while the dispatcher stands at a line of the answer check
    # (Crazyflie._check_for_answers on a radio-like link: a reply has just been matched against a pending pattern;
    # close_link / _link_error_cb drop all patterns): every source line of the check is a preemption point
    for text in ('longest_match = match', 'if len(longest_match) > 0', '_answer_patterns.pop(', 'timer.cancel()'):
        for k in (0, 3, 6, 12, 20, 33):
            cases.append({'cfg': {'needs_resending': True}, 'seed': rng.randrange(1 << 30),
                          'line_yield': [['cflib/crazyflie/__init__.py', '_check_for_answers']],
                          'script': [['open'], ['wait_line', '_check_for_answers', text, k], ['close'], ['sleep', 0.5],
                                     ['reconnect']]})
    # a setup request answered twice, the second answer arriving k packets later (re-sent request, slow first answer):
    # log reset (5,1,[5]), log TOC info (5,0,[3]), first log item (5,0,[2]), memory count (4,0,[1]), param TOC info (2,0,[3])
    # (only requests the library itself re-sends on timeout; the platform/version requests are sent once, a duplicate
    # of their answers needs link-level duplication, which safelink excludes: outside C02's quantifier — observed:
    # a duplicated protocol-version answer restarts the whole setup chain and signals connected twice)
    for d in ([5, 1, 5], [5, 0, 3], [5, 0, 2], [4, 0, 1], [2, 0, 3]):
        for k in (1, 2, 3, 4, 6):
            cases.append({'cfg': {'dup_after': d + [k]}, 'seed': rng.randrange(1 << 30),
                          'script': [['sync_open'], ['sleep', 1.0], ['sync_close'], ['reconnect']]})
    # slow answers: the device's answer to one kind of setup request arrives dt seconds late (virtual time).  Every
    # request the device receives is answered, so a request the LIBRARY re-sends meanwhile (radio-like link,
    # needs_resending) is answered twice, both late; a request the library sends once is answered once, late.
    for d in ([15, 1, None], [13, 1, 0], [5, 1, 5], [5, 0, 3], [5, 0, 2], [4, 0, 1], [2, 0, 3], [2, 0, 2], [2, 1, None]):
        for dt in (0.05, 0.3, 0.45, 1.1):
            for nr in (True, False):
                if not nr and dt != 0.3:
                    continue
                cases.append({'cfg': {'slow_reply': d + [dt], 'needs_resending': nr}, 'seed': rng.randrange(1 << 30),
                              'script': [['sync_open'], ['sleep', 1.0], ['sync_close'], ['reconnect']]})
                if dt == 0.3 and nr:
                    cases.append({'cfg': {'slow_reply': d + [dt], 'needs_resending': nr, 'mems': (1,)},
                                  'seed': rng.randrange(1 << 30),
                                  'script': [['open'], ['sleep', 4.0], ['close'], ['sleep', 0.5], ['reconnect']]})
    # firmware re-announcing a parameter value during the download (value-updated notifications)
    for s in range(seeds):
        for npar in (3, 4):
            cases.append({'cfg': {'n_log': 3, 'n_param': npar, 'dup_notify': True}, 'seed': rng.randrange(1 << 30),
                          'script': [['sync_open'], ['sleep', 1.0], ['sync_close'], ['reconnect']]})
    # no driver / driver raises / silent peer
    for s in range(seeds):
        cases.append({'cfg': {}, 'no_driver': True, 'seed': s, 'script': [['open'], ['close']]})
        cases.append({'cfg': {}, 'no_driver': True, 'seed': s, 'script': [['sync_open'], ['sync_close']]})
        cases.append({'cfg': {}, 'connect_raises': 'boom', 'seed': s, 'script': [['sync_open'], ['reconnect']]})
        cases.append({'cfg': {'hold_after': 5 + s}, 'seed': s, 'script': [['open'], ['sleep', 3.0], ['close'], ['reconnect']]})
    # histories: several rounds on one object, faults and closes mixed
    for i in range(ctx.scale(150, 1000) * (2 if deep else 1)):
        script = []
        for rnd in range(rng.randrange(1, 4)):
            if rng.random() < 0.5:
                script.append(['open'])
                if rng.random() < 0.7:
                    script.append(['wait_packets', rng.randrange(1, 50)])
                else:
                    script.append(['sleep', rng.choice([0.05, 0.3, 1.0])])
                script.append(['close'])
            else:
                if rng.random() < 0.4:
                    script.append(['bg_close', rng.randrange(1, 50)])
                script.append(['sync_open'])
                script.append(['sleep', rng.choice([0.05, 0.3, 1.0])])
                script.append(['sync_close'])
            if rng.random() < 0.2:
                script.append(['close'])
        script.append(['reconnect'])
        cfg = {}
        if rng.random() < 0.6:
            cfg = {'fault_at': rng.randrange(1, 60), 'fault_mode': rng.choice(['driver', 'sender'])}
        cases.append({'cfg': cfg, 'seed': rng.randrange(1 << 30), 'script': script})
    return cases


KNOWN_RACE = 'setup_callback_after_disconnected'


def _model_events(case, r):
    """Event list for the Gallina model (see C02/Model.v), ordered by the moment each transition takes effect:
    an open at its entry, a close_link / link-error handler at the first callback it delivers (a close_link that
    has to wait for the send lock takes effect after the transition that holds it), the setup events at the
    callback they enable.  A transition that was entered but delivered nothing is reported as '?'. """
    log = [e for e in r['log'] if e[0] in ('cb', 'ev')]
    own = {'err': ('disconnected', 'connection_failed', 'disconnected_link_error'), 'close': ('disconnected',)}
    evs = []
    pending = {}
    for e in log:
        if e[0] == 'ev':
            if e[1] in own:
                pending.setdefault(e[2], []).append(e[1])
            elif e[1].startswith('mem_write') or e[1].startswith('slow_send') or e[1].startswith('sync_open_ok'):
                pass                  # not a lifecycle event
            else:
                evs.append(e[1])
        else:
            name, th = e[1], e[2]
            if name in ('link_established', 'connected', 'fully_connected'):
                evs.append({'link_established': 'pkt', 'connected': 'tocs', 'fully_connected': 'params'}[name])
            q = pending.get(th) or []
            for k in range(len(q) - 1, -1, -1):      # innermost (most recently entered) transition first
                if name in own[q[k]]:
                    evs.append(q[k])
                    del q[k]
                    break
    for th, q in pending.items():
        evs += ['?'] * len(q)
    return evs


def _reentrant_events(case, r):
    """For runs in which the application closed the link from inside callbacks: (policy, events) for the re-entrant
    model (C02/Reentrant.v).  policy = global indices of the callbacks inside which close_link was called; the nested
    close_link calls are not events (they are the application's policy), everything else as in _model_events."""
    pol = []
    ncb = 0
    depth = {}
    flat = []
    for e in r['log']:
        if e[0] == 'rx':
            continue
        if e[0] == 'act':
            pol.append(ncb - 1)
            depth[e[2]] = depth.get(e[2], 0) + 1
            continue
        if e[0] == 'act_end':
            depth[e[2]] -= 1
            continue
        if e[0] == 'cb':
            ncb += 1
        if depth.get(e[2], 0) > 0:
            continue          # the nested close_link and the disconnected callbacks it delivers
        flat.append(e)
    return pol, _model_events(case, {'log': flat})


EV_COQ = {'open': 'EOpenBegin', 'open_end_ok': 'EOpenEnd true', 'open_end_fail': 'EOpenEnd false', 'pkt': 'EPacket', 'tocs': 'ETocs', 'params': 'EParams',
          'err': 'ELinkErr', 'close': 'EClose'}
CB_NUM = {'connection_requested': 0, 'connection_failed': 1, 'link_established': 2, 'connected': 3,
          'fully_connected': 4, 'disconnected': 5, 'connection_lost': 6, 'disconnected_link_error': 7}
HEADER = 'From CF Require Import C02.Model C02.Reentrant.\nOpen Scope Z_scope.\n'


def tie(ctx):
    cases = _cases(ctx)
    runs = [(c, c02_run.run_case(c)) for c in cases]
    ctx._c02_runs = runs
    dis = []
    terms, idx = [], []
    skipped = 0
    overl = 0
    outside = 0
    nreent = 0
    sigs = set()
    nontriv = 0
    for i, (c, r) in enumerate(runs):
        an = c02_oracle.check(c, r)
        sig = (json.dumps(c.get('cfg', {}), sort_keys=True), json.dumps(c['script']), tuple(e[1] for e in r['log'] if e[0] in ('cb', 'ev')))
        if sig not in sigs:
            sigs.add(sig)
            if any(e[1] in ('err', 'close') for e in r['log'] if e[0] == 'ev') and 'link_established' in sig[2]:
                nontriv += 1
        if an:
            skipped += 1          # runs on which the property itself fails are handled by the oracle
            continue
        reent = bool(c.get('cb_actions')) and all(a[1] == 'close' and a[0] != 'param_update' for a in c['cb_actions'])
        # (a sleeping callback is not a transition: such runs go the ordinary way)
        if c02_oracle.overlapping(r['log']) or (not reent and c02_oracle.reentrant_split(r['log'])):
            overl += 1            # two transition functions overlapped in time: outside the atomic model (the oracle
            continue              # still judged the run against the property text)
        if reent:
            pol, evs = _reentrant_events(c, r)
            if '?' not in evs:
                nreent += 1
                terms.append('rrun_trace true (pol_at [%s]) [%s]' % ('; '.join('%d%%nat' % k for k in pol),
                                                                    '; '.join(EV_COQ[e] for e in evs)))
                idx.append(i)
                continue
        evs = _model_events(c, r)
        if '?' in evs:
            dis.append({'what': 'a close_link / link-error handler was entered but delivered no callback', 'case': c,
                        'log': [e[1] for e in r['log'] if e[0] in ('cb', 'ev')]})
            continue
        ev_terms = [EV_COQ[e] for e in evs]
        terms.append('run_trace [%s]' % '; '.join(ev_terms))
        idx.append(i)
    if terms:
        mv = coqrun.eval_terms(HEADER, terms, tag='c02', shard=400)
        for i, m in zip(idx, mv):
            c, r = runs[i]
            obs = [CB_NUM[e[1]] for e in r['log'] if e[0] == 'cb']
            if list(m) == [-1] and c.get('cb_actions'):
                outside += 1      # an application callback entered a transition function inside open_link / inside
                continue          # another transition: event order outside the grammar the atomic model is defined on
            if list(m) != obs:
                dis.append({'what': 'lifecycle: model and implementation observe different callback sequences',
                            'case': c, 'model': list(m), 'impl': obs, 'log': [e[1] for e in r['log'] if e[0] in ('cb', 'ev')]})
    return {'evaluations': len(runs), 'distinct_nontrivial': nontriv,
            'rule': 'DetSched runs: link error after every k-th exchanged packet x {driver thread, sending thread} x '
                    '{Crazyflie, SyncCrazyflie} x schedule seeds; user close after every k-th packet; no driver / driver '
                    'raises / silent peer; random 1-3 round histories; every run ends with a reconnect.  Non-trivial: '
                    'distinct (config, script, observed event order) with a link error or close after link_established',
            'samples': [{'case': runs[0][0], 'log': [e[1] for e in runs[0][1]['log'] if e[0] in ('cb', 'ev')]}] if runs else [],
            'distribution': {'runs': len(runs), 'distinct_signatures': len(sigs), 'replayed_on_model': len(terms),
                             'left_to_oracle': skipped, 'overlapping_transitions_not_replayed': overl,
                             'reentrant_outside_model_grammar': outside,
                             'replayed_on_reentrant_model': nreent},
            'disagreements': dis}


def _classify(c, r, a):
    return a['class']


def oracle(ctx, deep=False):
    runs = getattr(ctx, '_c02_runs', None)
    if runs is None or deep:
        runs = [(c, c02_run.run_case(c)) for c in _cases(ctx, deep)]
    fails = []
    # lock-order analysis over all runs (lockdep style): a cycle is a potential deadlock even if no run dead-locked
    edges = {}
    for c, r in runs:
        for e in r.get('lock_edges', []):
            edges.setdefault(tuple(e), c)
    for cyc in c02_oracle.lock_cycles(list(edges)):
        involved = [[list(e), edges[e]] for e in edges if set(e) <= set(cyc)]
        known = set(cyc) <= {'cflib.crazyflie', 'cflib.crazyflie.mem'}
        fails.append({'class': 'send_lock_vs_mem_write_lock_inversion' if known else 'lock_order_cycle:' + '<->'.join(cyc),
                      'kind': 'schedule', 'case': {'lock_cycle': list(cyc), 'edges_and_witness_cases': involved[:4]},
                      'detail': 'nested lock acquisitions in opposite orders (or re-acquisition of a held non-reentrant lock)'})
    for c, r in runs:
        for a in c02_oracle.check(c, r):
            fails.append({'class': _classify(c, r, a), 'kind': 'schedule',
                          'case': dict(c, choices=r['choices']),
                          'observed': {'log': [e[1:3] for e in r['log'] if e[0] in ('cb', 'ev')], 'results': r['results'], 'stuck': r['stuck'],
                                       'dead': r['dead']},
                          'detail': json.dumps(a['detail'])[:600]})
    return {'evaluations': len(runs), 'failures': fails,
            'rule': 'per-attempt callback grammar, fan-out counts, nothing after disconnected, no hang / stuck / dead thread, '
                    'sync calls return or raise, reconnect succeeds'}


def replay(payload, ctx):
    c = payload['case']
    r = c02_run.run_case(c)
    an = c02_oracle.check(c, r)
    return {'anomalies': an, 'log': [e[1:3] for e in r['log'] if e[0] in ('cb', 'ev')]} if an else None
