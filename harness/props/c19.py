"""C19 — swarm actions run once per Crazyflie with the right arguments and error report.

Tie (V): the real cflib.crazyflie.swarm.Swarm is run with fake members (a factory producing instrumented
stand-ins for SyncCrazyflie) under a deterministic gate: `Thread` as seen by the swarm module, the Reporter's
flag and list, and the member actions block at instrumentation points until the scripted schedule says it is
their turn (exactly one thread runs between two points).  The same event list is run through coq/C19/Model.v
(vm_compute) and every observable (calls in order with arguments, result / chained error, reporter contents,
who had finished when the call returned) must agree.
Oracle: the property text on the observed runs, no model."""
import contextlib
import itertools
import threading

from core import coqrun

ID = 'C19'
PROPERTY_FILE = 'C19/Property.v'
LEVEL = 'proof'
ALLOWED_AXIOMS = ()
TRUSTED_BASE = [
    'C19/Model.v is hand-written from cflib/crazyflie/swarm.py (Swarm.__init__, sequential, parallel, parallel_safe, '
    '_thread_function_wrapper, _process_args_dict, Reporter, open_links, close_links); tied on every run by replaying '
    'generated schedules (event lists of the model) on the real Swarm with gated threads and comparing observables',
    'granularity of interleaving: a member thread is atomic between {call of the action, return of the action, '
    'assignment of Reporter.error_reported, append to Reporter._errors}; the main thread between {start of a thread, '
    'return of a join, read of the reporter flag}.  Python statements in between do not touch shared state.',
    'CPython: list.append and attribute assignment are atomic (GIL); Thread.join returns only after the target returned',
]
ASSUMPTIONS = [
    'member actions either return or raise an Exception (BaseException such as SystemExit/KeyboardInterrupt is not '
    'caught by _thread_function_wrapper and is outside the model)',
    'close_link() of a member does not raise; the factory returns one object per construct() call',
    'members are what SyncCrazyflie is to Swarm: objects with open_link()/close_link(); their internals are C02',
]
PROVED = ('for every swarm size, URI list (with repetitions), argument dictionary, failing subset and every accepted '
          'event list of the parallel_safe transition system: every action call carries the member\'s own instance and '
          'own arguments, no member is called twice, when parallel_safe returns or raises its report every member '
          'thread has finished and every member was called exactly once; it returns normally iff no action failed, '
          'otherwise raises with the error of the first failing member to report chained (never IndexError); parallel '
          'never raises; the system never deadlocks (some event is enabled until the result is there) and every run '
          'is bounded; sequential calls members one at a time in dictionary order up to the first failure; a failed '
          'open closes every member after all open attempts finished and raises; a second open is refused without '
          'touching a member; over any history of actions on one swarm with re-used / aliased argument dictionaries the '
          'caller\'s objects are unchanged and every member gets a fresh list = own connection + own entry; over any '
          'history of runs in one process the error chained by run k is one of run k\'s errors (fresh reporter per run); '
          'a shared error list is refuted; whatever cause links the raised error objects carry, the chained error is one of the '
          'raised objects (root-cause reporting refuted); the members an action runs for do not depend on the per-member link state.')
NOT_PROVED = ('what open_link/close_link do inside SyncCrazyflie (C02); byte-code level preemption inside one statement; '
              'the helper actions built on parallel_safe (get_estimated_positions, reset_estimators).')

HEADER = '''From CF Require Import Common.Bytes C19.Model.
Open Scope Z_scope.
Definition ol_of c evs := match run c init evs with Some s => match result s with Some r => Some (open_links c false r) | None => None end | None => None end.
Definition ol2_of c evs := match ol_of c evs with Some o1 => Some (open_links c (snd (fst o1)) Returned, open_links_runs_parallel (snd (fst o1))) | None => None end.
'''


# ------------------------------------------------------------------------------------------ deterministic gate
class Sched:
    """Threads call point(label) and block until label is the head of the script and no other thread is
    running; the thread that passed a point runs alone until its next point (or until it exits)."""

    def __init__(self, script, timeout=2.0):
        self.script = list(script)
        self.pos = 0
        self.cv = threading.Condition()
        self.token = None
        self.free = False
        self.stuck = []
        self.log = []
        self.timeout = timeout

    def _ready(self, label):
        return self.free or (self.token is None and self.pos < len(self.script) and self.script[self.pos] == label)

    def point(self, label):
        me = threading.get_ident()
        with self.cv:
            if self.token == me:
                self.token = None
                self.cv.notify_all()
            if not self.cv.wait_for(lambda: self._ready(label), self.timeout):
                self.stuck.append(label)
                self.free = True
                self.cv.notify_all()
                return
            if self.free:
                self.log.append(('free',) + tuple(label))
                return
            self.pos += 1
            self.log.append(label)
            self.token = me

    def release(self):
        me = threading.get_ident()
        with self.cv:
            if self.token == me:
                self.token = None
                self.cv.notify_all()

    def wait_script_done(self):
        with self.cv:
            if not self.cv.wait_for(lambda: self.free or (self.pos >= len(self.script) and self.token is None), self.timeout):
                self.stuck.append(('script-not-finished', self.pos))
                self.free = True
                self.cv.notify_all()


def _S(u):
    """The URI string the real Swarm is given for the harness' member key u: distinct for distinct keys, but many keys
    share the last path element (same address on another radio / channel), as legal swarms may."""
    if isinstance(u, str):
        return u
    return 'radio://%d/%d/2M/E7E7E7E7%02X' % ((u // 3) % 2, u, u % 3)


def _O(s):
    """Inverse of _S (strings that are not of that form stand for themselves)."""
    import re
    m = re.match(r'^radio://\d+/(\d+)/2M/E7E7E7E7[0-9A-F]{2}$', s) if isinstance(s, str) else None
    return int(m.group(1)) if m and _S(int(m.group(1))) == s else s


class _Err(Exception):
    def __init__(self, k):
        Exception.__init__(self, 'action failed on member %d' % k)
        self.k = k


class FakeSCF:
    """Stand-in for SyncCrazyflie: what Swarm uses of it is open_link() and close_link()."""

    def __init__(self, uri, inst, world):
        self.uri = uri
        self.inst = inst
        self.k = None
        self.w = world

    def open_link(self):
        self.w.action(self)

    def wait_for_params(self):
        pass                                   # the parameter download of this stand-in is complete at once

    def close_link(self):
        self.w.closes.append(self.inst)
        self.w.closes_when_done.append(self.w.n_done() == len(self.w.members))


class World:
    def __init__(self, uris, failing, script):
        self.uris = list(uris)
        self.failing_uris = set(failing)
        self.sched = Sched(script)
        self.constructed = []
        self.calls = []            # (inst, args) in call order
        self.call_members = []
        self.done = set()          # members whose action has returned or raised
        self.active = 0
        self.max_active = 0
        self.closes = []
        self.closes_when_done = []
        self.reporters = []
        self.threads = []
        self.members = []
        self.errs = {}
        self.lock = threading.Lock()

    def n_done(self):
        return len(self.done)

    def construct(self, uri):
        m = FakeSCF(uri, len(self.constructed), self)
        self.constructed.append(m)
        return m

    def bind(self, swarm):
        self.members = [scf for _, scf in swarm._cfs.items()]
        for k, m in enumerate(self.members):
            m.k = k
            self.errs[k] = _Err(k)

    def action(self, scf, *a):
        k = scf.k
        self.sched.point(('TBegin', k))
        with self.lock:
            self.calls.append((scf.inst, list(a)))
            self.call_members.append(k)
            self.active += 1
            self.max_active = max(self.max_active, self.active)
        try:
            if scf.uri in self.failing_uris:
                raise self.errs[k]
            self.sched.point(('TEnd', k))
        finally:
            with self.lock:
                self.active -= 1
                self.done.add(k)


@contextlib.contextmanager
def gated(world):
    import cflib.crazyflie.swarm as sw
    sched = world.sched
    main_id = threading.get_ident()

    class GThread(threading.Thread):
        def __init__(self, *a, **k):
            threading.Thread.__init__(self, *a, **k)
            self.daemon = True
            world.threads.append(self)

        def start(self):
            sched.point(('MSpawn',))
            threading.Thread.start(self)

        def run(self):
            try:
                threading.Thread.run(self)
            finally:
                sched.release()

        def join(self, timeout=None):
            sched.point(('MJoin',))
            threading.Thread.join(self, sched.timeout)

    class GList(list):
        def append(self, e):
            sched.point(('TAppend', getattr(e, 'k', -1)))
            list.append(self, e)

    class GReporter(sw.Swarm.Reporter):
        def __init__(self):
            self._flag = False
            sw.Swarm.Reporter.__init__(self)
            self._errors = GList()
            world.reporters.append(self)

        @property
        def error_reported(self):
            if threading.get_ident() == main_id:
                sched.point(('MCheck',))
            return self._flag

        @error_reported.setter
        def error_reported(self, v):
            if v:
                # the member whose wrapper is reporting: the one this thread runs
                t = threading.current_thread()
                k = t._args[2].k if getattr(t, '_args', None) and len(t._args) > 2 else -1
                sched.point(('TFlag', k))
            self._flag = v

    old = sw.Thread
    sw.Thread = GThread
    world.GReporter = GReporter
    try:
        yield
    finally:
        sw.Thread = old


def make_swarm(world):
    import cflib.crazyflie.swarm as sw

    class F:
        def construct(self, uri):
            return world.construct(_O(uri))
    s = sw.Swarm([_S(u) for u in world.uris], factory=F())
    s.Reporter = world.GReporter
    world.bind(s)
    return s


def _member_of_error(world, e):
    for k, x in world.errs.items():
        if x is e:
            return k
    return None


def _outcome(world, fn):
    """Run fn() in the (gated) main thread; map what it does to the model's outcome type."""
    try:
        fn()
        return ['Returned']
    except KeyError as e:
        uri = _O(e.args[0]) if e.args else None
        ks = [m.k for m in world.members if m.uri == uri]
        return ['Raised', ['EKey', ks[0] if ks else -1]]
    except _Err as e:
        return ['Raised', ['EAction', e.k]]
    except IndexError:
        return ['Raised', 'EIndex']
    except Exception as e:  # noqa
        if str(e) == 'Already opened':
            return ['Raised', 'EAlreadyOpen']
        if str(e).startswith('One or more threads raised an exception'):
            k = _member_of_error(world, e.__cause__)
            return ['Raised', ['EChained', -1 if k is None else k]]
        return ['Raised', 'unexpected:' + repr(e)]


def run_impl(case):
    """case: dict(op, uris, argdict (None or {uri: [ints]}), failing (uris), script (list of event tuples),
    is_open).  Returns the observables of one run of the real Swarm."""
    script = [tuple(e) for e in case['script']]
    w = World(case['uris'], case['failing'], script)
    ad = case.get('argdict')
    ad = None if ad is None else {_S(int(k)): list(v) for k, v in ad.items()}
    res = {}
    with gated(w):
        s = make_swarm(w)
        op = case['op']
        w.sched.token = threading.get_ident()
        if op == 'sequential':
            # no threads: the actions run in the calling thread, the gate is not consulted
            w.sched.free = True
            res['outcome'] = _outcome(w, lambda: s.sequential(w.action, ad))
        elif op in ('parallel_safe', 'parallel'):
            f = s.parallel_safe if op == 'parallel_safe' else s.parallel
            res['outcome'] = _outcome(w, lambda: f(w.action, ad))
        elif op == 'open_links':
            s._is_open = bool(case.get('is_open', False))
            res['outcome'] = _outcome(w, s.open_links)
            res['is_open'] = s._is_open
        elif op == 'open_twice':
            w.sched.free = False
            o1 = _outcome(w, s.open_links)
            calls1 = len(w.calls)
            w.sched.free = True
            o2 = _outcome(w, s.open_links)
            res['outcome'] = o1
            res['second'] = o2
            res['second_calls'] = len(w.calls) - calls1
            res['is_open'] = s._is_open
        elif op == 'par_then_par':
            res['outcome'] = _outcome(w, lambda: s.parallel_safe(w.action, ad))
            w.sched.release()
            w.sched.wait_script_done()
            for t in w.threads:
                if t.ident is not None:
                    threading.Thread.join(t, 2.0)
            first_calls = len(w.calls)
            w.failing_uris = set()
            w.sched.free = True
            res['second'] = _outcome(w, lambda: s.parallel_safe(w.action, ad))
            res['second_insts'] = sorted(i for i, _ in w.calls[first_calls:])
            del w.calls[first_calls:]
            del w.call_members[first_calls:]
        elif op == 'close_links':
            s._is_open = True
            res['outcome'] = _outcome(w, s.close_links)
            res['is_open'] = s._is_open
        res['done_at_return'] = sorted(w.done)
        res['all_done_at_return'] = len(w.done) == len(w.members)
        if op in ('parallel_safe', 'parallel') and sum(1 for e in script if e == ('MSpawn',)) > len(w.threads):
            w.sched.point(('MSpawn',))          # the KeyError was raised while preparing this spawn
        w.sched.release()
        w.sched.wait_script_done()
        for t in w.threads:
            if t.ident is not None:
                threading.Thread.join(t, 2.0)
    res['done_final'] = sorted(w.done)
    res['calls'] = [[i, a] for i, a in w.calls]
    res['call_members'] = list(w.call_members)
    res['n'] = len(w.members)
    res['insts'] = [m.inst for m in w.members]
    res['member_uris'] = [m.uri for m in w.members]
    res['constructed'] = len(w.constructed)
    res['errors'] = [[getattr(e, 'k', -1) for e in r._errors] for r in w.reporters]
    res['flag'] = [bool(r._flag) for r in w.reporters]
    res['closes'] = list(w.closes)
    res['closes_when_done'] = list(w.closes_when_done)
    res['max_active'] = w.max_active
    res['stuck'] = [list(x) for x in w.sched.stuck]
    res['followed_script'] = (w.sched.log == script) if op not in ('sequential',) else True
    res['alive'] = sum(1 for t in w.threads if t.is_alive())
    return res


# ------------------------------------------------------------------------------------------ schedules
class PyModel:
    """Enabledness of the model's events, re-implemented only to *generate* accepted schedules (the Coq model is
    the judge: it must accept every generated schedule)."""

    def __init__(self, n, has_args, fails):
        self.n, self.has_args, self.fails = n, has_args, fails
        self.spawned = self.joined = 0
        self.ts = ['N'] * n
        self.result = None

    def enabled(self):
        ev = []
        if self.result is None and self.spawned < self.n:
            ev.append(('MSpawn',))
        if self.result is None and self.spawned == self.n and self.joined < self.n and self.ts[self.joined] == 'D':
            ev.append(('MJoin',))
        if self.result is None and self.spawned == self.n and self.joined == self.n:
            ev.append(('MCheck',))
        for k in range(self.n):
            t = self.ts[k]
            if t == 'R' and self.has_args[k]:
                ev.append(('TBegin', k))
            elif t == 'U':
                ev.append(('TFlag', k) if self.fails[k] else ('TEnd', k))
            elif t == 'F':
                ev.append(('TAppend', k))
        return ev

    def step(self, e):
        if e[0] == 'MSpawn':
            if self.has_args[self.spawned]:
                self.ts[self.spawned] = 'R'
                self.spawned += 1
            else:
                self.result = 'key'
        elif e[0] == 'MJoin':
            self.joined += 1
        elif e[0] == 'MCheck':
            self.result = 'check'
        elif e[0] == 'TBegin':
            self.ts[e[1]] = 'U'
        elif e[0] == 'TEnd':
            self.ts[e[1]] = 'D'
        elif e[0] == 'TFlag':
            self.ts[e[1]] = 'F'
        elif e[0] == 'TAppend':
            self.ts[e[1]] = 'D'

    def copy(self):
        m = PyModel(self.n, self.has_args, self.fails)
        m.spawned, m.joined, m.ts, m.result = self.spawned, self.joined, list(self.ts), self.result
        return m


def random_schedule(rng, n, has_args, fails):
    m = PyModel(n, has_args, fails)
    style = rng.choice(['uniform', 'main_first', 'threads_first', 'lifo'])
    out = []
    while True:
        en = m.enabled()
        if not en:
            return out
        if style == 'main_first':
            pref = [e for e in en if e[0][0] == 'M']
        elif style == 'threads_first':
            pref = [e for e in en if e[0][0] == 'T']
        elif style == 'lifo':
            pref = [e for e in en if e[0][0] == 'T' and e[1] == max(x[1] for x in en if x[0][0] == 'T')] if \
                any(e[0][0] == 'T' for e in en) else []
        else:
            pref = []
        e = rng.choice(pref) if pref and rng.random() < 0.8 else rng.choice(en)
        m.step(e)
        out.append(e)


def all_schedules(n, has_args, fails, limit):
    """All maximal accepted event lists (DFS), at most `limit`."""
    out = []

    def go(m, acc):
        if len(out) >= limit:
            return
        en = m.enabled()
        if not en:
            out.append(list(acc))
            return
        for e in en:
            m2 = m.copy()
            m2.step(e)
            acc.append(e)
            go(m2, acc)
            acc.pop()
    go(PyModel(n, has_args, fails), [])
    return out


def members_of(uris):
    seen = []
    for u in uris:
        if u not in seen:
            seen.append(u)
    return seen


def gen_case(rng, op, n=None, failing_idx=None, exhaustive_sched=None, total=False, no_repeat=False):
    n = rng.randrange(0, 7) if n is None else n
    total = total or op == 'par_then_par'
    base = rng.sample(range(1, 40), n)
    uris = list(base)
    if n and not no_repeat and rng.random() < 0.25:                      # repeated URIs: same key, later instance wins
        for _ in range(rng.randrange(1, 3)):
            uris.insert(rng.randrange(len(uris) + 1), rng.choice(base))
    mem = members_of(uris)
    k = rng.random()
    if k < 0.3 or op in ('open_links', 'open_twice', 'close_links'):
        ad = None
    elif k < 0.4:
        ad = {}
    else:
        ad = {u: [rng.randrange(-5, 100) for _ in range(rng.randrange(0, 3))] for u in mem}
        if mem and not total and rng.random() < 0.2:
            del ad[rng.choice(mem)]                    # KeyError in the calling thread
        if rng.random() < 0.2:
            ad[99] = [1]                               # entry for a URI that is not in the swarm
    if op == 'open_twice':
        failing_idx = []
    if failing_idx is None:
        p_fail = rng.choice([0.0, 0.2, 0.5, 1.0])
        failing_idx = [i for i in range(len(mem)) if rng.random() < p_fail]
    failing = [mem[i] for i in failing_idx]
    has_args = [ad is None or not ad or (u in ad) for u in mem]
    fails = [u in failing for u in mem]
    case = {'op': op, 'uris': uris, 'argdict': ad, 'failing': failing}
    if op == 'sequential' or op == 'close_links':
        case['script'] = []
    elif exhaustive_sched is not None:
        case['script'] = exhaustive_sched
    else:
        case['script'] = [list(e) for e in random_schedule(rng, len(mem), has_args, fails)]
    if op == 'open_links':
        case['is_open'] = rng.random() < 0.15
        if case['is_open']:
            case['script'] = []
    return case


# ------------------------------------------------------------------------------------------ model side
def _ev(e):
    return e[0] if len(e) == 1 else '(%s %d)' % (e[0], e[1])


def _cfg_term(case):
    ad = case.get('argdict')
    if ad is None:
        adt = 'None'
    else:
        adt = '(Some [' + '; '.join('(%s, %s)' % (coqrun.z(int(u)), coqrun.zlist(a)) for u, a in ad.items()) + '])'
    return '(mk_cfg %s %s %s)' % (coqrun.zlist(case['uris']), adt, coqrun.zlist(case['failing']))


def model_term(case):
    c = _cfg_term(case)
    op = case['op']
    evs = '[' + '; '.join(_ev(e) for e in case['script']) + ']'
    # prefix up to and including the last event of the main thread
    last = max([i for i, e in enumerate(case['script']) if e[0][0] == 'M'], default=-1)
    pre = '[' + '; '.join(_ev(e) for e in case['script'][:last + 1]) + ']'
    common = 'n %s, map (inst %s) (seq 0 (n %s))' % (c, c, c)
    if op == 'sequential':
        return '(%s, fst (sequential %s), snd (sequential %s))' % (common, c, c)
    if op == 'close_links':
        return '(%s, fst (close_links %s), snd (close_links %s))' % (common, c, c)
    run = 'obs %s (run %s init %s), option_map (all_done %s) (run %s init %s)' % (c, c, evs, c, c, pre)
    if op in ('parallel_safe', 'parallel'):
        return '(%s, %s)' % (common, run)
    if op == 'open_links':
        if case.get('is_open'):
            return '(%s, open_links %s true Returned)' % (common, c)
        return '(%s, %s, ol_of %s %s)' % (common, run, c, evs)
    if op == 'open_twice':
        return '(%s, %s, ol_of %s %s, ol2_of %s %s)' % (common, run, c, evs, c, evs)
    raise ValueError(op)


def _norm(v):
    if isinstance(v, tuple):
        if v and v[0] == 'Some':
            return _norm(v[1])
        return [_norm(x) for x in v]
    if isinstance(v, list):
        return [_norm(x) for x in v]
    return v


def _norm_outcome(o):
    o = _norm(o)
    if o == 'Returned':
        return ['Returned']
    return o


def compare(case, impl, mv):
    """Returns None or a description of the first difference."""
    m = _norm(mv)
    op = case['op']
    if [impl['n'], impl['insts']] != [m[0], m[1]]:
        return ('member dictionary differs', [m[0], m[1]], [impl['n'], impl['insts']])
    if impl['stuck'] or impl['alive']:
        return ('implementation did not follow the schedule (blocked)', case['script'], [impl['stuck'], impl['alive']])
    if op == 'sequential':
        calls, out = m[2], m[3]
        if [calls, _norm_outcome(out)] != [impl['calls'], impl['outcome']]:
            return ('sequential differs', [calls, _norm_outcome(out)], [impl['calls'], impl['outcome']])
        return None
    if op == 'close_links':
        is_open, closes = m[2], m[3]
        if [is_open, closes] != [impl['is_open'], impl['closes']] or impl['outcome'] != ['Returned']:
            return ('close_links differs', [is_open, closes], [impl['is_open'], impl['closes'], impl['outcome']])
        return None
    if op == 'open_links' and case.get('is_open'):
        out, is_open, closes = m[2]
        got = [impl['outcome'], impl['is_open'], impl['closes'], impl['calls']]
        if [_norm_outcome(out), is_open, closes, []] != got:
            return ('open_links on an open swarm differs', [_norm_outcome(out), is_open, closes, []], got)
        return None
    ob, done_pre = m[2], m[3]
    if ob is None:
        return ('the model does not accept the schedule', None, case['script'])
    if not impl['followed_script']:
        return ('implementation did not follow the schedule', case['script'], impl.get('stuck'))
    calls, result, all_done, errors, flag = ob
    i_err = impl['errors'][0] if impl['errors'] else []
    i_flag = impl['flag'][0] if impl['flag'] else False
    mo = None if result is None else _norm_outcome(result)
    io = impl['outcome']
    if op == 'parallel':
        mo = ['Returned']
    elif op in ('open_links', 'open_twice'):
        pass
    if mo and io and mo[0] == 'Raised' and io[0] == 'Raised' and isinstance(mo[1], list) and isinstance(io[1], list) \
            and mo[1][0] == 'EChained' and io[1][0] == 'EChained' and io[1][1] in errors:
        io = mo            # canonical: the report is chained from ONE of the errors in the reporter (the code takes the first)
    want = [calls, mo, all_done, errors, flag, done_pre]
    got = [impl['calls'], io, impl['alive'] == 0 and len(impl['done_final']) == impl['n'], i_err, i_flag,
           impl['all_done_at_return']]
    if want != got:
        return ('%s differs' % op, want, got)
    if op in ('open_links', 'open_twice'):
        ol = m[4]
        if ol is None:
            return ('model: open_links has no parallel result', None, None)
        out, is_open, closes = ol
        if op == 'open_links':
            if [_norm_outcome(out), is_open, closes] != [io, impl['is_open'], impl['closes']]:
                return ('open_links differs', [_norm_outcome(out), is_open, closes],
                        [io, impl['is_open'], impl['closes']])
        else:
            out2, is_open2, closes2, runs_par = m[5]
            want2 = [_norm_outcome(out), _norm_outcome(out2), 0 if not runs_par else None, is_open2, closes + closes2]
            got2 = [impl['outcome'], impl['second'], impl['second_calls'], impl['is_open'], impl['closes']]
            if want2 != got2:
                return ('second open_links differs', want2, got2)
    return None



# ------------------------------------------------------------------------------------------ histories (reused / aliased argument dictionaries)
def gen_history(rng, n=None):
    """Several swarm-wide actions on ONE swarm with argument dictionaries that are reused between calls and whose
    entries may be one shared list object, lists or tuples."""
    n = rng.randrange(1, 6) if n is None else n
    uris = rng.sample(range(1, 40), n)
    if rng.random() < 0.2:
        uris.insert(rng.randrange(len(uris) + 1), rng.choice(uris))
    mem = members_of(uris)
    nobj = rng.randrange(1, n + 2)
    objs = [{'kind': rng.choice(['list', 'list', 'tuple']), 'vals': [rng.randrange(-5, 100) for _ in range(rng.randrange(0, 4))]}
            for _ in range(nobj)]
    dicts = []
    for _ in range(rng.randrange(1, 3)):
        k = rng.random()
        if k < 0.1:
            dicts.append({})
        else:
            share = rng.random() < 0.4                    # two or more URIs -> the same object
            d = {}
            for u in mem:
                d[u] = rng.randrange(nobj) if not share else rng.choice([0, 0, rng.randrange(nobj)])
            if rng.random() < 0.2:
                d[99] = rng.randrange(nobj)               # entry for a URI outside the swarm
            dicts.append(d)
    steps = []
    for _ in range(rng.randrange(2, 5)):
        steps.append({'call': rng.choice(['sequential', 'parallel', 'parallel_safe']),
                      'dict': None if rng.random() < 0.1 else rng.randrange(len(dicts))})
    if len([s for s in steps if s['dict'] is not None]) < 2:
        steps.append({'call': 'parallel_safe', 'dict': 0})
        steps.append({'call': 'sequential', 'dict': 0})
    return {'op': 'history', 'uris': uris, 'objs': objs, 'dicts': dicts, 'steps': steps}


def _snapshot(objs, dicts):
    ids = {id(o): i for i, o in enumerate(objs)}
    return [[type(o).__name__, [x if type(x) is int else ['scf', getattr(x, 'inst', '?')] for x in o]] for o in objs], \
           [None if d is None else sorted((u, ids.get(id(v), 'foreign:' + repr(v)[:40])) for u, v in d.items()) for d in dicts]


def run_history(case):
    import cflib.crazyflie.swarm as sw

    class M:
        def __init__(self, uri, inst):
            self.uri, self.inst = uri, inst

        def open_link(self):
            pass

        def close_link(self):
            pass

        def wait_for_params(self):
            pass

    class F:
        def __init__(self):
            self.k = 0

        def construct(self, uri):
            self.k += 1
            return M(_O(uri), self.k - 1)

    s = sw.Swarm([_S(u) for u in case['uris']], factory=F())
    members = list(s._cfs.values())
    pos = {id(m): k for k, m in enumerate(members)}
    objs = [list(o['vals']) if o['kind'] == 'list' else tuple(o['vals']) for o in case['objs']]
    dicts = [{_S(int(u)): objs[i] for u, i in d.items()} for d in case['dicts']]
    before = _snapshot(objs, dicts)
    lock = threading.Lock()
    res = {'members': [[m.uri, m.inst] for m in members], 'before': before, 'steps': []}
    for st in case['steps']:
        got = []

        def action(*a):
            with lock:
                got.append(a)
        ad = None if st['dict'] is None else dicts[st['dict']]
        live0 = set(threading.enumerate())
        try:
            getattr(s, st['call'])(action, ad)
            out = 'Returned'
        except Exception as e:  # noqa
            out = 'Raised:' + type(e).__name__ + (':' + type(e.__cause__).__name__ if e.__cause__ is not None else '')
        for t in set(threading.enumerate()) - live0:
            t.join(3.0)
        # canonical: argument tuples ordered by the member that is their first argument (when it is one)
        canon = []
        for a in got:
            k = pos.get(id(a[0]), 99) if a else 99
            canon.append([k, [[1, x.inst] if isinstance(x, M) else ([0, x] if type(x) is int else ['?', repr(x)[:30]]) for x in a]])
        canon.sort(key=lambda t: (t[0], repr(t[1])))
        res['steps'].append({'outcome': out, 'args': [c[1] for c in canon], 'after': _snapshot(objs, dicts)})
    return res


def history_term(case):
    heap = '[' + '; '.join('[' + '; '.join('VInt %s' % coqrun.z(v) for v in o['vals']) + ']' for o in case['objs']) + ']'
    ds = []
    for d in case['dicts']:
        ds.append('(Some [' + '; '.join('(%s, %d%%nat)' % (coqrun.z(int(u)), i) for u, i in d.items()) + '])')
    calls = '[' + '; '.join('None' if st['dict'] is None else ds[st['dict']] for st in case['steps']) + ']'
    return '(cfs %s, history_obs %s (cfs %s) %s)' % (coqrun.zlist(case['uris']), heap, coqrun.zlist(case['uris']), calls)


def compare_history(case, impl, mv):
    m = _norm(mv)
    mem, ob = m[0], m[1]
    if [list(x) for x in mem] != impl['members']:
        return ('member dictionary differs', mem, impl['members'])
    if ob is None:
        return ('model: history raises KeyError', None, None)
    args, heap_after = ob[0], ob[1]
    i_args = [st['args'] for st in impl['steps']]
    if args != i_args:
        return ('history: arguments received by the members differ', args, i_args)
    for st in impl['steps']:
        got = [[[0, x] if type(x) is int else [1, x[1]] for x in vals] for _, vals in st['after'][0]]
        if got != heap_after or st['after'][1] != impl['before'][1] or [t for t, _ in st['after'][0]] != [t for t, _ in impl['before'][0]]:
            return ('history: the caller\'s argument dictionary / lists after a call differ', heap_after, st['after'])
        if st['outcome'] != 'Returned':
            return ('history: a call raised', 'Returned', st['outcome'])
    return None


def check_history(case, impl=None):
    """Property text: each member gets its own connection followed by its own entry, every time; the caller's
    dictionary and lists are untouched."""
    impl = impl or run_history(case)
    mem = members_of(case['uris'])
    last_inst = {}
    for i, u in enumerate(case['uris']):
        last_inst[u] = i
    for k, st in enumerate(case['steps']):
        r = impl['steps'][k]
        d = None if st['dict'] is None else case['dicts'][st['dict']]
        want = []
        for u in mem:
            entry = [] if not d else list(case['objs'][d[u] if u in d else d[str(u)]]['vals'])
            want.append([[1, last_inst[u]]] + [[0, v] for v in entry])
        if r['args'] != want or r['outcome'] != 'Returned':
            return {'class': 'action_called_with_foreign_arguments', 'case': case, 'expected': {'step': k, 'args': want, 'outcome': 'Returned'},
                    'observed': {'step': k, 'args': r['args'], 'outcome': r['outcome']},
                    'detail': 'call %d (%s) with a reused/aliased argument dictionary: every member must get its own connection '
                              'followed by its own entry' % (k, st['call'])}
        if r['after'] != impl['before']:
            return {'class': 'args_dict_mutated', 'case': case, 'expected': {'step': k, 'dictionary': impl['before']},
                    'observed': {'step': k, 'dictionary': r['after']},
                    'detail': 'the caller\'s argument dictionary (and the lists/tuples in it) must be the same after the call'}
    return None



# ------------------------------------------------------------------------------------------ several runs in one process
KIND = {'parallel_safe': 'KSafe', 'open_links': 'KSafe', 'parallel': 'KPar', 'sequential': 'KSeq'}


def gen_process(rng):
    """Several runs (same and different Swarm objects) in one process; in each run other members fail and every
    failure is a NEW exception object."""
    swarms = []
    for _ in range(rng.randrange(1, 4)):
        swarms.append(rng.sample(range(1, 12), rng.randrange(1, 5)))
    runs = []
    p_fail = rng.choice([0.3, 0.5, 0.8])
    for _ in range(rng.randrange(3, 8)):
        si = rng.randrange(len(swarms))
        runs.append({'swarm': si, 'call': rng.choice(['parallel_safe'] * 4 + ['open_links'] * 2 + ['parallel', 'sequential']),
                     'failing': [u for u in swarms[si] if rng.random() < p_fail],
                     'chain': rng.choice([['none', 0], ['explicit', 1], ['explicit', 2], ['explicit', 3], ['implicit', 1], ['implicit', 2]])})
    return {'op': 'process', 'swarms': swarms, 'runs': runs}


def _err_id(r, k):
    return (r + 1) * 100 + k


def run_process(case):
    import cflib.crazyflie.swarm as sw
    cur = {}
    keep = []                      # keeps every exception object alive: identities stay unique
    ident = {}

    class M:
        def __init__(self, uri, inst):
            self.uri, self.inst = uri, inst

        def open_link(self):
            action(self)

        def close_link(self):
            pass

        def wait_for_params(self):
            pass

    class F:
        def __init__(self):
            self.k = 0

        def construct(self, uri):
            self.k += 1
            return M(_O(uri), self.k - 1)

    lock = threading.Lock()

    def action(scf, *a):
        if scf.uri in cur['failing']:
            e = _Err(cur['pos'][id(scf)])
            style, depth = cur.get('chain') or ['none', 0]
            inner = None
            for d in range(depth):                          # inner errors: caught inside the action, never raised by it
                nxt = ValueError('inner error %d of member %d' % (d, cur['pos'][id(scf)]))
                if inner is not None:
                    nxt.__cause__ = inner
                inner = nxt
            with lock:
                keep.append(e)
                ident[id(e)] = _err_id(cur['run'], cur['pos'][id(scf)])
                cur['raised'].append(ident[id(e)])
                x, lvl = inner, depth
                while x is not None:
                    keep.append(x)
                    ident[id(x)] = 'inner-cause-level-%d-of-%d' % (lvl, ident[id(e)])
                    x, lvl = x.__cause__, lvl - 1
            if inner is not None and style == 'explicit':
                raise e from inner
            if inner is not None and style == 'implicit':
                try:
                    raise inner
                except ValueError:
                    raise e                                  # __context__ only, __cause__ stays None
            raise e

    swarms = [sw.Swarm([_S(x) for x in u], factory=F()) for u in case['swarms']]
    out = []
    for r, run in enumerate(case['runs']):
        s = swarms[run['swarm']]
        members = list(s._cfs.values())
        cur.update({'run': r, 'failing': set(run['failing']), 'pos': {id(m): k for k, m in enumerate(members)}, 'raised': [],
                    'chain': run.get('chain')})
        live0 = set(threading.enumerate())
        try:
            if run['call'] == 'open_links':
                s.open_links()
            else:
                getattr(s, run['call'])(action)
            o = ['Returned']
        except Exception as e:  # noqa
            obj = e if run['call'] == 'sequential' else e.__cause__
            keep.append(e)
            o = ['Raised', ident.get(id(obj), 'not-an-action-error:' + repr(obj)[:60])]
        for t in set(threading.enumerate()) - live0:
            t.join(3.0)
        if run['call'] == 'open_links':
            s.close_links()
        out.append({'outcome': o, 'raised': sorted(cur['raised'])})
    return out


def _process_errs(case):
    """Per run: the ids of the errors its actions raise (member order)."""
    res = []
    for r, run in enumerate(case['runs']):
        mem = members_of(case['swarms'][run['swarm']])
        ids = [_err_id(r, k) for k, u in enumerate(mem) if u in run['failing']]
        res.append(ids[:1] if run['call'] == 'sequential' else ids)      # sequential stops at the first failure
    return res


def process_term(case):
    errs = _process_errs(case)
    return 'process_fresh [' + '; '.join('(%s, [%s])' % (KIND[run['call']], '; '.join('%d%%nat' % e for e in es))
                                        for run, es in zip(case['runs'], errs)) + ']'


def compare_process(case, impl, mv):
    m = [None if x is None else _norm(x) for x in mv]
    errs = _process_errs(case)
    for k, (mo, r) in enumerate(zip(m, impl)):
        io = r['outcome']
        ok = (mo is None and io == ['Returned']) or \
             (mo is not None and io[0] == 'Raised' and (io[1] == mo if case['runs'][k]['call'] == 'sequential' else io[1] in errs[k]))
        if not ok or r['raised'] != errs[k]:
            return ('process: run %d (%s) differs (model: error handed to the caller / errors of the run)' % (k, case['runs'][k]['call']),
                    [mo, errs[k]], [io, r['raised']])
    return None


def check_process(case, impl=None):
    """Property text per run, by identity of the exception objects: raises iff one of THIS run's actions raised, and
    the chained error is one of the errors raised in THIS run."""
    impl = impl or run_process(case)
    for k, run in enumerate(case['runs']):
        r = impl[k]
        o = r['outcome']
        own = r['raised']
        mem = members_of(case['swarms'][run['swarm']])
        fail_pos = [_err_id(k, i) for i, u in enumerate(mem) if u in run['failing']]

        def fail(cls, exp, detail):
            return {'class': cls, 'case': case, 'expected': {'run': k, 'call': run['call'], 'want': exp},
                    'observed': {'run': k, 'outcome': o, 'errors_raised_in_this_run': own}, 'detail': detail}
        if run['call'] == 'parallel':
            if o != ['Returned']:
                return fail('parallel_raises', ['Returned'], 'parallel never raises')
            continue
        if not fail_pos:
            if o != ['Returned']:
                return fail('raises_without_failure', ['Returned'], 'no action of this run raised')
            continue
        if o[0] != 'Raised':
            return fail('failure_not_raised', 'raise chained from one of %s' % fail_pos, 'an action of this run raised')
        if run['call'] == 'sequential':
            if o[1] != fail_pos[0]:
                return fail('sequential_wrong_order_or_result', fail_pos[0], 'the first failing action\'s own error propagates')
        elif isinstance(o[1], str) and o[1].startswith('inner-cause'):
            return fail('chained_error_not_one_of_the_raised', 'one of %s' % own,
                        'the report must be chained from an error OBJECT an action raised (identity of __cause__), not from '
                        'the cause that error carries; observed: ' + o[1])
        elif o[1] not in own:
            return fail('chained_error_from_another_run', 'one of %s' % own,
                        'the report must be chained from one of the errors raised in THIS run (identity of __cause__); '
                        'id = (run+1)*100 + member')
    return None



# ------------------------------------------------------------------------------------------ lifecycle: close_link that raises, with-block
class _CloseErr(Exception):
    pass


class _BodyErr(Exception):
    pass


def gen_lifecycle(rng, mode=None):
    n = rng.randrange(0, 6)
    uris = rng.sample(range(1, 40), n)
    if n and rng.random() < 0.15:
        uris.insert(rng.randrange(len(uris) + 1), rng.choice(uris))
    mem = members_of(uris)
    pf = rng.choice([0.0, 0.0, 0.3, 0.7])
    pc = rng.choice([0.0, 0.3, 0.3, 1.0])
    return {'op': 'lifecycle', 'mode': mode or rng.choice(['close_links', 'open_links', 'with', 'with']), 'uris': uris,
            'open_fail': [u for u in mem if rng.random() < pf], 'close_fail': [u for u in mem if rng.random() < pc],
            'body_raises': rng.random() < 0.4,
            'close_ret': {u: rng.choice([None, None, True, False]) for u in mem} if rng.random() < 0.5 else {}}


def run_lifecycle(case):
    import cflib.crazyflie.swarm as sw
    open_fail, close_fail = set(case['open_fail']), set(case['close_fail'])
    log = {'opens': [], 'closes': [], 'open_errs': {}, 'close_errs': {}, 'body_ran': False}
    lock = threading.Lock()

    class M:
        def __init__(self, uri, inst):
            self.uri, self.inst = uri, inst

        def open_link(self):
            with lock:
                log['opens'].append(self.inst)
            if self.uri in open_fail:
                e = _Err(self.inst)
                log['open_errs'][id(e)] = (e, self.k)
                raise e

        def close_link(self):
            log['closes'].append(self.inst)
            if self.uri in close_fail:
                e = _CloseErr(self.inst)
                log['close_errs'][id(e)] = (e, self.k)
                raise e
            cr = case.get('close_ret') or {}
            return cr.get(self.uri, cr.get(str(self.uri)))       # None / True / False, as custom members may

        def wait_for_params(self):
            pass

    class F:
        def __init__(self):
            self.k = 0

        def construct(self, uri):
            self.k += 1
            return M(_O(uri), self.k - 1)

    s = sw.Swarm([_S(u) for u in case['uris']], factory=F())
    for k, m in enumerate(s._cfs.values()):
        m.k = k
    body_err = _BodyErr('body')

    def classify(e):
        if e is body_err:
            return ['WBody']
        if id(e) in log['close_errs']:
            return ['WClose', log['close_errs'][id(e)][1]]
        c = e.__cause__
        if str(e).startswith('One or more threads') and c is not None and id(c) in log['open_errs']:
            return ['WOpenFailed', ['EChained', log['open_errs'][id(c)][1]]]
        if str(e) == 'Already opened':
            return ['WOpenFailed', 'EAlreadyOpen']
        return ['unexpected', repr(e)[:80]]
    try:
        if case['mode'] == 'close_links':
            s._is_open = True
            s.close_links()
        elif case['mode'] == 'open_links':
            s.open_links()
        else:
            with s:
                log['body_ran'] = True
                if case['body_raises']:
                    raise body_err
        out = ['WOk']
    except Exception as e:  # noqa
        out = classify(e)
    return {'outcome': out, 'body_ran': log['body_ran'], 'is_open': bool(s._is_open), 'closes': log['closes'],
            'opens': sorted(log['opens']), 'members': [m.inst for m in s._cfs.values()], 'member_uris': [m.uri for m in s._cfs.values()]}


def _posfun(mem, sel):
    return '(fun k => existsb (Nat.eqb k) [%s])' % '; '.join('%d%%nat' % i for i, u in enumerate(mem) if u in sel)


def lifecycle_term(case):
    mem = members_of(case['uris'])
    c = '(mk_cfg %s None %s)' % (coqrun.zlist(case['uris']), coqrun.zlist(case['open_fail']))
    cf = _posfun(mem, case['close_fail'])
    failing = [i for i, u in enumerate(mem) if u in case['open_fail']]
    r = 'Returned' if not failing else '(Raised (EChained %d%%nat))' % failing[0]
    insts = 'map (inst %s) (seq 0 (n %s))' % (c, c)
    if case['mode'] == 'close_links':
        return '(%s, close_links_f %s true %s)' % (insts, c, cf)
    if case['mode'] == 'open_links':
        return '(%s, open_links_f %s false %s %s)' % (insts, c, r, cf)
    return '(%s, with_swarm %s %s %s %s)' % (insts, c, r, '(Some 0%nat)' if case['body_raises'] else 'None', cf)


def _norm_wres(w, case):
    w = _norm(w)
    if w == 'WOk':
        return ['WOk']
    if isinstance(w, list) and w[0] == 'WBody':
        return ['WBody']
    return w


def compare_lifecycle(case, impl, mv):
    m = _norm(mv)
    insts = m[0]
    if insts != impl['members']:
        return ('member dictionary differs', insts, impl['members'])
    mem = members_of(case['uris'])
    io = impl['outcome']
    failing = [i for i, u in enumerate(mem) if u in case['open_fail']]
    if io[0] == 'WOpenFailed' and isinstance(io[1], list) and io[1][1] in failing:
        io = ['WOpenFailed', ['EChained', failing[0]]]          # canonical: one of the open failures
    r = m[1]
    if case['mode'] == 'with':
        want = [_norm_wres(r[0], case), r[1], r[2], r[3]]
        got = [io, impl['body_ran'], impl['is_open'], impl['closes']]
    else:
        want = [_norm_wres(r[0], case), r[1], r[2]]
        got = [io, impl['is_open'], impl['closes']]
    if want != got:
        return ('lifecycle (%s) differs' % case['mode'], want, got)
    return None


def check_lifecycle(case, impl=None):
    impl = impl or run_lifecycle(case)
    mem = members_of(case['uris'])
    last = {}
    for i, u in enumerate(case['uris']):
        last[u] = i
    insts = [last[u] for u in mem]
    o = impl['outcome']
    open_pos = [i for i, u in enumerate(mem) if u in case['open_fail']]
    close_pos = [i for i, u in enumerate(mem) if u in case['close_fail']]

    def fail(cls, exp, detail):
        return {'class': cls, 'case': case, 'expected': exp, 'observed': impl, 'detail': detail}
    mode = case['mode']
    opened_ok = mode == 'close_links' or not open_pos
    must_close = mode in ('close_links', 'with') or bool(open_pos)
    if close_pos and must_close:
        # a raising close_link() is outside the property text: judge only what does not depend on the closes
        if sorted(impl['opens']) != (sorted(insts) if mode != 'close_links' else []):
            return fail('open_not_attempted_once_per_member', sorted(insts), 'every link opening is attempted exactly once')
        if mode == 'with' and impl['body_ran'] != (not open_pos):
            return fail('with_body_not_run' if not open_pos else 'body_run_after_failed_open', not open_pos, '')
        if impl['closes'] != insts[:len(impl['closes'])] or len(set(impl['closes'])) != len(impl['closes']):
            return fail('close_order_wrong', insts, 'links are closed in dictionary order, none twice')
        return None
    if must_close and (impl['closes'] != insts or impl['is_open']):
        return fail('not_every_link_closed', {'closes': insts, 'is_open': False},
                    'every link must be closed (once, whatever close_link() of another member does) and the swarm not be open')
    if not must_close and (impl['closes'] or not impl['is_open']):
        return fail('successful_open_closed_links', {'closes': [], 'is_open': True}, '')
    if mode != 'close_links' and open_pos:
        if o[0] != 'WOpenFailed' or not isinstance(o[1], list) or o[1][1] not in open_pos or impl['body_ran']:
            return fail('open_failure_not_raised', ['WOpenFailed', open_pos], 'if opening any link fails the failure is raised (and the body is not run)')
        return None
    if mode == 'with' and not impl['body_ran']:
        return fail('with_body_not_run', True, '')
    want = ['WClose', close_pos[0]] if (close_pos and must_close) else (['WBody'] if mode == 'with' and case['body_raises'] else ['WOk'])
    if want[0] == 'WClose':
        if o[0] != 'WClose' or o[1] not in close_pos:
            return fail('close_error_not_reported', want, 'a close_link() error is reported after all links were closed')
    elif o != want:
        return fail('lifecycle_wrong_outcome', want, '')
    return None


# ------------------------------------------------------------------------------------------ helper actions built on parallel_safe
def gen_helpers(rng):
    n = rng.randrange(1, 5)
    uris = rng.sample(range(1, 40), n)

    def stream():
        k = rng.random()
        if k < 0.12:
            return []
        return [[rng.randrange(-50, 50) for _ in range(3)] for _ in range(rng.randrange(1, 4))]

    def vstream():
        pre = [[rng.choice([0, 1, 2, 1000]) for _ in range(3)] for _ in range(rng.randrange(0, 8))]
        v = [rng.randrange(0, 3) for _ in range(3)]
        k = rng.random()
        if k < 0.15:
            return pre                                        # never settles: stream ends (disconnect)
        return pre + [list(v) for _ in range(rng.randrange(8, 14))] + [[7, 7, 7]] * rng.randrange(0, 3)
    return {'op': 'helpers', 'uris': uris,
            'pos1': {u: stream() for u in uris}, 'pos2': {u: stream() for u in uris},
            'fail2': [u for u in uris if rng.random() < 0.25],
            'var': {u: vstream() for u in uris}, 'fail_reset': [u for u in uris if rng.random() < 0.15]}


class _HelperErr(Exception):
    pass


def run_helpers(case):
    import cflib.crazyflie.swarm as sw
    rec = {}
    lock = threading.Lock()
    cur = {'streams': None, 'fail': set()}
    by_thread = {}

    class Param:
        def __init__(self, m):
            self.m = m

        def set_value(self, name, value):
            by_thread[threading.get_ident()] = self.m
            if self.m.uri in cur['fail']:
                raise _HelperErr(self.m.uri)
            with lock:
                rec[self.m.uri]['calls'].append(['set', name, value])

    class Cf:
        def __init__(self, m):
            self.link_uri = _S(m.uri)
            self.param = Param(m)

    class M:
        def __init__(self, uri, inst):
            self.uri, self.inst = uri, inst
            self.cf = Cf(self)

        def open_link(self):
            pass

        def close_link(self):
            pass

        def wait_for_params(self):
            pass

    class F:
        def __init__(self):
            self.k = 0

        def construct(self, uri):
            self.k += 1
            return M(_O(uri), self.k - 1)

    class FakeSyncLogger:
        def __init__(self, scf, log_config):
            self.m = scf
            self.cfg = log_config
            if scf.uri in cur['fail'] and cur['fail_in_logger']:
                raise _HelperErr(scf.uri)
            names = [v.name for v in log_config.variables]
            with lock:
                rec[scf.uri]['logs'].append([log_config.name, names, log_config.period_in_ms])
            self.names = names
            self.it = iter(cur['streams'][scf.uri] if str(scf.uri) not in cur['streams'] else cur['streams'][str(scf.uri)])

        def __enter__(self):
            return self

        def __exit__(self, *a):
            with lock:
                rec[self.m.uri]['exits'] += 1

        def __iter__(self):
            return self

        def __next__(self):
            v = next(self.it)
            with lock:
                rec[self.m.uri]['consumed'] += 1
            return (0, {n: float(x) for n, x in zip(self.names, v)}, self.cfg)

    class FakeTime:
        @staticmethod
        def sleep(d):
            m = by_thread.get(threading.get_ident())
            if m is not None:
                with lock:
                    rec[m.uri]['calls'].append(['sleep', d])

    old_sl, old_t = sw.SyncLogger, sw.time
    sw.SyncLogger, sw.time = FakeSyncLogger, FakeTime
    try:
        s = sw.Swarm([_S(u) for u in case['uris']], factory=F())

        def fresh():
            for u in case['uris']:
                rec[u] = {'calls': [], 'logs': [], 'consumed': 0, 'exits': 0}

        def call(fn):
            try:
                r = fn()
                return ['Returned'], r
            except Exception as e:  # noqa
                return ['Raised', type(e.__cause__).__name__], None
        res = {}
        fresh()
        cur.update({'streams': case['pos1'], 'fail': set(), 'fail_in_logger': True})
        o, r = call(s.get_estimated_positions)
        res['pos1'] = {'outcome': o, 'result': None if r is None else sorted([_O(u), list(p)] for u, p in r.items()),
                       'rec': {u: dict(rec[u]) for u in case['uris']}}
        fresh()
        cur.update({'streams': case['pos2'], 'fail': set(case['fail2']), 'fail_in_logger': True})
        o, r = call(s.get_estimated_positions)
        res['pos2'] = {'outcome': o, 'result': None if r is None else sorted([_O(u), list(p)] for u, p in r.items()),
                       'positions': sorted([_O(u), list(p)] for u, p in s._positions.items()),
                       'rec': {u: dict(rec[u]) for u in case['uris']}}
        fresh()
        cur.update({'streams': case['var'], 'fail': set(case['fail_reset']), 'fail_in_logger': False})
        o, r = call(s.reset_estimators)
        res['reset'] = {'outcome': o, 'rec': {u: dict(rec[u]) for u in case['uris']}}
        return res
    finally:
        sw.SyncLogger, sw.time = old_sl, old_t


def _g(d, u):
    return d[u] if u in d else d[str(u)]


def helpers_term(case):
    uris = case['uris']
    c = '(mk_cfg %s None [])' % coqrun.zlist(uris)
    uf = '(fun k => nth k %s 0)' % coqrun.zlist(uris)

    def streams(d):
        return '(fun k => nth k [%s] [])' % '; '.join(
            '[' + '; '.join('(%s, %s, %s)' % tuple(coqrun.z(x) for x in p) for p in _g(d, u)) + ']' for u in uris)
    ok1 = '(fun _ => true)'
    ok2 = '(fun k => nth k [%s] false)' % '; '.join(coqrun.coq_bool(u not in case['fail2']) for u in uris)
    p1 = '(positions_after %s %s %s %s (fun _ => None))' % (c, uf, streams(case['pos1']), ok1)
    p2 = '(positions_after %s %s %s %s %s)' % (c, uf, streams(case['pos2']), ok2, p1)
    waits = '[' + '; '.join('wait_for_position_estimator [%s]' % '; '.join(
        '(%s, %s, %s)' % tuple(coqrun.z(x) for x in p) for p in _g(case['var'], u)) for u in uris) + ']'
    return '(map %s %s, map %s %s, %s, reset_param_calls)' % (p1, coqrun.zlist(uris), p2, coqrun.zlist(uris), waits)


def _expect_helpers(case, p1, p2, waits):
    """What the observables must be, given per-URI positions after call 1 / call 2 and (consumed, converged) waits."""
    uris = case['uris']
    exp = {'pos1': sorted([u, list(p)] for u, p in zip(uris, p1) if p is not None),
           'pos2': sorted([u, list(p)] for u, p in zip(uris, p2) if p is not None),
           'pos2_outcome': ['Raised', '_HelperErr'] if case['fail2'] else ['Returned'],
           'reset_outcome': ['Raised', '_HelperErr'] if case['fail_reset'] else ['Returned'],
           'consumed': {u: (0 if u in case['fail_reset'] else w[0]) for u, w in zip(uris, waits)}}
    return exp


def _observe_helpers(case, impl):
    uris = case['uris']
    return {'pos1': impl['pos1']['result'], 'pos2': impl['pos2']['positions'], 'pos2_outcome': impl['pos2']['outcome'],
            'reset_outcome': impl['reset']['outcome'], 'consumed': {u: impl['reset']['rec'][u]['consumed'] for u in uris}}


def _helpers_protocol_failure(case, impl):
    """Per-member sequences: the right log configuration once, the right parameter writes in order."""
    for u in case['uris']:
        for ph, name, names, period in (('pos1', 'stateEstimate', ['stateEstimate.x', 'stateEstimate.y', 'stateEstimate.z'], 10),):
            r = impl[ph]['rec'][u]
            if r['logs'] != [[name, names, period]] or r['exits'] != 1 or r['calls']:
                return ('helper_member_sequence_wrong', ph, u, r)
            n_want = min(1, len(_g(case[ph], u)))
            if r['consumed'] != n_want:
                return ('helper_member_sequence_wrong', ph, u, r)
        r = impl['reset']['rec'][u]
        if u in case['fail_reset']:
            if r['calls'] or r['logs']:
                return ('helper_member_sequence_wrong', 'reset', u, r)
            continue
        if r['calls'] != [['set', 'kalman.resetEstimation', '1'], ['sleep', 0.1], ['set', 'kalman.resetEstimation', '0']] or \
                r['logs'] != [['Kalman Variance', ['kalman.varPX', 'kalman.varPY', 'kalman.varPZ'], 500]] or r['exits'] != 1:
            return ('helper_member_sequence_wrong', 'reset', u, r)
    return None


def compare_helpers(case, impl, mv):
    m = _norm(mv)
    p1, p2, waits, pcalls = m[0], m[1], m[2], m[3]
    if pcalls != [['PSet', 1], 'PSleep100ms', ['PSet', 0]]:
        return ('model: reset parameter sequence', pcalls, None)
    want = _expect_helpers(case, p1, p2, [tuple(w) for w in waits])
    got = _observe_helpers(case, impl)
    if want != got:
        return ('helper actions differ', want, got)
    f = _helpers_protocol_failure(case, impl)
    if f:
        return ('helper actions: per-member sequence differs', f[:3], f[3])
    return None


def _py_wait(stream):
    hx, hy, hz = [1000] * 10, [1000] * 10, [1000] * 10
    n = 0
    for x, y, z in stream:
        n += 1
        for h, v in ((hx, x), (hy, y), (hz, z)):
            h.append(v)
            h.pop(0)
        if all(max(h) - min(h) < 0.001 for h in (hx, hy, hz)):
            return (n, True)
    return (n, False)


def check_helpers(case, impl=None):
    """Property text: every member exactly once, results keyed by the right URI, failure of one member reported,
    the others unaffected."""
    impl = impl or run_helpers(case)
    uris = case['uris']
    p1 = [(_g(case['pos1'], u) or [None])[0] for u in uris]
    p2 = []
    for u, old in zip(uris, p1):
        st = _g(case['pos2'], u)
        p2.append(st[0] if (st and u not in case['fail2']) else old)
    waits = [_py_wait(_g(case['var'], u)) for u in uris]
    want = _expect_helpers(case, p1, p2, waits)
    got = _observe_helpers(case, impl)
    if want != got:
        cls = 'position_under_wrong_uri' if (want['pos1'] != got['pos1'] or want['pos2'] != got['pos2']) else \
            'helper_failure_not_reported' if (want['pos2_outcome'] != got['pos2_outcome'] or want['reset_outcome'] != got['reset_outcome']) \
            else 'estimator_wait_wrong'
        return {'class': cls, 'case': case, 'expected': want, 'observed': got,
                'detail': 'get_estimated_positions / reset_estimators: per-member results and failure report'}
    f = _helpers_protocol_failure(case, impl)
    if f:
        return {'class': f[0], 'case': case, 'expected': f[1:3], 'observed': f[3]}
    return None



# ------------------------------------------------------------------------------------------ per-member link state (Wave 12)
def gen_linkstate(rng, n=None):
    n = rng.randrange(1, 6) if n is None else n
    uris = rng.sample(range(1, 40), n)
    events = []
    for _ in range(rng.randrange(1, 4)):
        k = rng.random()
        u = rng.choice(uris)
        events.append(['down', u] if k < 0.6 else ['member_close', u] if k < 0.8 else ['up', u])
    if rng.random() < 0.1:
        events = [['down', u] for u in uris]                 # every link lost
    ad = None if rng.random() < 0.4 else {u: [rng.randrange(100) for _ in range(rng.randrange(0, 3))] for u in uris}
    pf = rng.choice([0.0, 0.0, 0.3, 1.0])
    return {'op': 'linkstate', 'uris': uris, 'events': events, 'call': rng.choice(['sequential', 'parallel', 'parallel_safe', 'parallel_safe']),
            'failing': [u for u in uris if rng.random() < pf], 'argdict': ad}


def run_linkstate(case):
    import cflib.crazyflie.swarm as sw
    lock = threading.Lock()
    calls = []
    errs = {}

    class M:
        def __init__(self, uri, inst):
            self.uri, self.inst, self.link = uri, inst, False

        def open_link(self):
            self.link = True

        def close_link(self):
            self.link = False

        def is_link_open(self):
            return self.link

        def wait_for_params(self):
            pass

    class F:
        def __init__(self):
            self.k = 0

        def construct(self, uri):
            self.k += 1
            return M(_O(uri), self.k - 1)

    s = sw.Swarm([_S(u) for u in case['uris']], factory=F())
    members = list(s._cfs.values())
    pos = {m.uri: k for k, m in enumerate(members)}
    by_uri = {m.uri: m for m in members}
    failing = set(case['failing'])

    def action(scf, *a):
        with lock:
            calls.append([scf.inst, list(a)])
        if scf.uri in failing:
            e = _Err(pos[scf.uri])
            errs[id(e)] = (e, pos[scf.uri])
            raise e
    s.open_links()
    for ev in case['events']:
        m = by_uri[ev[1]]
        if ev[0] == 'down':
            m.link = False                                   # Crazyflie.disconnected fired: the link is gone
        elif ev[0] == 'up':
            m.link = True
        else:
            m.close_link()
    ad = case.get('argdict')
    ad = None if ad is None else {_S(int(k)): list(v) for k, v in ad.items()}
    live0 = set(threading.enumerate())
    try:
        getattr(s, case['call'])(action, ad)
        out = ['Returned']
    except Exception as e:  # noqa
        obj = e if case['call'] == 'sequential' else e.__cause__
        out = ['Raised', errs[id(obj)][1] if id(obj) in errs else 'unexpected:' + repr(e)[:80]]
    for t in set(threading.enumerate()) - live0:
        t.join(3.0)
    return {'calls': calls, 'outcome': out, 'insts': [m.inst for m in members], 'is_open': bool(s._is_open),
            'links': [m.link for m in members]}


def linkstate_term(case):
    mem = members_of(case['uris'])
    ad = case.get('argdict')
    adt = 'None' if ad is None else '(Some [' + '; '.join('(%s, %s)' % (coqrun.z(int(u)), coqrun.zlist(a)) for u, a in ad.items()) + '])'
    c = '(mk_cfg %s %s %s)' % (coqrun.zlist(case['uris']), adt, coqrun.zlist(case['failing']))
    evs = ['SOpenOk'] + ['(%s %d%%nat)' % ('SLinkUp' if e[0] == 'up' else 'SLinkDown', mem.index(e[1])) for e in case['events']]
    st = '(srun [%s])' % '; '.join(evs)
    r = '(restrict %s (action_members %s %s))' % (c, c, st)
    return ('(action_members %s %s, map (fun k => (inst %s k, match args %s k with Some a => a | None => [] end)) (seq 0 (n %s)), '
            'fst (sequential %s), snd (sequential %s), map (fun k => snd %s k) (seq 0 (n %s)))' % (c, st, r, r, r, r, r, st, c))


def compare_linkstate(case, impl, mv):
    m = _norm(mv)
    members, all_calls, seq_calls, seq_out, flags = m[0], m[1], m[2], m[3], m[4]
    mem = members_of(case['uris'])
    fail_pos = [i for i, u in enumerate(mem) if u in case['failing']]
    if flags != impl['links']:
        return ('linkstate: harness and model disagree about the link flags', flags, impl['links'])
    if case['call'] == 'sequential':
        so = _norm_outcome(seq_out)
        want = [[list(x) for x in seq_calls], ['Raised', so[1][1]] if so[0] == 'Raised' else so]
        got = [impl['calls'], impl['outcome']]
    else:
        want = [sorted([list(x) for x in all_calls]),
                ['Returned'] if (case['call'] == 'parallel' or not [k for k in fail_pos if k in members]) else ['Raised', 'one of %s' % fail_pos]]
        o = impl['outcome']
        got = [sorted(impl['calls']), ['Raised', 'one of %s' % fail_pos] if (o[0] == 'Raised' and o[1] in fail_pos) else o]
    if want != got:
        return ('linkstate: action after link loss differs (%s)' % case['call'], want, got)
    return None


def check_linkstate(case, impl=None):
    """Property text: the action runs exactly once per Crazyflie of the swarm with its own arguments, whatever the state
    of the members' links; parallel_safe raises iff an action raised."""
    impl = impl or run_linkstate(case)
    mem = members_of(case['uris'])
    ad = case.get('argdict')
    last = {}
    for i, u in enumerate(case['uris']):
        last[u] = i
    want = []
    first_fail = None
    for k, u in enumerate(mem):
        want.append([last[u], [] if not ad else list(ad[u] if u in ad else ad[str(u)])])
        if u in case['failing'] and first_fail is None:
            first_fail = k
            if case['call'] == 'sequential':
                break
    got = impl['calls'] if case['call'] == 'sequential' else sorted(impl['calls'])
    if got != (want if case['call'] == 'sequential' else sorted(want)):
        return {'class': 'action_not_run_once_per_member', 'case': case, 'expected': want, 'observed': impl['calls'],
                'detail': 'after open_links and the loss of some links (%s) the action must still run once for every member'
                          % case['events']}
    fail_pos = [i for i, u in enumerate(mem) if u in case['failing']]
    o = impl['outcome']
    if case['call'] == 'parallel' or not fail_pos:
        if o != ['Returned']:
            return {'class': 'raises_without_failure' if not fail_pos else 'parallel_raises', 'case': case, 'expected': ['Returned'], 'observed': o}
    elif o[0] != 'Raised' or (o[1] != first_fail if case['call'] == 'sequential' else o[1] not in fail_pos):
        return {'class': 'failure_not_raised', 'case': case, 'expected': ['Raised', fail_pos], 'observed': o,
                'detail': 'parallel_safe raises iff at least one action raised'}
    return None



# ------------------------------------------------------------------------------------------ REAL SyncCrazyflie members over a fake Crazyflie (Wave 17)
def gen_realscf(rng, i=99):
    n = rng.randrange(1, 6)
    uris = rng.sample(range(1, 40), n)
    if i < n:
        open_fail = [uris[i]]                                  # a failing member in every position of the URI order
    else:
        p = rng.choice([0.0, 0.3, 0.6])
        open_fail = [u for u in uris if rng.random() < p]
    return {'op': 'realscf', 'uris': uris, 'open_fail': open_fail, 'then_close': rng.random() < 0.5}


def run_realscf(case, timeout=8.0):
    """The real Swarm with REAL SyncCrazyflie members; only the Crazyflie underneath is a fake whose connection
    callbacks the harness drives (connected / connection_failed / disconnected fire inside open_link / close_link)."""
    import cflib.crazyflie.swarm as sw
    from cflib.crazyflie.syncCrazyflie import SyncCrazyflie
    from cflib.utils.callbacks import Caller
    fail = set(case['open_fail'])

    class FakeCf:
        def __init__(self, key):
            self.key = key
            self.connected, self.connection_failed = Caller(), Caller()
            self.disconnected, self.fully_connected = Caller(), Caller()
            self.link_open = False
            self.opens = self.closes = 0
            self.link_uri = None

        def open_link(self, uri):
            self.opens += 1
            self.link_uri = uri
            if self.key in fail:
                self.connection_failed.call(uri, 'no Crazyflie at %s' % uri)
            else:
                self.link_open = True
                self.connected.call(uri)
                self.fully_connected.call(uri)

        def close_link(self):
            self.closes += 1
            self.link_open = False
            self.disconnected.call(self.link_uri)

    fakes = {}

    class F:
        def construct(self, uri):
            fakes[_O(uri)] = FakeCf(_O(uri))
            return SyncCrazyflie(uri, cf=fakes[_O(uri)])

    s = sw.Swarm([_S(u) for u in case['uris']], factory=F())
    res = {}

    def body():
        try:
            s.open_links()
            res['open'] = 'Returned'
            if case.get('then_close'):
                r = s.close_links()
                res['close'] = 'Returned'
        except Exception as e:  # noqa
            res['open' if 'open' not in res else 'close'] = 'Raised'
    t = threading.Thread(target=body, daemon=True)
    t.start()
    t.join(timeout)
    members = list(s._cfs.values())
    keys = [_O(m._link_uri) for m in members]
    res.update({'hung': t.is_alive(), 'keys': keys, 'scf_open': [bool(m.is_link_open()) for m in members],
                'cf_open': [fakes[k].link_open for k in keys], 'opens': [fakes[k].opens for k in keys],
                'cf_closes': [fakes[k].closes for k in keys], 'is_open': bool(s._is_open)})
    return res


def check_realscf(case, r=None):
    r = r or run_realscf(case)
    n = len(r['keys'])
    if r['hung']:
        return {'class': 'swarm_call_blocked', 'case': case, 'expected': 'open_links comes back', 'observed': r}
    failed = bool(case['open_fail'])
    if r.get('open') != ('Raised' if failed else 'Returned'):
        return {'class': 'failure_not_raised' if failed else 'raises_without_failure', 'case': case,
                'expected': 'Raised' if failed else 'Returned', 'observed': r}
    if r['opens'] != [1] * n:
        return {'class': 'action_not_run_once_per_member', 'case': case, 'expected': [1] * n, 'observed': r['opens']}
    must_be_closed = failed or case.get('then_close')
    if must_be_closed and (any(r['scf_open']) or any(r['cf_open']) or r['is_open']):
        return {'class': 'link_left_open_after_failed_open' if failed else 'link_left_open_after_close_links', 'case': case,
                'expected': {'scf_open': [False] * n, 'cf_open': [False] * n, 'is_open': False},
                'observed': {k: r[k] for k in ('keys', 'scf_open', 'cf_open', 'cf_closes', 'is_open')},
                'detail': 'if opening any link fails every link is closed again (real SyncCrazyflie members: is_link_open() and '
                          'the Crazyflie underneath)'}
    if not must_be_closed and not (all(r['scf_open']) and r['is_open']):
        return {'class': 'successful_open_closed_links', 'case': case, 'expected': [True] * n, 'observed': r['scf_open']}
    return None


# ------------------------------------------------------------------------------------------ tie
def _corpus_cases():
    import glob
    import json
    import os
    out = []
    for p in sorted(glob.glob(os.path.join(coqrun.VERIF, 'corpus', 'C19', '*.json'))):
        try:
            out.append(json.load(open(p))['case'])
        except Exception:  # noqa
            pass
    return out


def _gen_cases(ctx, rng):
    cases = [c for c in _corpus_cases() if c.get('op') not in ('history', 'process', 'lifecycle', 'helpers', 'linkstate', 'realscf') and c.get('kind') not in ('hold', 'open_drop')]
    # all failing subsets for small swarms, several schedules each
    for n in range(0, ctx.scale(4, 5)):
        for sub in itertools.chain.from_iterable(itertools.combinations(range(n), r) for r in range(n + 1)):
            for _ in range(ctx.scale(2, 6)):
                cases.append(gen_case(rng, 'parallel_safe', n=n, failing_idx=list(sub)))
            cases.append(gen_case(rng, 'open_links', n=n, failing_idx=list(sub)))
            cases.append(gen_case(rng, 'sequential', n=n, failing_idx=list(sub)))
    # every interleaving for tiny swarms
    for n, lim in ((1, 50), (2, ctx.scale(150, 4000)), (3, ctx.scale(0, 3000))):
        for sub in itertools.chain.from_iterable(itertools.combinations(range(n), r) for r in range(n + 1)):
            scheds = all_schedules(n, [True] * n, [i in sub for i in range(n)], lim)
            for sc in scheds:
                c = gen_case(rng, 'parallel_safe', n=n, failing_idx=list(sub), exhaustive_sched=[list(e) for e in sc],
                             total=True, no_repeat=True)
                cases.append(c)
    for _ in range(ctx.scale(1500, 15000)):
        op = rng.choice(['parallel_safe'] * 5 + ['parallel'] * 2 + ['sequential'] * 2 + ['open_links'] * 3 +
                        ['open_twice', 'close_links'])
        cases.append(gen_case(rng, op))
    return cases


def tie(ctx):
    rng = ctx.rng
    cases = _gen_cases(ctx, rng)
    terms = [model_term(c) for c in cases]
    model = coqrun.eval_terms(HEADER, terms, tag='c19', shard=150)
    dis = []
    dist = {'ops': {}, 'sizes': {}, 'failing': {}, 'keyerror_cases': 0, 'repeated_uri_cases': 0, 'schedule_len_max': 0}
    seen = set()
    nontriv = 0
    samples = []
    n_bad = n_run = 0
    for c, mv in zip(cases, model):
        if n_bad >= 6:             # enough evidence; blocked runs cost seconds each
            break
        impl = run_impl(c)
        n_run += 1
        d = compare(c, impl, mv)
        n_bad += 1 if d else 0
        n = impl['n']
        dist['ops'][c['op']] = dist['ops'].get(c['op'], 0) + 1
        dist['sizes'][n] = dist['sizes'].get(n, 0) + 1
        nf = len(c['failing'])
        dist['failing'][nf] = dist['failing'].get(nf, 0) + 1
        dist['schedule_len_max'] = max(dist['schedule_len_max'], len(c['script']))
        if impl['outcome'][0] == 'Raised' and isinstance(impl['outcome'][1], list) and impl['outcome'][1][0] == 'EKey':
            dist['keyerror_cases'] += 1
        if len(c['uris']) != n:
            dist['repeated_uri_cases'] += 1
        key = coqrun.digest([hash(repr((c['op'], c['uris'], c['argdict'], c['failing'], c['script']))) % (1 << 60)])
        if key not in seen:
            seen.add(key)
            if n >= 2 and c['op'] != 'close_links':
                nontriv += 1
        if d:
            if len(dis) < 12:
                dis.append({'what': d[0], 'case': c, 'model': d[1], 'impl': d[2]})
        elif len(samples) < 3 and n >= 3 and nf >= 1 and c['op'] == 'parallel_safe':
            samples.append({'case': c, 'impl': {k: impl[k] for k in ('calls', 'outcome', 'errors', 'all_done_at_return')}})
    # ---- histories on one swarm with reused / aliased argument dictionaries (ungated: only arguments and the
    #      caller's objects are compared)
    hcases = [c for c in _corpus_cases() if c.get('op') == 'history']
    for i in range(ctx.scale(250, 3000)):
        hcases.append(gen_history(rng, n=(i % 4) + 1 if i < 40 else None))
    hmodel = coqrun.eval_terms(HEADER, [history_term(c) for c in hcases], tag='c19h', shard=100)
    dist['history_cases'] = 0
    dist['history_reused_dict_calls'] = 0
    dist['history_aliased_lists'] = 0
    for c, mv in zip(hcases, hmodel):
        if n_bad >= 6:
            break
        impl = run_history(c)
        n_run += 1
        dist['history_cases'] += 1
        used = [st['dict'] for st in c['steps'] if st['dict'] is not None]
        dist['history_reused_dict_calls'] += len(used) - len(set(used))
        aliased = any(len(set(d.values())) < len(d) for d in c['dicts'] if d)
        dist['history_aliased_lists'] += 1 if aliased else 0
        d = compare_history(c, impl, mv)
        if len(used) > len(set(used)):
            nontriv += 1
        if d:
            n_bad += 1
            if len(dis) < 12:
                dis.append({'what': d[0], 'case': c, 'model': d[1], 'impl': d[2]})
    # ---- several runs in one process (ungated): each run reports from its own reporter
    pcases = [c for c in _corpus_cases() if c.get('op') == 'process']
    for i in range(ctx.scale(200, 3000)):
        pcases.append(gen_process(rng))
    pmodel = coqrun.eval_terms(HEADER, [process_term(c) for c in pcases], tag='c19p', shard=100)
    dist['process_cases'] = 0
    dist['process_runs'] = 0
    dist['process_failing_runs'] = 0
    for c, mv in zip(pcases, pmodel):
        if n_bad >= 6:
            break
        impl = run_process(c)
        n_run += 1
        dist['process_cases'] += 1
        dist['process_runs'] += len(c['runs'])
        nf = sum(1 for r in c['runs'] if r['failing'])
        dist['process_failing_runs'] += nf
        if nf >= 2:
            nontriv += 1
        d = compare_process(c, impl, mv)
        if d:
            n_bad += 1
            if len(dis) < 12:
                dis.append({'what': d[0], 'case': c, 'model': d[1], 'impl': d[2]})
    # ---- lifecycle (close_link that raises, with-block) and helper actions, ungated
    lcases = [c for c in _corpus_cases() if c.get('op') == 'lifecycle'] + [gen_lifecycle(rng) for _ in range(ctx.scale(250, 3000))]
    lmodel = coqrun.eval_terms(HEADER, [lifecycle_term(c) for c in lcases], tag='c19l', shard=100)
    dist['lifecycle_cases'] = 0
    dist['lifecycle_close_failures'] = 0
    for c, mv in zip(lcases, lmodel):
        if n_bad >= 6:
            break
        impl = run_lifecycle(c)
        n_run += 1
        dist['lifecycle_cases'] += 1
        dist['lifecycle_close_failures'] += 1 if c['close_fail'] else 0
        nontriv += 1 if (c['close_fail'] or c['open_fail']) and len(c['uris']) >= 2 else 0
        d = compare_lifecycle(c, impl, mv)
        if d:
            n_bad += 1
            if len(dis) < 12:
                dis.append({'what': d[0], 'case': c, 'model': d[1], 'impl': d[2]})
    hcases2 = [c for c in _corpus_cases() if c.get('op') == 'helpers'] + [gen_helpers(rng) for _ in range(ctx.scale(150, 2000))]
    hmodel2 = coqrun.eval_terms(HEADER, [helpers_term(c) for c in hcases2], tag='c19g', shard=60)
    dist['helper_cases'] = 0
    for c, mv in zip(hcases2, hmodel2):
        if n_bad >= 6:
            break
        impl = run_helpers(c)
        n_run += 1
        dist['helper_cases'] += 1
        nontriv += 1 if len(c['uris']) >= 2 else 0
        d = compare_helpers(c, impl, mv)
        if d:
            n_bad += 1
            if len(dis) < 12:
                dis.append({'what': d[0], 'case': c, 'model': d[1], 'impl': d[2]})
    # ---- per-member link state: open_links, some links go down, then an action (ungated)
    kcases = [c for c in _corpus_cases() if c.get('op') == 'linkstate'] + \
        [gen_linkstate(rng, n=(i % 4) + 1 if i < 24 else None) for i in range(ctx.scale(250, 3000))]
    kmodel = coqrun.eval_terms(HEADER, [linkstate_term(c) for c in kcases], tag='c19k', shard=100)
    dist['linkstate_cases'] = 0
    dist['linkstate_members_down'] = 0
    for c, mv in zip(kcases, kmodel):
        if n_bad >= 6:
            break
        impl = run_linkstate(c)
        n_run += 1
        dist['linkstate_cases'] += 1
        dist['linkstate_members_down'] += impl['links'].count(False)
        nontriv += 1 if False in impl['links'] and len(c['uris']) >= 2 else 0
        d = compare_linkstate(c, impl, mv)
        if d:
            n_bad += 1
            if len(dis) < 12:
                dis.append({'what': d[0], 'case': c, 'model': d[1], 'impl': d[2]})
    return {
        'evaluations': n_run,
        'distinct_nontrivial': nontriv,
        'rule': 'operations sequential/parallel/parallel_safe/open_links/open twice/close_links on swarms of 0..6 members '
                '(URI lists with repetitions; argument dictionaries None, empty, total, with a missing key, with a foreign '
                'key), all failing subsets for sizes <= 3 (quick) / <= 4 (thorough), every interleaving for sizes 1-2 '
                '(3 in thorough, capped), random schedules of four styles beyond.  Each schedule is an event list of the '
                'model replayed on the real Swarm by a gate.  Non-trivial = distinct case with >= 2 members',
        'samples': samples,
        'distribution': dist,
        'exhaustive': False,
        'disagreements': dis,
    }


# ------------------------------------------------------------------------------------------ oracle
def check_property(case, impl):
    """The property text on one observed run.  Returns a failure dict or None."""
    op = case['op']
    mem = members_of(case['uris'])
    n = len(mem)
    ad = case.get('argdict')
    ad_n = None if not ad else {int(k): list(v) for k, v in ad.items()}
    failing = [u for u in mem if u in case['failing']]
    # the instance that belongs to a URI is the last one constructed for it
    last_inst = {}
    for i, u in enumerate(case['uris']):
        last_inst[u] = i
    want_insts = [last_inst[u] for u in mem]

    def fail(cls, exp, obs, detail=''):
        return {'class': cls, 'case': case, 'expected': exp, 'observed': obs, 'detail': detail}

    if impl['stuck'] or impl['alive']:
        return fail('swarm_call_blocked', 'every thread finishes', [impl['stuck'], impl['alive']],
                    'a thread or the caller never reached its next step')
    if impl['insts'] != want_insts or impl['member_uris'] != mem:
        return fail('wrong_member_for_uri', [mem, want_insts], [impl['member_uris'], impl['insts']])
    missing = [u for u in mem if ad_n is not None and u not in ad_n]
    want_call = {last_inst[u]: (ad_n[u] if ad_n is not None and u in ad_n else []) for u in mem}
    for inst, a in impl['calls']:
        if inst not in want_call or want_call[inst] != a:
            return fail('action_called_with_foreign_arguments', want_call.get(inst), [inst, a],
                        'the action must receive the member and that member\'s own entry of the argument dictionary')
    insts_called = [i for i, _ in impl['calls']]
    if len(set(insts_called)) != len(insts_called):
        return fail('action_called_twice', 'each member at most once', insts_called)
    out = impl['outcome']
    if op == 'sequential':
        if impl['max_active'] > 1:
            return fail('sequential_overlap', 1, impl['max_active'])
        # expected: dictionary order up to the first member that fails (its error propagates) or lacks arguments
        exp_calls, exp_out = [], ['Returned']
        for k, u in enumerate(mem):
            if u in missing:
                exp_out = ['Raised', ['EKey', k]]
                break
            exp_calls.append(last_inst[u])
            if u in failing:
                exp_out = ['Raised', ['EAction', k]]
                break
        if insts_called != exp_calls or out != exp_out:
            return fail('sequential_wrong_order_or_result', [exp_calls, exp_out], [insts_called, out],
                        'sequential runs the members one at a time in the order of the URIs')
        return None
    if op in ('parallel_safe', 'parallel', 'open_links', 'open_twice', 'par_then_par') and not (op == 'open_links' and case.get('is_open')):
        if missing:
            # precondition of the property violated (argument dictionary not total): only the KeyError is checked
            if op == 'parallel_safe' and (out[0] != 'Raised' or out[1][0] != 'EKey'):
                return fail('missing_arguments_not_reported', 'KeyError', out)
            if op == 'parallel' and out != ['Returned']:
                return fail('parallel_raises', ['Returned'], out)
            return None
        if sorted(insts_called) != sorted(want_insts):
            return fail('action_not_run_once_per_member', sorted(want_insts), insts_called,
                        'a swarm-wide action runs exactly once per Crazyflie')
        if not impl['all_done_at_return']:
            return fail('returned_before_all_actions_finished', list(range(n)), impl['done_at_return'],
                        'parallel_safe returns only after every action has finished')
        if op == 'parallel':
            if out != ['Returned']:
                return fail('parallel_raises', ['Returned'], out)
            return None
        if not failing:
            if out != ['Returned']:
                return fail('raises_without_failure', ['Returned'], out)
        else:
            fail_idx = [k for k, u in enumerate(mem) if u in failing]
            if out[0] != 'Raised' or not isinstance(out[1], list) or out[1][0] != 'EChained':
                return fail('failure_not_raised', 'raise chained from one of %s' % fail_idx, out,
                            'parallel_safe raises iff at least one action raised')
            if out[1][1] not in fail_idx:
                return fail('chained_error_not_one_of_the_raised', fail_idx, out)
    if op == 'open_links':
        if case.get('is_open'):
            if out != ['Raised', 'EAlreadyOpen'] or impl['calls'] or impl['closes'] or not impl['is_open']:
                return fail('double_open_not_refused', [['Raised', 'EAlreadyOpen'], [], [], True],
                            [out, impl['calls'], impl['closes'], impl['is_open']], 'a swarm cannot be opened twice')
            return None
        if failing:
            if impl['closes'] != want_insts or not all(impl['closes_when_done']) or impl['is_open']:
                return fail('open_failure_does_not_close_all', [want_insts, 'after all attempts', False],
                            [impl['closes'], impl['closes_when_done'], impl['is_open']],
                            'if opening any link fails every link is closed again')
        elif impl['closes'] or not impl['is_open']:
            return fail('successful_open_closed_links', [[], True], [impl['closes'], impl['is_open']])
    if op == 'open_twice':
        if not failing:
            if impl['second'] != ['Raised', 'EAlreadyOpen'] or impl['second_calls'] != 0:
                return fail('double_open_not_refused', [['Raised', 'EAlreadyOpen'], 0], [impl['second'], impl['second_calls']],
                            'a swarm cannot be opened twice')
    if op == 'par_then_par' and not missing:
        if impl['second'] != ['Returned'] or impl['second_insts'] != sorted(want_insts):
            return fail('later_action_affected_by_earlier_errors', [['Returned'], sorted(want_insts)],
                        [impl['second'], impl['second_insts']],
                        'a swarm-wide action whose calls all succeed returns normally, whatever happened before')
    if op == 'close_links':
        if impl['closes'] != want_insts or impl['is_open']:
            return fail('close_links_incomplete', [want_insts, False], [impl['closes'], impl['is_open']])
    return None


COLLIDING_URI_SETS = [
    ['radio://0/80/2M/E7E7E7E701', 'radio://1/100/2M/E7E7E7E701'],                       # same address, other radio/channel
    ['radio://0/80/2M', 'radio://1/80/2M', 'radio://0/81/2M/E7E7E7E7E7'],                # no address: tail is the rate
    ['radio://0/80/2M/E7?rate_limit=1', 'radio://1/80/2M/E7?rate_limit=1'],              # query strings
    ['radio://0/80/2M/', 'radio://1/80/2M/', 'radio://0/90/2M/E7E7E7E702'],              # trailing slash: empty tail
    ['radio://0/10/2M/E7E7E7E701', 'radio://0/11/2M/E7E7E7E702', 'radio://1/12/2M/E7E7E7E701'],
]


def run_hold(case, wait=0.15):
    """Ungated run in which the actions of the members in case['hold'] do not finish until the harness lets them:
    the swarm call (made in a helper thread) must not return before.  Costs `wait` seconds on a correct tree."""
    import cflib.crazyflie.swarm as sw
    uris, failing, hold = case['uris'], set(case['failing']), set(case['hold'])
    release = threading.Event()
    lock = threading.Lock()
    calls, done = [], set()
    closes = []
    drop = set(case.get('drop', []))

    class M:
        def __init__(self, uri, inst):
            self.uri, self.inst = uri, inst

        def open_link(self):
            action(self)

        def wait_for_params(self):
            # the link of a member in case['drop'] went down between `connected` and `fully_connected`: the signal
            # this call waits for never comes (the harness gives up after 9 s)
            if self.uri in drop:
                release.wait(9.0)

        def close_link(self):
            with lock:
                closes.append(self.inst)

    class F:
        def __init__(self):
            self.k = 0

        def construct(self, uri):
            self.k += 1
            return M(_O(uri), self.k - 1)

    def action(scf, *a):
        with lock:
            calls.append(scf.inst)
        try:
            if scf.uri in hold:
                release.wait(5.0)
            if scf.uri in failing:
                raise _Err(scf.inst)
        finally:
            with lock:
                done.add(scf.inst)

    s = sw.Swarm([_S(u) for u in uris], factory=F())
    members = [m.inst for m in s._cfs.values()]
    out = {}
    returned = threading.Event()

    def caller():
        try:
            if case['op'] == 'open_links':
                s.open_links()
            elif case['op'] == 'parallel':
                s.parallel(action)
            else:
                s.parallel_safe(action)
            out['outcome'] = 'Returned'
        except Exception as e:  # noqa
            out['outcome'] = 'Raised'
            out['cause_is_raised_error'] = isinstance(e.__cause__, _Err)
        with lock:
            out['done_at_return'] = sorted(done)
        returned.set()

    t = threading.Thread(target=caller, daemon=True)
    t.start()
    early = returned.wait(wait)
    release.set()
    t.join(6.0)
    res = {'returned_while_held': bool(early), 'members': members, 'calls': sorted(calls), 'alive': t.is_alive(), 'closes': list(closes)}
    res.update(out)
    return res


def check_open_drop(case):
    """open_links with members whose link dropped before fully_connected: must come back in bounded time; on any
    member failure every link is closed and the failure raised."""
    r = run_hold(case, wait=4.0)     # generous: a loaded machine must not turn scheduling delay into an alarm
    if not r['returned_while_held']:
        return {'class': 'open_links_blocked_after_link_drop', 'case': case, 'expected': 'open_links returns or raises',
                'observed': {k: r.get(k) for k in ('outcome', 'closes', 'alive')},
                'detail': 'open_links did not come back within 4 s although every open_link() had returned or raised'}
    want = 'Raised' if case['failing'] else 'Returned'
    if r.get('outcome') != want:
        return {'class': 'failure_not_raised' if want == 'Raised' else 'raises_without_failure', 'case': case, 'expected': want, 'observed': r}
    if case['failing'] and sorted(r['closes']) != sorted(r['members']):
        return {'class': 'open_failure_does_not_close_all', 'case': case, 'expected': sorted(r['members']), 'observed': r['closes']}
    return None


def check_hold(case):
    r = run_hold(case)
    if r['alive'] or 'outcome' not in r:
        return {'class': 'swarm_call_blocked', 'case': case, 'expected': 'returns after release', 'observed': r}
    if r['returned_while_held'] or r['done_at_return'] != sorted(r['members']):
        return {'class': 'returned_before_all_actions_finished', 'case': case, 'expected': sorted(r['members']),
                'observed': r, 'detail': 'the swarm call came back while the actions of the held members were still running'}
    if r['calls'] != sorted(r['members']):
        return {'class': 'action_not_run_once_per_member', 'case': case, 'expected': sorted(r['members']), 'observed': r['calls']}
    want = 'Returned' if case['op'] == 'parallel' or not case['failing'] else 'Raised'
    if r['outcome'] != want:
        return {'class': 'failure_not_raised' if want == 'Raised' else 'raises_without_failure', 'case': case,
                'expected': want, 'observed': r}
    return None


def oracle(ctx, deep=False):
    import random
    rng = random.Random(ctx.seed * 104729 + 7)
    fails = []
    n = 0

    def add(f):
        if f and sum(1 for x in fails if x['class'] == f['class']) < 2:
            fails.append(f)

    cases = [c for c in _corpus_cases() if c.get('op') not in ('history', 'process', 'lifecycle', 'helpers', 'linkstate', 'realscf') and c.get('kind') not in ('hold', 'open_drop')]
    for size in range(0, ctx.scale(4, 5)):
        for sub in itertools.chain.from_iterable(itertools.combinations(range(size), r) for r in range(size + 1)):
            for op in ('parallel_safe', 'parallel_safe', 'parallel', 'sequential', 'open_links', 'open_twice', 'par_then_par'):
                cases.append(gen_case(rng, op, n=size, failing_idx=list(sub)))
    for _ in range(ctx.scale(400, 5000) * (3 if deep else 1)):
        op = rng.choice(['parallel_safe'] * 5 + ['parallel'] * 2 + ['sequential'] * 2 + ['open_links'] * 3 +
                        ['open_twice', 'close_links', 'par_then_par'])
        cases.append(gen_case(rng, op))
    n_bad = 0
    # reused / aliased argument dictionaries over several calls on one swarm
    for c in [c for c in _corpus_cases() if c.get('op') == 'history'] + \
            [gen_history(rng, n=(i % 4) + 1 if i < 20 else None) for i in range(ctx.scale(200, 3000) * (3 if deep else 1))]:
        n += 1
        add(check_history(c))
    # several runs in one process: the chained error must be one raised in that run
    for c in [c for c in _corpus_cases() if c.get('op') == 'process'] + \
            [gen_process(rng) for i in range(ctx.scale(200, 3000) * (3 if deep else 1))]:
        n += 1
        add(check_process(c))
    for c in [c for c in _corpus_cases() if c.get('op') == 'lifecycle'] + \
            [gen_lifecycle(rng) for i in range(ctx.scale(250, 3000) * (3 if deep else 1))]:
        n += 1
        add(check_lifecycle(c))
    for c in [c for c in _corpus_cases() if c.get('op') == 'helpers'] + \
            [gen_helpers(rng) for i in range(ctx.scale(100, 1500) * (3 if deep else 1))]:
        n += 1
        add(check_helpers(c))
    for c in [c for c in _corpus_cases() if c.get('op') == 'linkstate'] + \
            [gen_linkstate(rng, n=(i % 4) + 1 if i < 24 else None) for i in range(ctx.scale(250, 3000) * (3 if deep else 1))]:
        n += 1
        add(check_linkstate(c))
    # real SyncCrazyflie members over a fake Crazyflie: failed open / close leave no link open
    for c in [c for c in _corpus_cases() if c.get('op') == 'realscf'] + [gen_realscf(rng, i) for i in range(ctx.scale(120, 1500))]:
        n += 1
        add(check_realscf(c))
    # open_links while the link of some member dropped between connected and fully_connected
    for i in range(ctx.scale(6, 40)):
        size = rng.randrange(2, 5)
        uris = rng.sample(range(1, 40), size)
        drop = rng.sample(uris, rng.randrange(1, size))
        c = {'op': 'open_links', 'uris': uris, 'hold': [], 'kind': 'open_drop', 'drop': drop,
             'failing': [] if i % 2 else [rng.choice([u for u in uris if u not in drop] or uris)]}
        n += 1
        add(check_open_drop(c))
    # legal URI sets whose members share the last path element; the EARLIER of two such members finishes last / raises late
    for uris in COLLIDING_URI_SETS:
        for op in ('parallel_safe', 'parallel', 'open_links'):
            for late_fail in (False, True):
                if op == 'parallel' and late_fail:
                    continue
                c = {'op': op, 'uris': uris, 'failing': [uris[0]] if late_fail else [], 'hold': [uris[0]], 'kind': 'hold'}
                n += 1
                add(check_hold(c))
    # the join: members whose action is held back must hold back the caller
    for i in range(ctx.scale(10, 60)):
        size = rng.randrange(2, 6)
        uris = rng.sample(range(1, 40), size)
        hold = [uris[-1]] if i % 3 == 0 else (uris[1:] if i % 3 == 1 else rng.sample(uris, rng.randrange(1, size)))
        c = {'op': rng.choice(['parallel_safe', 'parallel_safe', 'parallel', 'open_links']), 'uris': uris,
             'failing': [u for u in uris if rng.random() < 0.3], 'hold': hold, 'kind': 'hold'}
        n += 1
        add(check_hold(c))
    for c in cases:
        if n_bad >= 8:
            break
        n += 1
        f = check_property(c, run_impl(c))
        n_bad += 1 if f else 0
        add(f)
    return {'evaluations': n, 'failures': fails,
            'rule': 'on each gated run of the real Swarm: each member called exactly once with its own instance and '
                    'arguments; sequential one at a time in URI order; parallel_safe finished only after all actions, raises '
                    'iff some action raised, __cause__ is one of the raised errors; parallel never raises; failed open closes '
                    'every member after all attempts and raises; open on an open swarm is refused'}


def replay(payload, ctx):
    c = payload['case']
    if c.get('kind') == 'open_drop':
        return check_open_drop(c)
    if c.get('kind') == 'hold':
        return check_hold(c)
    if c.get('op') == 'history':
        return check_history(c)
    if c.get('op') == 'process':
        return check_process(c)
    if c.get('op') == 'realscf':
        return check_realscf(c)
    if c.get('op') == 'linkstate':
        return check_linkstate(c)
    if c.get('op') == 'lifecycle':
        return check_lifecycle(c)
    if c.get('op') == 'helpers':
        return check_helpers(c)
    return check_property(c, run_impl(c))
