"""C15 — Lighthouse angle, vector and pose conversions are mutually consistent.

T-tie: harness/trans/c15_formulas.py symbolically executes the Python source of lighthouse_bs_vector.py, Pose
(lighthouse_types.py), _rotate_translate/_calc_angle_pairs (lighthouse_geometry_solver.py) and the ippe_cf.py axis
permutations into expression trees, written to coq/C15/Gen_Formulas.v on every run; C15/GenTie.v proves that every
tree denotes the model function the theorems of C15/Property.v are about (several theorems are stated on the trees).
V-tie: the same trees are evaluated in Python (math module, float64) and compared with the real numpy/scipy code
over a dense grid of the field of view and a structured set of rotations; the scipy hypothesis of the Coq Section
(Rotation.from_rotvec(r).as_matrix() = Rodrigues matrix) is validated numerically against the tree that GenTie.v
proves equal to the Coq definition `rodrigues`.
Oracle: the property text on the real code only (round trips, unit length, rigid-motion laws, view agreement, the two
projection paths), independent of trees and model.
"""
import math
import os
import warnings

from core import coqrun
from trans import c15_formulas as TR

ID = 'C15'
PROPERTY_FILE = 'C15/Property.v'
PROPERTY_FILES = ['C15/Property.v', 'C15/Property_code.v']
# model-level theorems do not depend on Gen_Formulas.v: still checked when the translator fails closed
PROPERTY_FILES_NO_GEN = ['C15/Property.v']
LEVEL = 'other'
ALLOWED_AXIOMS = coqrun.REAL_AXIOMS
TRUSTED_BASE = [
    'harness/trans/c15_formulas.py: fail-closed symbolic interpreter for the numeric Python subset used by the four '
    'anchored files (numpy broadcasting of one array row, np.dot/cross/transpose/linalg.norm/nan_to_num, math.*); its '
    'output is cross-checked numerically against the real code on every run (V-tie)',
    'Coq.Reals axioms of the standard library (sig_forall_dec, sig_not_dec, functional_extensionality_dep, classic)',
    'real-number semantics: IEEE-754 rounding, the float32 casts in cart/projection, overflow/underflow and signed '
    'zeros are outside the theorems; validated numerically only',
    'scipy.spatial.transform.Rotation is outside the model: from_rotvec(r).as_matrix() enters as a Section hypothesis '
    '(= Rodrigues matrix `rodrigues r`), validated numerically incl. r = 0, |r| = 1e-9..1e-12, |r| = pi',
]
ASSUMPTIONS = [
    'Rotation.from_rotvec(r).as_matrix() equals the Rodrigues matrix of r (numerically validated to 1e-12 each run)',
    'Rotation.from_quat(u).as_matrix() equals quat_mat(u/|u|); as_rotvec/as_quat invert these (numerically validated)',
    'np.nan_to_num(a/b) is only reached with b = |a-vector|, i.e. b = 0 implies a = 0 (proved: vnorm_zero_iff); the '
    'float underflow case |r| < 1.5e-154 (norm underflows to 0 although r != 0) is outside the real-number model '
    'and is exercised by the oracle',
    'math.asin/math.atan2 domain errors and ZeroDivisionError do not occur inside the field of view '
    '(C15_v2_sweeps_exist; denominators cos h, sqrt(1+tan^2 h), |(1, tan h, tan v)| are positive)',
]
PROVED = (
    'Over the reals, for the expression trees translated from the current source (GenTie.v: tree = model function): '
    'V1->V2->V1 and V2->V1->V2 sweep-angle round trips on the whole field of view |h|<=80deg, |v|<=55deg, with both '
    'asin arguments strictly inside (-1,1) (C15_v2_sweeps_exist, C15_v1_v2_inverse, C15_v2_v1_inverse, '
    'C15_code_v1_v2_inverse); cart is a unit vector for all angles (C15_cart_unit, C15_code_cart_unit); projection/'
    'from_projection/cart/from_cart are mutual inverses (C15_cart_projection_inverse, C15_projection_from_projection, '
    'C15_from_cart_inverse); Pose inverse/associativity/sequential application/identity/closure/rigidity for '
    'orthogonal R (C15_pose_*); Rodrigues matrix = quaternion matrix of (k sin(th/2), cos(th/2)), both rotations '
    '(orthogonal, det 1), axis fixed, negated vector = transpose, rotation vector unique for |r|<pi, q and -q same matrix '
    '(C15_views_agree, C15_views_unique); the solver\'s vectorised Rodrigues projection (_rotate_translate twice + '
    'arctan2) equals inv_rotate_translate o rotate_translate o from_cart for all rotation vectors incl. the zero '
    'vector/nan_to_num branch (C15_projection_paths_agree, C15_projection_paths_zero_rotation, '
    'C15_code_projection_paths_agree); IPPE<->CF permutations are inverse rotations and transfer solutions and '
    'image points correctly (C15_ippe_permutation_inverse); C15_code_matches_model. Object level (heap of mutable poses): '
    'composition returns a new object for every operand pair incl. identity, so in-place scale() of a product leaves the '
    'operands and the laws intact (C15_compose_fresh, C15_scale_product_keeps_operands); an identity fast path that returns '
    'an operand is refuted on a concrete heap (C15_identity_fastpath_refuted). Constructors/getters of the views are mutually '
    'inverse on their domains (C15_view_constructors_getters_inverse: |r|<pi through the matrix, half turn when the quaternion '
    'is kept, antipodal/rescaled quaternions), default constructors = identity, Pose.scale laws (C15_scale_laws), half-turn '
    'form of the solver rotation (C15_solver_rotation_half_turn), ties for scale/matrix_vec/from_rot_vec/from_quat/'
    '_params_to_pose/_poses_to_angle_pairs/list helpers (C15_code_matches_model_2, C15_code_params_paths_agree).')
NOT_PROVED = (
    '"To float32 accuracy": IEEE rounding (float32 casts in cart/projection, float64 elsewhere) is not modelled; it is '
    'validated numerically (tolerance 1e-5 relative for float32 outputs, 1e-9 for float64) on a dense grid, not proved. '
    'scipy Rotation (from_rotvec/from_quat/from_matrix/as_*) is not modelled: the matrix it produces is a hypothesis '
    'of C15_views_agree/C15_projection_paths_agree (validated numerically); as_rotvec/as_quat round trips are only '
    'sampled (the theorems give uniqueness of the rotation vector for |r|<pi and of the quaternion up to sign only '
    'in the direction q/-q -> same matrix). IppeCf.solve (SVD based) is not modelled, only its axis conversions.')
EXPLANATION = 'Coq proof over the reals of every algebraic clause on trees translated from the source each run; ' \
              'float accuracy and scipy agreement validated numerically.'

GEN_FILE = os.path.join(coqrun.COQ_DIR, 'C15', 'Gen_Formulas.v')
_state = {}


def generate(ctx):
    _state.clear()
    fs, info = TR.translate(ctx.repo)
    text = TR.emit_coq(fs, info)
    old = open(GEN_FILE).read() if os.path.exists(GEN_FILE) else None
    if old != text:
        with open(GEN_FILE, 'w') as f:
            f.write(text)
    _state['fs'] = fs
    _state['info'] = info
    return dict(info, file='coq/C15/Gen_Formulas.v', rewritten=old != text)


def _functions(ctx):
    if 'fs' not in _state:
        fs, info = TR.translate(ctx.repo)
        _state['fs'], _state['info'] = fs, info
    return _state['fs']


# ------------------------------------------------------------------------------------------ case generation
D2R = math.pi / 180.0
H_MAX, V_MAX = 80.0, 55.0


def fov_grid(ctx, n_h, n_v, n_rand):
    """(h, v) in radians: full grid incl. the boundary, the axes and tiny angles, plus random interior points"""
    hs = [-H_MAX + 2 * H_MAX * i / (n_h - 1) for i in range(n_h)]
    vs = [-V_MAX + 2 * V_MAX * j / (n_v - 1) for j in range(n_v)]
    pts = [(h * D2R, v * D2R) for h in hs for v in vs]
    for e in (0.0, 1e-9, -1e-9, 1e-6, -1e-6, 1e-3):
        for f in (0.0, 1e-9, -1e-9, 1e-6, 1e-3, -1e-3):
            pts.append((e, f))
    for h in (-H_MAX, H_MAX, 0.0, 1e-9 / D2R):
        for v in (-V_MAX, V_MAX, 0.0):
            pts.append((h * D2R, v * D2R))
    for _ in range(n_rand):
        pts.append((ctx.rng.uniform(-H_MAX, H_MAX) * D2R, ctx.rng.uniform(-V_MAX, V_MAX) * D2R))
    return pts


def _unit(ctx):
    while True:
        a = [ctx.rng.gauss(0, 1) for _ in range(3)]
        n = math.sqrt(sum(x * x for x in a))
        if n > 1e-3:
            return [x / n for x in a]


def rotvecs(ctx, n_rand):
    """rotation vectors: identity, axis-aligned and random half turns, tiny angles, near-pi, random"""
    out = [('identity', [0.0, 0.0, 0.0])]
    for ax in ([1, 0, 0], [0, 1, 0], [0, 0, 1], [-1, 0, 0], [0, -1, 0], [0, 0, -1]):
        out.append(('half_turn', [math.pi * a for a in ax]))
        out.append(('quarter_turn', [math.pi / 2 * a for a in ax]))
        for mag in (1e-9, 1e-12, 1e-6):
            out.append(('tiny', [mag * a for a in ax]))
    # singular / boundary angles on all coordinate axes and space diagonals (every run)
    r3 = 1.0 / math.sqrt(3.0)
    axes = [[1, 0, 0], [0, 1, 0], [0, 0, 1], [-1, 0, 0], [0, -1, 0], [0, 0, -1]] + \
           [[sx * r3, sy * r3, sz * r3] for sx in (1, -1) for sy in (1, -1) for sz in (1, -1)] + \
           [[math.sqrt(0.5), math.sqrt(0.5), 0.0], [0.0, -math.sqrt(0.5), math.sqrt(0.5)]]
    for ax in axes:
        for th in (0.0, 1e-12, 1e-8, 1e-4, math.pi - 1e-8, math.pi, math.pi + 1e-8):
            out.append(('boundary' if th else 'identity', [th * a for a in ax]))
    for _ in range(max(4, n_rand // 8)):
        u = _unit(ctx)
        out.append(('half_turn', [math.pi * a for a in u]))
        out.append(('tiny', [1e-9 * a for a in u]))
        out.append(('tiny', [ctx.rng.choice((1e-7, 1e-10, 1e-12, 1e-15)) * a for a in u]))
        out.append(('near_pi', [(math.pi - ctx.rng.choice((1e-3, 1e-6))) * a for a in u]))
    for _ in range(n_rand):
        u = _unit(ctx)
        th = ctx.rng.uniform(0.01, math.pi - 0.01)
        out.append(('random', [th * a for a in u]))
    return out


def _tvec(ctx, scale=3.0):
    return [ctx.rng.uniform(-scale, scale) for _ in range(3)]


def _close(a, b, rel, abs_):
    return abs(a - b) <= rel * abs(b) + abs_


def _cmp_list(xs, ys, rel, abs_):
    """index of first mismatch or None"""
    if len(xs) != len(ys):
        return -1
    for i, (a, b) in enumerate(zip(xs, ys)):
        a, b = float(a), float(b)
        if not (_close(a, b, rel, abs_)) or a != a or b != b:
            return i
    return None


F64 = (1e-9, 1e-12)       # relative, absolute
F32 = (1e-5, 1e-9)


# ------------------------------------------------------------------------------------------ tie (V)
def tie(ctx):
    import numpy as np
    from cflib.localization.lighthouse_bs_vector import LighthouseBsVector as BV
    from cflib.localization.lighthouse_types import Pose
    from cflib.localization.lighthouse_geometry_solver import LighthouseGeometrySolver as GS
    from cflib.localization.lighthouse_geometry_solver import LighthouseGeometrySolution
    from cflib.localization.ippe_cf import IppeCf
    from scipy.spatial.transform import Rotation
    fs = _functions(ctx)
    dis, n_eval, keys, dist = [], 0, set(), {}
    nontriv = set()

    def E(name, env):
        return TR.eval_function(fs, name, env)

    def check(what, name, env, impl, tol, nontrivial, kind):
        nonlocal n_eval
        n_eval += 1
        dist[kind] = dist.get(kind, 0) + 1
        key = (name, tuple(round(float(x), 15) for x in env))
        keys.add(key)
        if nontrivial:
            nontriv.add(key)
        try:
            mv = E(name, env)
        except Exception as e:           # tree evaluation must be defined wherever the code is
            mv = ['raise', type(e).__name__]
        iv = [float(x) for x in impl] if not isinstance(impl, str) else impl
        bad = isinstance(iv, str) or (mv and mv[0] == 'raise') or _cmp_list(iv, mv, *tol) is not None
        if bad and len(dis) < 12:
            dis.append({'what': 'tree translated from the source and the implementation differ: ' + what,
                        'function': name, 'input': [float(x) for x in env], 'model': mv, 'impl': iv})
        return not bad

    def run(f):
        try:
            return f()
        except Exception as e:  # noqa
            return 'raise ' + type(e).__name__

    # ---- lighthouse_bs_vector.py over the field of view
    pts = fov_grid(ctx, *ctx.scale((121, 83, 2000), (481, 331, 30000)))
    for (h, v) in pts:
        nt = abs(h) > 1e-12 and abs(v) > 1e-12
        b = BV(h, v)
        check('LighthouseBsVector.lh_v2_angle_1', 'lh_v2_angle_1', [h, v], run(lambda: [b.lh_v2_angle_1]), F64, nt, 'bsv')
        check('LighthouseBsVector.lh_v2_angle_2', 'lh_v2_angle_2', [h, v], run(lambda: [b.lh_v2_angle_2]), F64, nt, 'bsv')
        check('LighthouseBsVector._q', 'q', [h, v], run(lambda: [b._q()]), F64, nt, 'bsv')
        check('LighthouseBsVector.cart (float32)', 'cart', [h, v], run(lambda: list(b.cart)), F32, nt, 'bsv_f32')
        check('LighthouseBsVector.projection (float32)', 'projection', [h, v], run(lambda: list(b.projection)), F32, nt, 'bsv_f32')
        check('lh_v1_angle_pair', 'lh_v1_angle_pair', [h, v], run(lambda: list(b.lh_v1_angle_pair)), F64, nt, 'bsv')
        a1, a2 = h + 0.37 * v, h - 0.21 * v + 0.05
        check('LighthouseBsVector.from_lh2', 'from_lh2', [a1, a2],
              run(lambda: list(BV.from_lh2(a1, a2).lh_v1_angle_pair)), F64, nt, 'bsv')
        y, z = math.tan(h), math.tan(v)
        check('LighthouseBsVector.from_projection', 'from_projection', [y, z],
              run(lambda: list(BV.from_projection([y, z]).lh_v1_angle_pair)), F64, nt, 'bsv')
        sc = 0.1 + 5 * abs(math.sin(7 * h + 3 * v))
        sgn = -1.0 if (math.sin(13 * h - 5 * v) > 0.6) else 1.0     # also behind the base station (atan2 branches)
        p = [sgn * sc, sc * y, sc * z]
        check('LighthouseBsVector.from_cart', 'from_cart', p,
              run(lambda: list(BV.from_cart(p).lh_v1_angle_pair)), F64, nt, 'bsv')

    # ---- scipy hypothesis + Pose
    rvs = rotvecs(ctx, ctx.scale(400, 6000))
    mats = []
    for kind, r in rvs:
        nt = kind != 'identity'
        R = Rotation.from_rotvec(r).as_matrix()
        mats.append(R)
        check('scipy Rotation.from_rotvec(r).as_matrix() vs the Rodrigues matrix (Section hypothesis)', 'spec_rodrigues',
              r, list(R.ravel()), (0, 1e-12), nt, 'scipy_' + kind)
        check('Pose.from_rot_vec(r).rot_matrix vs Rodrigues', 'spec_rodrigues', r,
              run(lambda: list(Pose.from_rot_vec(r, [1, 2, 3]).rot_matrix.ravel())), (0, 1e-12), nt, 'scipy_' + kind)
        qv = E('spec_quat_of_rotvec', r)
        check('scipy Rotation.from_quat(u).as_matrix() vs quat_mat', 'spec_quat_mat', qv,
              run(lambda: list(Pose.from_quat(qv).rot_matrix.ravel())), (0, 1e-12), nt, 'scipy_' + kind)
        sc = ctx.rng.uniform(0.2, 5.0)          # from_quat normalises
        check('scipy Rotation.from_quat(k u) normalises', 'spec_quat_mat', qv,
              run(lambda: list(Pose.from_quat([sc * a for a in qv]).rot_matrix.ravel())), (0, 1e-12), nt, 'scipy_' + kind)
    # constructors / getters through the specification trees, incl. the boundary angles
    for kind, r in rvs:
        nt = kind != 'identity'
        t = _tvec(ctx)
        th = math.sqrt(sum(a * a for a in r))

        def flatp(pp):
            return list(pp.rot_matrix.ravel()) + list(pp.translation)
        check('Pose.from_rot_vec', 'pose_from_rot_vec', list(r) + t, run(lambda: flatp(Pose.from_rot_vec(r, t))), (0, 1e-12), nt, 'ctor_' + kind)
        check('LighthouseGeometrySolver._params_to_pose', 'solver_params_to_pose', list(r) + t,
              run(lambda: flatp(GS._params_to_pose(np.array(list(r) + t), LighthouseGeometrySolution()))), (0, 1e-12), nt, 'ctor_' + kind)
        qv = E('spec_quat_of_rotvec', r)
        k = ctx.rng.choice((1.0, -1.0, 0.3, -2.5, 0.5, 2.0, 1e-3, 1e3, -1e3))       # from_quat normalises
        check('Pose.from_quat (any multiple, antipodal)', 'pose_from_quat', [k * a for a in qv] + t,
              run(lambda: flatp(Pose.from_quat([k * a for a in qv], t))), (0, 1e-12), nt, 'ctor_' + kind)
        if th <= math.pi:
            # getters: rot_quat = +-(k sin(th/2), cos(th/2)); rot_vec = quat_to_rotvec of it (axis sign free at th = pi)
            P = Pose.from_rot_vec(r, t)
            got_q, got_r = run(lambda: list(P.rot_quat)), run(lambda: list(P.rot_vec))
            n_eval += 2
            dist['getter_' + kind] = dist.get('getter_' + kind, 0) + 2
            want_r = E('spec_quat_to_rotvec', qv)
            near = th > math.pi - 1e-3
            tol = 1e-6 if near else 1e-9
            okq = not isinstance(got_q, str) and min(max(abs(a - b) for a, b in zip(got_q, qv)),
                                                     max(abs(a + b) for a, b in zip(got_q, qv))) <= tol
            okr = not isinstance(got_r, str) and (max(abs(a - b) for a, b in zip(got_r, want_r)) <= tol or
                                                  (near and max(abs(a + b) for a, b in zip(got_r, want_r)) <= tol))
            okw = max(abs(a - b) for a, b in zip(want_r, r)) <= 1e-9          # C15_view_constructors_getters_inverse
            if not (okq and okr and okw) and len(dis) < 12:
                dis.append({'what': 'Pose.rot_quat / rot_vec differ from quat_of_rotvec / quat_to_rotvec (specification '
                                    'trees of the getters)', 'function': 'spec_quat_to_rotvec', 'input': list(r),
                            'model': [qv, want_r], 'impl': [got_q, got_r]})
    for q in _INT_QUATS:                      # integer-valued, non-unit quaternions
        qf, t = [float(a) for a in q], _tvec(ctx)
        check('Pose.from_quat (non-unit integer quaternion)', 'pose_from_quat', qf + t,
              run(lambda: list(Pose.from_quat(qf, t).rot_matrix.ravel()) + list(Pose.from_quat(qf, t).translation)),
              (0, 1e-12), True, 'ctor_nonunit_quat')
    for name in ('from_rot_vec', 'from_quat'):
        P = run(lambda: getattr(Pose, name)())
        check('Pose.%s() default' % name, 'pose_%s_default' % name, [],
              P if isinstance(P, str) else list(P.rot_matrix.ravel()) + list(P.translation), (0, 0), False, 'pose')
    o = Pose()
    check('Pose() default', 'pose_default', [], list(o.rot_matrix.ravel()) + list(o.translation), (0, 0), False, 'pose')
    for i, (kind, r) in enumerate(rvs):
        nt = kind != 'identity'
        R, t = mats[i], _tvec(ctx)
        j = ctx.rng.randrange(len(rvs))
        R2, t2 = mats[j], _tvec(ctx)
        x = _tvec(ctx, 5.0)
        P, Q = Pose(R, t), Pose(R2, t2)
        envP = list(R.ravel()) + t
        envQ = list(R2.ravel()) + t2
        check('Pose(R,t) stores R,t', 'pose_fields', envP, list(P.rot_matrix.ravel()) + list(P.translation), (0, 0), nt, 'pose')
        kk = ctx.rng.choice((1.0, 0.5, 2.0, ctx.rng.uniform(0.1, 5.0)))

        def scaled():
            S2 = Pose(R, t)
            ret = S2.scale(kk)
            assert ret is None
            return list(S2.rot_matrix.ravel()) + list(S2.translation)
        check('Pose.scale', 'pose_scale', envP + [kk], run(scaled), F64, nt, 'pose')
        check('Pose.matrix_vec', 'pose_matrix_vec', envP,
              run(lambda: list(P.matrix_vec[0].ravel()) + list(P.matrix_vec[1])), (0, 0), nt, 'pose')
        check('Pose.rotate_translate', 'pose_rotate_translate', envP + x, run(lambda: list(P.rotate_translate(x))), F64, nt, 'pose')
        check('Pose.inv_rotate_translate', 'pose_inv_rotate_translate', envP + x,
              run(lambda: list(P.inv_rotate_translate(x))), F64, nt, 'pose')

        def flat(pp):
            return list(pp.rot_matrix.ravel()) + list(pp.translation)
        check('Pose.rotate_translate_pose', 'pose_rotate_translate_pose', envP + envQ,
              run(lambda: flat(P.rotate_translate_pose(Q))), F64, nt, 'pose')
        check('Pose.inv_rotate_translate_pose', 'pose_inv_rotate_translate_pose', envP + envQ,
              run(lambda: flat(P.inv_rotate_translate_pose(Q))), F64, nt, 'pose')

    # ---- geometry solver, vectorised: whole batches through the real functions, rows compared one by one
    defs = LighthouseGeometrySolution()
    n = len(rvs)
    pts3 = np.array([_tvec(ctx, 2.0) for _ in range(n)])
    rv = np.array([r for _, r in rvs])
    tr = np.array([_tvec(ctx) for _ in range(n)])
    with warnings.catch_warnings():
        warnings.simplefilter('ignore')
        snap = (pts3.copy(), rv.copy(), tr.copy())
        out = run(lambda: GS._rotate_translate(pts3, rv, tr))
    if not all(np.array_equal(a, b) for a, b in zip(snap, (pts3, rv, tr))):
        dis.append({'what': 'LighthouseGeometrySolver._rotate_translate modifies its argument arrays (the translated '
                            'trees are pure functions)', 'function': 'solver_rotate_translate'})
        pts3, rv, tr = (a.copy() for a in snap)
    for i in range(n):
        check('LighthouseGeometrySolver._rotate_translate (row %d of a batch of %d)' % (i, n), 'solver_rotate_translate',
              list(pts3[i]) + list(rv[i]) + list(tr[i]), out if isinstance(out, str) else list(out[i]), F64,
              rvs[i][0] != 'identity', 'solver_' + rvs[i][0])
    perm = list(range(n))
    ctx.rng.shuffle(perm)
    bs = np.hstack((rv, tr))
    cf = np.hstack((rv[perm], np.array([_tvec(ctx, 1.0) for _ in range(n)])))
    bs[:, 3] -= 4.0                # base stations a few metres behind the origin: most sensors in front of them
    sens = np.array([[ctx.rng.uniform(-0.02, 0.02), ctx.rng.uniform(-0.02, 0.02), 0.0] for _ in range(n)])
    with warnings.catch_warnings():
        warnings.simplefilter('ignore')
        snap = (bs.copy(), cf.copy(), sens.copy())
        out = run(lambda: GS._calc_angle_pairs(bs, cf, sens, defs))
    if not all(np.array_equal(a, b) for a, b in zip(snap, (bs, cf, sens))):
        dis.append({'what': 'LighthouseGeometrySolver._calc_angle_pairs modifies its argument arrays (the translated '
                            'trees are pure functions)', 'function': 'solver_calc_angle_pairs'})
        bs, cf, sens = (a.copy() for a in snap)
    for i in range(n):
        env = list(bs[i]) + list(cf[i]) + list(sens[i])
        kind = rvs[i][0] + '+' + rvs[perm[i]][0]
        # atan2 is ill-conditioned only where both arguments vanish; keep the comparison at 1e-9
        check('LighthouseGeometrySolver._calc_angle_pairs (row %d of a batch of %d)' % (i, n), 'solver_calc_angle_pairs',
              env, out if isinstance(out, str) else list(out[i]), (1e-9, 1e-9), kind != 'identity+identity', 'solver_pairs')

    idx = np.array([ctx.rng.randrange(n) for _ in range(n)])
    idx_c = np.array([ctx.rng.randrange(n) for _ in range(n)])
    idx_s = np.array([ctx.rng.randrange(n) for _ in range(n)])
    with warnings.catch_warnings():
        warnings.simplefilter('ignore')
        out2 = run(lambda: GS._poses_to_angle_pairs(bs, cf, sens, idx, idx_c, idx_s, defs))
    for i in range(n):
        env = list(bs[idx[i]]) + list(cf[idx_c[i]]) + list(sens[idx_s[i]])
        check('LighthouseGeometrySolver._poses_to_angle_pairs (row %d, index arrays)' % i, 'solver_poses_to_angle_pairs',
              env, out2 if isinstance(out2, str) else list(out2[i]), (1e-9, 1e-9), True, 'solver_pairs')

    # ---- LighthouseBsVectors list helpers
    from cflib.localization.lighthouse_bs_vector import LighthouseBsVectors
    for j in range(0, min(len(pts), ctx.scale(400, 4000)) - 4, 4):
        four = pts[j:j + 4]
        lst = LighthouseBsVectors([BV(h, v) for h, v in four])
        pl, al = run(lambda: lst.projection_pair_list()), run(lambda: lst.angle_list())
        for m_, (h, v) in enumerate(four):
            check('LighthouseBsVectors.projection_pair_list (row %d)' % m_, 'bsvs_projection_pair_row', [h, v],
                  pl if isinstance(pl, str) else list(pl[m_]), F32, True, 'bsv_f32')
            check('LighthouseBsVectors.angle_list (entries %d, %d)' % (2 * m_, 2 * m_ + 1), 'bsvs_angle_list_row', [h, v],
                  al if isinstance(al, str) else list(al[2 * m_:2 * m_ + 2]), (0, 0), True, 'bsv')

    # ---- ippe_cf.py
    check('IppeCf._R_ippe_to_cf', 'ippe_R_ippe_to_cf', [], list(IppeCf._R_ippe_to_cf.ravel()), (0, 0), True, 'ippe')
    check('IppeCf._R_cf_to_ippe', 'ippe_R_cf_to_ippe', [], list(IppeCf._R_cf_to_ippe.ravel()), (0, 0), True, 'ippe')
    for i in range(ctx.scale(40, 400)):
        x = _tvec(ctx, 5.0)
        check('IppeCf._rotate_vector_to_ippe', 'ippe_rotate_vector_to_ippe', x,
              run(lambda: list(IppeCf._rotate_vector_to_ippe(np.array(x)))), (0, 0), True, 'ippe')
        check('IppeCf._rotate_vector_to_cf', 'ippe_rotate_vector_to_cf', x,
              run(lambda: list(IppeCf._rotate_vector_to_cf(np.array(x)))), (0, 0), True, 'ippe')
        R = mats[i % len(mats)]
        check('IppeCf._rotate_rot_mat_to_cf', 'ippe_rotate_rot_mat_to_cf', list(R.ravel()),
              run(lambda: list(IppeCf._rotate_rot_mat_to_cf(R).ravel())), (0, 1e-15), True, 'ippe')
    N = 7
    U = np.array([_tvec(ctx, 1.0) for _ in range(N)])
    Qm = np.array([[ctx.rng.uniform(-2, 2), ctx.rng.uniform(-2, 2)] for _ in range(N)])
    res = run(lambda: IppeCf._cf_to_ippe(U, Qm))
    for i in range(N):
        impl = res if isinstance(res, str) else list(res[0][:, i]) + list(res[1][:, i])
        check('IppeCf._cf_to_ippe (column %d)' % i, 'ippe_cf_to_ippe_row', list(U[i]) + list(Qm[i]), impl, (0, 0), True, 'ippe')

    return {
        'evaluations': n_eval,
        'distinct_nontrivial': len(nontriv),
        'rule': 'each evaluation compares one translated function (tree evaluated with the math module) with the real '
                'cflib/numpy/scipy function on one input; non-trivial = both angles non-zero / rotation not the identity; '
                'tolerance 1e-9 rel (float64), 1e-5 rel (float32 cart/projection), 1e-12 abs for rotation matrices',
        'samples': [{'fn': 'lh_v2_angle_1', 'h_v': list(pts[3]), 'tree': E('lh_v2_angle_1', list(pts[3]))},
                    {'fn': 'spec_rodrigues', 'r': rvs[-1][1], 'tree': E('spec_rodrigues', rvs[-1][1])[:3]},
                    {'fn': 'solver_calc_angle_pairs', 'env': [float(a) for a in list(bs[1]) + list(cf[1]) + list(sens[1])],
                     'impl': None if isinstance(out, str) else [float(a) for a in out[1]]}],
        'distribution': dict(dist, fov_points=len(pts), rotation_vectors=len(rvs), distinct_inputs=len(keys),
                             translator=_state.get('info')),
        'exhaustive': False,
        'disagreements': dis,
    }


# ------------------------------------------------------------------------------------------ oracle (property text)
def _fail(fails, cls, case, expected, observed, detail):
    if sum(1 for f in fails if f['class'] == cls) < 3:
        fails.append({'class': cls, 'case': case, 'expected': expected, 'observed': observed, 'detail': detail})


def _oracle_bsv(h, v, fails):
    from cflib.localization.lighthouse_bs_vector import LighthouseBsVector as BV
    import numpy as np
    case = {'fn': 'bsv', 'h': h, 'v': v}
    try:
        b = BV(h, v)
        a1, a2 = b.lh_v2_angle_1, b.lh_v2_angle_2
        r = BV.from_lh2(a1, a2)
        if _cmp_list([r.lh_v1_horiz_angle, r.lh_v1_vert_angle], [h, v], *F64) is not None:
            _fail(fails, 'v1_v2_roundtrip', case, [h, v], [r.lh_v1_horiz_angle, r.lh_v1_vert_angle],
                  'from_lh2(lh_v2_angle_1, lh_v2_angle_2) must give back the V1 angles')
        if _cmp_list([r.lh_v2_angle_1, r.lh_v2_angle_2], [a1, a2], *F64) is not None:
            _fail(fails, 'v2_v1_roundtrip', case, [a1, a2], [r.lh_v2_angle_1, r.lh_v2_angle_2],
                  'V2 -> V1 -> V2 must give back the V2 angles')
        c = b.cart
        nrm = math.sqrt(sum(float(x) ** 2 for x in c))
        if not _close(nrm, 1.0, 1e-5, 0) or len(c) != 3 or not float(c[0]) > 0:
            _fail(fails, 'cart_not_unit', case, 1.0, [nrm, [float(x) for x in c]], 'cart must be a unit vector pointing forward')
        r = BV.from_cart(c)
        if _cmp_list(list(r.lh_v1_angle_pair), [h, v], *F32) is not None:
            _fail(fails, 'cart_roundtrip', case, [h, v], list(r.lh_v1_angle_pair), 'from_cart(cart) must give back the angles')
        pr = b.projection
        r = BV.from_projection(pr)
        if _cmp_list(list(r.lh_v1_angle_pair), [h, v], *F32) is not None:
            _fail(fails, 'projection_roundtrip', case, [h, v], list(r.lh_v1_angle_pair),
                  'from_projection(projection) must give back the angles')
        if _cmp_list([float(c[1]) / float(c[0]), float(c[2]) / float(c[0])], [float(pr[0]), float(pr[1])], *F32) is not None:
            _fail(fails, 'projection_vs_cart', case, [float(x) for x in pr], [float(c[1] / c[0]), float(c[2] / c[0])],
                  'projection must be the Cartesian direction scaled to x = 1')
        r2 = BV.from_projection(BV.from_projection(pr).projection)
        if _cmp_list(list(r2.lh_v1_angle_pair), [h, v], *F32) is not None:
            _fail(fails, 'projection_roundtrip', case, [h, v], list(r2.lh_v1_angle_pair), 'projection round trip twice')
    except Exception as e:  # noqa
        _fail(fails, 'bsv_raises', case, 'no exception inside the field of view', repr(e), 'conversion raised')
    return 7


def _pose_dist(P, Q):
    import numpy as np
    return max(float(np.max(np.abs(P.rot_matrix - Q.rot_matrix))), float(np.max(np.abs(P.translation - Q.translation))))


def _oracle_pose(kind, r, t, r2, t2, r3, t3, x, fails):
    import numpy as np
    from cflib.localization.lighthouse_types import Pose
    case = {'fn': 'pose', 'kind': kind, 'r': r, 't': t, 'r2': r2, 't2': t2, 'r3': r3, 't3': t3, 'x': x}
    tol = 1e-9
    n = 0
    try:
        P, Q, S = Pose.from_rot_vec(r, t), Pose.from_rot_vec(r2, t2), Pose.from_rot_vec(r3, t3)
        xa = np.array(x)
        sc = 1.0 + float(np.max(np.abs(xa))) + max(abs(a) for a in t + t2 + t3)
        d = max(float(np.max(np.abs(P.inv_rotate_translate(P.rotate_translate(xa)) - xa))),
                float(np.max(np.abs(P.rotate_translate(P.inv_rotate_translate(xa)) - xa))),
                _pose_dist(P.inv_rotate_translate_pose(P.rotate_translate_pose(Q)), Q),
                _pose_dist(P.rotate_translate_pose(P.inv_rotate_translate_pose(Q)), Q))
        if not d <= tol * sc:
            _fail(fails, 'pose_inverse', case, 0.0, d, 'inverse must undo forward (points and poses)')
        d = _pose_dist(P.rotate_translate_pose(Q).rotate_translate_pose(S), P.rotate_translate_pose(Q.rotate_translate_pose(S)))
        if not d <= tol * sc:
            _fail(fails, 'pose_assoc', case, 0.0, d, 'pose composition must be associative')
        d = max(float(np.max(np.abs(P.rotate_translate_pose(Q).rotate_translate(xa) - P.rotate_translate(Q.rotate_translate(xa))))),
                float(np.max(np.abs(P.inv_rotate_translate_pose(Q).rotate_translate(xa)
                                    - P.inv_rotate_translate(Q.rotate_translate(xa))))))
        if not d <= tol * sc:
            _fail(fails, 'pose_sequential', case, 0.0, d, 'composition must match sequential application')
        # views of one pose
        R = P.rot_matrix
        d = max(float(np.max(np.abs(R.T @ R - np.identity(3)))), abs(float(np.linalg.det(R)) - 1.0))
        if not d <= tol:
            _fail(fails, 'views_disagree', case, 0.0, d, 'rotation matrix of a pose must be orthogonal with det 1')
        rv, q = P.rot_vec, P.rot_quat
        d = max(float(np.max(np.abs(Pose.from_rot_vec(rv, t).rot_matrix - R))),
                float(np.max(np.abs(Pose.from_quat(q, t).rot_matrix - R))),
                float(np.max(np.abs(Pose.from_quat(-q, t).rot_matrix - R))),
                abs(float(np.linalg.norm(q)) - 1.0))
        if not d <= tol:
            _fail(fails, 'views_disagree', case, 0.0, d, 'rot_vec / rot_quat views must describe the same rotation as rot_matrix')
        th = math.sqrt(sum(a * a for a in r))
        if th < math.pi - 1e-3:
            d = float(np.max(np.abs(rv - np.array(r))))
            if not d <= tol:
                _fail(fails, 'views_disagree', case, r, [float(a) for a in rv], 'rot_vec of from_rot_vec(r) must be r for |r| < pi')
            qe = np.array([(a / th if th else 0.0) * math.sin(th / 2) for a in r] + [math.cos(th / 2)])
            d = min(float(np.max(np.abs(q - qe))), float(np.max(np.abs(q + qe))))
            if not d <= tol:
                _fail(fails, 'views_disagree', case, [float(a) for a in qe], [float(a) for a in q],
                      'rot_quat must be +-(axis sin(th/2), cos(th/2))')
        n = 9
    except Exception as e:  # noqa
        _fail(fails, 'pose_raises', case, 'no exception', repr(e), 'pose operation raised')
    return n


def _types_angle_pair(bs6, cf6, s):
    """the projection defined by the types: Pose + LighthouseBsVector.from_cart"""
    from cflib.localization.lighthouse_types import Pose
    from cflib.localization.lighthouse_bs_vector import LighthouseBsVector as BV
    pose_bs = Pose.from_rot_vec(R_vec=bs6[:3], t_vec=bs6[3:])
    pose_cf = Pose.from_rot_vec(R_vec=cf6[:3], t_vec=cf6[3:])
    p = pose_bs.inv_rotate_translate(pose_cf.rotate_translate(s))
    return list(BV.from_cart(p).lh_v1_angle_pair), [float(a) for a in p]


def _oracle_paths(rows, fails, batch=True):
    """rows: list of (kind, bs6, cf6, s).  The solver path is run vectorised over all rows at once."""
    import numpy as np
    from cflib.localization.lighthouse_geometry_solver import LighthouseGeometrySolver as GS
    from cflib.localization.lighthouse_geometry_solver import LighthouseGeometrySolution
    defs = LighthouseGeometrySolution()
    bs = np.array([r[1] for r in rows], dtype=float)
    cf = np.array([r[2] for r in rows], dtype=float)
    ss = np.array([r[3] for r in rows], dtype=float)
    try:
        with warnings.catch_warnings():
            warnings.simplefilter('ignore')
            got = GS._calc_angle_pairs(bs, cf, ss, defs)
    except Exception as e:  # noqa
        _fail(fails, 'paths_raises', {'fn': 'paths', 'rows': [[k, list(map(float, a)), list(map(float, b)), list(map(float, c))]
                                                                for k, a, b, c in rows[:3]]},
              'no exception', repr(e), '_calc_angle_pairs raised')
        return len(rows)
    for i, (kind, b6, c6, s) in enumerate(rows):
        case = {'fn': 'paths', 'kind': kind, 'bs': [float(a) for a in b6], 'cf': [float(a) for a in c6], 's': [float(a) for a in s]}
        try:
            exp, p = _types_angle_pair(np.array(b6, dtype=float), np.array(c6, dtype=float), np.array(s, dtype=float))
        except Exception as e:  # noqa
            _fail(fails, 'paths_raises', case, 'no exception', repr(e), 'Pose path raised')
            continue
        # atan2(y, x) is ill-conditioned only where x and y both vanish: skip those rows
        if math.hypot(p[0], p[1]) < 1e-4 or math.hypot(p[0], p[2]) < 1e-4:
            continue
        o = [float(a) for a in got[i]]
        bad = False
        for a, e in zip(o, exp):
            dd = abs(a - e)
            dd = min(dd, abs(dd - 2 * math.pi))          # the same direction across the +-pi cut
            if not dd <= 1e-9:
                bad = True
        if bad:
            nb = max(abs(a) for a in b6[:3])
            nc = max(abs(a) for a in c6[:3])
            under = (0 < nb < 1e-150) or (0 < nc < 1e-150)      # |r|^2 underflows in float64 although r != 0
            zero = nb == 0 or nc == 0
            cls = 'projection_paths_rotvec_norm_underflow' if under else (
                'projection_paths_disagree_zero_rotation' if zero else 'projection_paths_disagree')
            _fail(fails, cls, case, exp, o, 'solver._calc_angle_pairs must equal Pose/from_cart projection')
    return len(rows)


def _path_rows(ctx, n_rand, with_underflow=True):
    rvs = rotvecs(ctx, n_rand)
    rows = []
    sensors = [(-0.015, 0.0075, 0.0), (-0.015, -0.0075, 0.0), (0.015, 0.0075, 0.0), (0.015, -0.0075, 0.0)]
    for i, (kind, r) in enumerate(rvs):
        kind2, r2 = rvs[ctx.rng.randrange(len(rvs))]
        bs_t = [ctx.rng.uniform(-4, -1), ctx.rng.uniform(-2, 2), ctx.rng.uniform(0.5, 3)]
        cf_t = [ctx.rng.uniform(-1, 1), ctx.rng.uniform(-1, 1), ctx.rng.uniform(0, 1)]
        rows.append((kind + '+' + kind2, list(r) + bs_t, list(r2) + cf_t, list(sensors[i % 4])))
    z = [0.0, 0.0, 0.0]
    for k in range(4):
        rows.append(('identity+identity', z + [-2.0, 0.3 * k, 1.0], z + [0.1, 0.2, 0.3], list(sensors[k])))
        rows.append(('identity+random', z + [-2.0, 0.3 * k, 1.0], rvs[-1 - k][1] + [0.1, 0.2, 0.3], list(sensors[k])))
        rows.append(('random+identity', rvs[-1 - k][1] + [-2.0, 0.3 * k, 1.0], z + [0.1, 0.2, 0.3], list(sensors[k])))
    if with_underflow:
        # rotation vectors whose norm underflows in float64 although the vector is not zero (tiny angles)
        for mag in (1e-160, 1e-200, 1e-300):
            rows.append(('underflow+identity', [mag, 0.0, 0.0, -2.0, 0.1, 1.0], z + [0.1, 0.2, 0.3], list(sensors[0])))
            rows.append(('identity+underflow', z + [-2.0, 0.1, 1.0], [0.0, mag, mag, 0.1, 0.2, 0.3], list(sensors[1])))
    return rows


def _oracle_ippe(ctx, n, fails):
    import numpy as np
    from cflib.localization.ippe_cf import IppeCf
    from scipy.spatial.transform import Rotation
    cnt = 0
    for i in range(n):
        v = np.array(_tvec(ctx, 5.0))
        case = {'fn': 'ippe', 'v': [float(a) for a in v]}
        try:
            back = IppeCf._rotate_vector_to_cf(IppeCf._rotate_vector_to_ippe(v))
            back2 = IppeCf._rotate_vector_to_ippe(IppeCf._rotate_vector_to_cf(v))
            if not (np.array_equal(back, v) and np.array_equal(back2, v)):
                _fail(fails, 'ippe_permutation', case, [float(a) for a in v], [float(a) for a in back],
                      'CF -> IPPE -> CF must be the identity')
            # a point in front of the camera: CF x forward  <->  IPPE z forward, image coordinates negated
            p = np.array([abs(v[0]) + 0.5, v[1], v[2]])
            U, Q = IppeCf._cf_to_ippe(np.array([p]), np.array([[p[1] / p[0], p[2] / p[0]]]))
            if not (U.shape == (3, 1) and Q.shape == (2, 1) and abs(U[2, 0] - p[0]) == 0 and
                    abs(U[0, 0] / U[2, 0] - Q[0, 0]) <= 1e-15 and abs(U[1, 0] / U[2, 0] - Q[1, 0]) <= 1e-15):
                _fail(fails, 'ippe_permutation', dict(case, p=[float(a) for a in p]), 'pinhole image of the converted point',
                      [U.ravel().tolist(), Q.ravel().tolist()], 'converted image point must be the pinhole image of the converted point')
            # solution transfer
            R = Rotation.from_rotvec(_tvec(ctx, 1.5)).as_matrix()
            t = np.array(_tvec(ctx, 2.0))
            sol = IppeCf._ippe_to_cf({'R1': R, 't1': t, 'reprojError1': 0.0, 'R2': R.T, 't2': -t, 'reprojError2': 1.0})
            u = np.array(_tvec(ctx, 1.0))
            want = IppeCf._rotate_vector_to_cf(R @ IppeCf._rotate_vector_to_ippe(u) + t)
            have = sol[0].R @ u + sol[0].t
            if not float(np.max(np.abs(want - have))) <= 1e-12:
                _fail(fails, 'ippe_permutation', case, [float(a) for a in want], [float(a) for a in have],
                      'converted solution must map CF points like the IPPE solution maps their images')
            cnt += 3
        except Exception as e:  # noqa
            _fail(fails, 'ippe_raises', case, 'no exception', repr(e), 'ippe conversion raised')
    return cnt


def _oracle_ippe_solve(ctx, n, fails):
    """end to end: the axis conversions around the IPPE solver recover a known planar pose (reprojection)."""
    import numpy as np
    from cflib.localization.ippe_cf import IppeCf
    from cflib.localization.lighthouse_types import Pose, LhDeck4SensorPositions
    cnt = 0
    for i in range(n):
        r = [ctx.rng.uniform(-0.6, 0.6) for _ in range(3)]
        t = [ctx.rng.uniform(1.0, 4.0), ctx.rng.uniform(-1, 1), ctx.rng.uniform(-1, 1)]
        case = {'fn': 'ippe_solve', 'r': r, 't': t}
        try:
            P = Pose.from_rot_vec(r, t)
            U = LhDeck4SensorPositions.positions
            pts = np.array([P.rotate_translate(u) for u in U])
            Q = np.array([[p[1] / p[0], p[2] / p[0]] for p in pts])
            with warnings.catch_warnings():
                warnings.simplefilter('ignore')
                sols = IppeCf.solve(U, Q)
            best = None
            for s in sols:
                tt = np.array(s.t).ravel()
                pp = np.array([s.R @ u + tt for u in U])
                err = float(np.max(np.abs(np.array([[p[1] / p[0], p[2] / p[0]] for p in pp]) - Q)))
                best = err if best is None else min(best, err)
            if not best <= 1e-6:
                _fail(fails, 'ippe_solve_reprojection', case, 0.0, best, 'IppeCf.solve must reproduce the image points')
            cnt += 1
        except Exception as e:  # noqa
            _fail(fails, 'ippe_raises', case, 'no exception', repr(e), 'IppeCf.solve raised')
    return cnt


def _oracle_defaults(fails):
    """the three constructors without arguments describe the identity pose"""
    import numpy as np
    from cflib.localization.lighthouse_types import Pose
    n = 0
    for name in ('Pose', 'from_rot_vec', 'from_quat'):
        case = {'fn': 'default_pose', 'ctor': name}
        n += 1
        try:
            P = Pose() if name == 'Pose' else getattr(Pose, name)()
            ok = np.array_equal(P.rot_matrix, np.identity(3)) and np.array_equal(P.translation, np.zeros(3))
            if not ok:
                _fail(fails, 'default_pose_not_identity', case, 'identity', [P.rot_matrix.tolist(), P.translation.tolist()],
                      'a pose built without arguments must be the identity in every view')
        except Exception as e:  # noqa
            _fail(fails, 'default_pose_' + name + '_raises', case, 'identity pose', repr(e),
                  'Pose.%s() with its default arguments must be the identity pose' % name)
    return n


def _oracle_vector_lists(ctx, n, fails):
    """LighthouseBsVectors.angle_list / projection_pair_list: same order (horizontal, vertical) per sensor as the
    solver's raveled angle pairs"""
    import numpy as np
    from cflib.localization.lighthouse_bs_vector import LighthouseBsVector as BV, LighthouseBsVectors
    cnt = 0
    for _ in range(n):
        hv = [(ctx.rng.uniform(-H_MAX, H_MAX) * D2R, ctx.rng.uniform(-V_MAX, V_MAX) * D2R) for _ in range(4)]
        case = {'fn': 'vector_lists', 'hv': hv}
        try:
            vs = LighthouseBsVectors([BV(h, v) for h, v in hv])
            al = [float(a) for a in vs.angle_list()]
            want = [a for h, v in hv for a in (h, v)]
            pl = vs.projection_pair_list()
            wantp = [[math.tan(h), math.tan(v)] for h, v in hv]
            ok = al == want and pl.shape == (4, 2) and all(
                _cmp_list(list(pl[i]), wantp[i], *F32) is None for i in range(4))
            if not ok:
                _fail(fails, 'vector_lists_order', case, [want, wantp], [al, pl.tolist()],
                      'angle_list/projection_pair_list must list (horizontal, vertical) per sensor in order')
            cnt += 2
        except Exception as e:  # noqa
            _fail(fails, 'bsv_raises', case, 'no exception', repr(e), 'LighthouseBsVectors raised')
    return cnt


def _oracle_solver_reuse(ctx, n_scenes, fails):
    """the solver's projection called the way the solver uses it: ONE Crazyflie parameter array and ONE sensor
    array reused for several base stations and for repeated calls (every least-squares iteration calls
    _calc_residual with the same arrays).  Every call must equal the Pose + from_cart projection and no argument
    may be modified.  Also _rotate_translate twice on the same arrays, _poses_to_angle_pairs with index arrays and
    _calc_residual (= 0 for exact target angles), _params_to_pose/_pose_to_params round trip."""
    import numpy as np
    from cflib.localization.lighthouse_geometry_solver import LighthouseGeometrySolver as GS
    from cflib.localization.lighthouse_geometry_solver import LighthouseGeometrySolution
    from cflib.localization.lighthouse_types import LhDeck4SensorPositions, Pose
    defs = LighthouseGeometrySolution()
    S = np.array(LhDeck4SensorPositions.positions, dtype=float)
    N = S.shape[0]
    cnt = 0
    rv_all = rotvecs(ctx, 3 * n_scenes)
    for sc in range(n_scenes):
        kcf, rcf = rv_all[ctx.rng.randrange(len(rv_all))]
        cf6 = list(rcf) + [ctx.rng.uniform(-1, 1), ctx.rng.uniform(-1, 1), ctx.rng.uniform(0, 1)]
        bss = []
        for b in range(ctx.rng.choice((2, 3, 4))):
            kb, rb = rv_all[ctx.rng.randrange(len(rv_all))]
            bss.append((kb, list(rb) + [ctx.rng.uniform(-4, -1.5), ctx.rng.uniform(-2, 2), ctx.rng.uniform(0.5, 3)]))
        case = {'fn': 'solver_reuse', 'cf': cf6, 'bs': [b for _, b in bss], 'kinds': [kcf] + [k for k, _ in bss]}
        cnt += 2 * len(bss) + 4
        for f in _solver_reuse_case(case, np, GS, defs, S, N, Pose):
            _fail(fails, f[0], case, f[1], f[2], f[3])
    return cnt


def _solver_reuse_case(case, np, GS, defs, S, N, Pose):
    """returns a list of (class, expected, observed, detail): at most one argument-mutation report and the first
    disagreement (the run continues with the arrays as the code left them, as the solver would)"""
    out = []
    try:
        f = _solver_reuse_run(case, np, GS, defs, S, N, Pose, out)
        if f:
            out.append(f)
    except Exception as e:  # noqa
        out.append(('paths_raises', 'no exception', repr(e), 'solver projection raised'))
    return out


def _solver_reuse_run(case, np, GS, defs, S, N, Pose, out):
    cf6 = np.array(case['cf'], dtype=float)
    mutated = []
    if True:
        cf_params = np.tile(cf6, (N, 1))            # built once, reused for every base station and every call
        cf_orig = cf_params.copy()
        sens = S.copy()
        exp_all = []
        for rnd in range(2):                         # two sweeps over the base stations = two solver iterations
            for bi, b6 in enumerate(case['bs']):
                b6 = np.array(b6, dtype=float)
                bs_params = np.tile(b6, (N, 1))
                bs_orig = bs_params.copy()
                with warnings.catch_warnings():
                    warnings.simplefilter('ignore')
                    got = GS._calc_angle_pairs(bs_params, cf_params, sens, defs)
                if not mutated and not (np.array_equal(cf_params, cf_orig) and np.array_equal(bs_params, bs_orig)
                                        and np.array_equal(sens, S)):
                    mutated.append(1)
                    out.append(('solver_mutates_arguments', {'cf': cf_orig[0].tolist(), 'bs': bs_orig[0].tolist()},
                                {'cf': cf_params[0].tolist(), 'bs': bs_params[0].tolist(), 'call': [rnd, bi]},
                                '_calc_angle_pairs must not modify the parameter arrays it is given (they are reused)'))
                for i in range(N):
                    exp, p = _types_angle_pair(b6, cf6, S[i])
                    if math.hypot(p[0], p[1]) < 1e-4 or math.hypot(p[0], p[2]) < 1e-4:
                        continue
                    for a, e in zip(got[i], exp):
                        dd = abs(float(a) - e)
                        if not min(dd, abs(dd - 2 * math.pi)) <= 1e-9:
                            return ('projection_paths_disagree_on_reuse' if (rnd, bi) != (0, 0) else 'projection_paths_disagree',
                                    exp, [float(x) for x in got[i]],
                                    'call %d/base station %d with the same Crazyflie array: solver projection must equal '
                                    'the Pose/from_cart projection' % (rnd, bi))
        # the building block twice on the same arrays
        rot = np.tile(cf6[:3], (N, 1))
        tr = np.tile(cf6[3:], (N, 1))
        rot0, tr0 = rot.copy(), tr.copy()
        P = Pose.from_rot_vec(cf6[:3], cf6[3:])
        want = np.array([P.rotate_translate(x) for x in S])
        for k in range(2):
            with warnings.catch_warnings():
                warnings.simplefilter('ignore')
                pts = GS._rotate_translate(sens, rot, tr)
            if not mutated and not (np.array_equal(rot, rot0) and np.array_equal(tr, tr0) and np.array_equal(sens, S)):
                mutated.append(1)
                out.append(('solver_mutates_arguments', rot0[0].tolist(), rot[0].tolist(),
                            '_rotate_translate must not modify its arguments'))
            if not float(np.max(np.abs(pts - want))) <= 1e-9 * (1 + float(np.max(np.abs(want)))):
                return ('projection_paths_disagree_on_reuse' if k else 'projection_paths_disagree', want.tolist(), pts.tolist(),
                        '_rotate_translate call %d must equal Pose.rotate_translate' % (k + 1))
        # the solver's own entry points: index arrays, residual for exact target angles, twice
        nb = len(case['bs'])
        defs2 = type(defs)()
        defs2.n_bss, defs2.n_cfs, defs2.n_cfs_in_params, defs2.n_sensors = nb, 2, 1, N
        bs_arr = np.array(case['bs'], dtype=float)
        idx_bs = np.repeat(np.arange(nb), N)
        idx_bs = np.concatenate((idx_bs, idx_bs))
        idx_cf = np.concatenate((np.zeros(nb * N, dtype=int), np.ones(nb * N, dtype=int)))
        idx_s = np.tile(np.arange(N), 2 * nb)
        cfs_full = np.array([[0.0] * 6, list(cf6)])
        target, well = [], []
        for j in range(len(idx_bs)):
            exp, p = _types_angle_pair(bs_arr[idx_bs[j]], cfs_full[idx_cf[j]], S[idx_s[j]])
            target += exp
            well += [math.hypot(p[0], p[1]) >= 1e-4, math.hypot(p[0], p[2]) >= 1e-4]   # atan2 well conditioned
        target, well = np.array(target), np.array(well)
        params = np.hstack((bs_arr.ravel(), cf6))
        params0 = params.copy()
        for k in range(2):
            with warnings.catch_warnings():
                warnings.simplefilter('ignore')
                res = GS._calc_residual(params, defs2, idx_bs, idx_cf, idx_s, target, S)
            if not mutated and not np.array_equal(params, params0):
                mutated.append(1)
                out.append(('solver_mutates_arguments', params0.tolist(), params.tolist(), '_calc_residual must not modify params'))
            bad = float(np.max(np.abs(res[well]))) if well.any() else 0.0      # tan(diff) * distance, metres
            if not bad <= 1e-8:
                return ('projection_paths_disagree_on_reuse' if k else 'projection_paths_disagree', 0.0, bad,
                        '_calc_residual call %d must vanish when the target angles are the Pose/from_cart angles' % (k + 1))
        # parameter <-> Pose conversion
        th = float(np.linalg.norm(cf6[:3]))
        if th < math.pi - 1e-3:
            back = GS._pose_to_params(GS._params_to_pose(cf6, defs))
            if not float(np.max(np.abs(back - cf6))) <= 1e-9:
                return ('views_disagree', cf6.tolist(), back.tolist(), '_pose_to_params(_params_to_pose(p)) must be p for |r| < pi')
    return None


def _oracle_pose_misc(ctx, n, fails):
    """Pose.scale, matrix_vec, and: no Pose method modifies its arguments"""
    import numpy as np
    from cflib.localization.lighthouse_types import Pose
    from scipy.spatial.transform import Rotation
    cnt = 0
    for _ in range(n):
        r, t, x, k = _tvec(ctx, 1.5), _tvec(ctx), _tvec(ctx, 5.0), ctx.rng.uniform(0.1, 4.0)
        case = {'fn': 'pose_misc', 'r': r, 't': t, 'x': x, 'k': k}
        try:
            R = Rotation.from_rotvec(r).as_matrix()
            R0, t0, x0 = R.copy(), np.array(t), np.array(x)
            ta, xa = t0.copy(), x0.copy()
            P = Pose(R, ta)
            Q = Pose(R.T.copy(), xa.copy())
            Rm, tv = P.matrix_vec
            ok = np.array_equal(Rm, R0) and np.array_equal(tv, t0)
            P.rotate_translate(xa); P.inv_rotate_translate(xa); P.rotate_translate_pose(Q); P.inv_rotate_translate_pose(Q)
            ok = ok and np.array_equal(R, R0) and np.array_equal(ta, t0) and np.array_equal(xa, x0) and \
                np.array_equal(P.rot_matrix, R0) and np.array_equal(P.translation, t0) and \
                np.array_equal(Q.rot_matrix, R0.T) and np.array_equal(Q.translation, x0)
            if not ok:
                _fail(fails, 'pose_mutates_arguments', case, 'unchanged', 'changed', 'Pose methods must not modify poses or points')
            P.scale(k)
            if not (np.array_equal(P.rot_matrix, R0) and float(np.max(np.abs(P.translation - k * t0))) <= 1e-12 * (1 + k * 3)):
                _fail(fails, 'pose_scale', case, (k * t0).tolist(), P.translation.tolist(), 'scale must scale the translation only')
            cnt += 3
        except Exception as e:  # noqa
            _fail(fails, 'pose_raises', case, 'no exception', repr(e), 'pose operation raised')
    return cnt


# ------------------------------------------------------------------------------------------ history oracle
# The model treats a Pose as an immutable VALUE (rotation matrix + translation).  The Python object has state; the
# history checks validate that after any sequence of method calls, property reads, copy.copy and scale() the object
# still behaves exactly like a freshly constructed Pose with the same matrix_vec, and that every law still holds.
_HIST_OPS = ('rt', 'irt', 'rtp', 'irtp', 'scale', 'copy', 'read', 'switch', 'compose', 'compose', 'compose')
_ID_CTORS = ('Pose()', 'from_rot_vec_zeros', 'identity_matrix', 'from_rot_vec_default', 'from_quat_identity')


def _gen_history(ctx, n_ops):
    rvs = rotvecs(ctx, 4)
    kind, r = rvs[ctx.rng.randrange(len(rvs))]
    ops = []
    for _ in range(n_ops):
        o = ctx.rng.choice(_HIST_OPS)
        if o == 'compose':
            # a.rotate_translate_pose(b) / a.inv_rotate_translate_pose(b) on LIVE objects (indices modulo the number
            # of live objects; 1.. are exact-identity poses), the product becomes a live object and is scaled in place
            ops.append([o, ctx.rng.choice(('rtp', 'rtp', 'irtp')), ctx.rng.randrange(8), ctx.rng.randrange(8),
                        ctx.rng.choice((0.5, 2.0, ctx.rng.uniform(0.2, 4.0)))])
        elif o in ('rt', 'irt'):
            ops.append([o, _tvec(ctx, 5.0), ctx.rng.choice(_MUTS)])
        elif o in ('rtp', 'irtp'):
            ops.append([o, _tvec(ctx, 2.0), _tvec(ctx), ctx.rng.choice(_MUTS)])
        elif o == 'scale':
            ops.append([o, ctx.rng.choice((1.0, 0.5, 2.0, ctx.rng.uniform(0.1, 5.0)))])
        elif o == 'read':
            ops.append([o, ctx.rng.choice(('rot_matrix', 'rot_vec', 'rot_quat', 'translation', 'matrix_vec')),
                        ctx.rng.choice(_MUTS)])
        else:
            ops.append([o, ctx.rng.randrange(4)])
    ids = [ctx.rng.choice(_ID_CTORS) for _ in range(ctx.rng.randrange(1, 3))]
    return {'fn': 'pose_history', 'r': list(r), 't': _tvec(ctx), 'ids': ids, 'ops': ops, 'probe': _tvec(ctx, 5.0),
            'q': [_tvec(ctx, 2.0), _tvec(ctx)]}


def _run_history(case):
    """executes the op list on live Pose objects next to shadow values (R, t) kept by the harness; after every op the
    current object must (i) still have the shadow's matrix_vec, (ii) give the same results as a FRESH Pose(R, t),
    (iii) satisfy inverse-undoes-forward for points and poses.  Returns (class, expected, observed, detail) or None."""
    import copy
    import numpy as np
    from cflib.localization.lighthouse_types import Pose
    from scipy.spatial.transform import Rotation
    R0 = Rotation.from_rotvec(case['r']).as_matrix()
    Rin, tin = R0.copy(), np.array(case['t'], dtype=float)
    objs = [[Pose(Rin, tin), R0.copy(), np.array(case['t'], dtype=float)]]
    Rin *= 3.0                       # the constructor copies: later changes of the caller's arrays do not reach the pose
    tin -= 1.0
    cur = 0
    x = np.array(case['probe'], dtype=float)
    Qr = Rotation.from_rotvec(case['q'][0]).as_matrix()
    Qt = np.array(case['q'][1], dtype=float)

    def close(a, b, sc):
        return float(np.max(np.abs(np.asarray(a) - np.asarray(b)))) <= 1e-9 * sc

    def laws(step):
        for k, (P, R, t) in enumerate(objs):
            sc = 1.0 + float(np.max(np.abs(t))) + float(np.max(np.abs(x))) + float(np.max(np.abs(Qt)))
            tag = 'after op %d (%s), object %d' % (step, case['ops'][step][0] if step >= 0 else 'init', k)
            Rm, tv = P.matrix_vec
            if not (np.array_equal(Rm, R) and close(tv, t, sc) and np.array_equal(P.rot_matrix, R) and close(P.translation, t, sc)):
                return ('pose_history_state', [R.tolist(), t.tolist()], [np.asarray(Rm).tolist(), np.asarray(tv).tolist()],
                        tag + ': matrix_vec must be the value the operations so far define')
            F = Pose(R.copy(), t.copy())
            Q = Pose(Qr.copy(), Qt.copy())
            pairs = [('rotate_translate', P.rotate_translate(x), F.rotate_translate(x)),
                     ('inv_rotate_translate', P.inv_rotate_translate(x), F.inv_rotate_translate(x))]
            for nm in ('rotate_translate_pose', 'inv_rotate_translate_pose'):
                a, b = getattr(P, nm)(Q), getattr(F, nm)(Q)
                pairs.append((nm + '.R', a.rot_matrix, b.rot_matrix))
                pairs.append((nm + '.t', a.translation, b.translation))
            for nm, a, b in pairs:
                if not close(a, b, sc):
                    return ('pose_history_differs_from_fresh', np.asarray(b).tolist(), np.asarray(a).tolist(),
                            tag + ': %s must equal that of a fresh Pose with the same matrix_vec' % nm)
            back = P.inv_rotate_translate(P.rotate_translate(x))
            back2 = P.rotate_translate(P.inv_rotate_translate(x))
            pb = P.inv_rotate_translate_pose(P.rotate_translate_pose(Q))
            if not (close(back, x, sc) and close(back2, x, sc) and close(pb.rot_matrix, Qr, sc) and close(pb.translation, Qt, sc)):
                return ('pose_history_inverse', x.tolist(), [back.tolist(), back2.tolist()],
                        tag + ': inverse must undo forward for the object in its current state')
        return None

    # exact-identity poses built in every way the library offers (operands of `compose` operations)
    for kind in case.get('ids', []):
        I = {'Pose()': lambda: Pose(), 'from_rot_vec_zeros': lambda: Pose.from_rot_vec(np.zeros(3), np.zeros(3)),
             'identity_matrix': lambda: Pose(np.identity(3), np.zeros(3)), 'from_rot_vec_default': lambda: Pose.from_rot_vec(),
             'from_quat_identity': lambda: Pose.from_quat(np.array((0.0, 0.0, 0.0, 1.0)))}[kind]()
        objs.append([I, np.identity(3), np.zeros(3)])
    f = laws(-1)
    if f:
        return f
    for step, op in enumerate(case['ops']):
        P, R, t = objs[cur]
        o = op[0]
        if o == 'compose':
            ea, eb = objs[op[2] % len(objs)], objs[op[3] % len(objs)]
            A, B = ea[0], eb[0]
            res = (A.rotate_translate_pose if op[1] == 'rtp' else A.inv_rotate_translate_pose)(B)
            if op[1] == 'rtp':
                Rw, tw = ea[1] @ eb[1], ea[1] @ eb[2] + ea[2]
            else:
                Rw, tw = ea[1].T @ eb[1], ea[1].T @ (eb[2] - ea[2])
            sc = 1.0 + float(np.max(np.abs(tw)))
            if not (close(res.rot_matrix, Rw, 1.0) and close(res.translation, tw, sc)):
                return ('pose_history_differs_from_fresh', [Rw.tolist(), tw.tolist()],
                        [res.rot_matrix.tolist(), res.translation.tolist()],
                        'op %d: %s of live objects %d, %d has the wrong value' % (step, op[1], op[2] % len(objs), op[3] % len(objs)))
            # freshness: a NEW object that shares no array with any live object (C15_compose_fresh)
            alias = None
            for k2, e in enumerate(objs):
                if res is e[0] or np.shares_memory(res.rot_matrix, e[0].rot_matrix) or \
                        np.shares_memory(res.translation, e[0].translation):
                    alias = k2
                    break
            if alias is None:
                ent = [res, res.rot_matrix.copy(), res.translation.copy()]
                res.scale(op[4])                     # what LighthouseSystemScaler does with poses it is given
                ent[2] = ent[2] * op[4]
                if len(objs) < 8:
                    objs.append(ent)                 # the scaled product is an operand of later operations
            else:
                res.scale(op[4])                     # scaling the "product" now scales live object `alias` as well
                f = laws(step)
                what = 'op %d: %s of live objects %d, %d returned %s live object %d instead of a new Pose' % (
                    step, op[1], op[2] % len(objs), op[3] % len(objs),
                    'the SAME object as' if res is objs[alias][0] else 'arrays shared with', alias)
                if f:
                    return (f[0], f[1], f[2], what + '; after the in-place scale(%r) of the product: %s' % (op[4], f[3]))
                return ('pose_product_aliases_operand', 'a new Pose sharing no array with its operands', 'live object %d' % alias, what)
            f = laws(step)
            if f:
                return f
            continue
        # results COMPUTED by the library may be modified in place by the client afterwards (op[-1]); the arguments
        # handed in are modified after the call as well.  rot_matrix / translation / matrix_vec hand out the stored
        # arrays in the unchanged code (observation recorded in design.d/C15.md), so those are read but not modified.
        if o in ('rt', 'irt'):
            arg = np.array(op[1])
            res = (P.rotate_translate if o == 'rt' else P.inv_rotate_translate)(arg)
            if len(op) > 2 and _mutate(res, op[2]):
                _mutate(arg, op[2])
        elif o in ('rtp', 'irtp'):
            Qm, Qv = Rotation.from_rotvec(op[1]).as_matrix(), np.array(op[2])
            Q = Pose(Qm, Qv)
            res = (P.rotate_translate_pose if o == 'rtp' else P.inv_rotate_translate_pose)(Q)
            if len(op) > 3 and op[3]:
                _mutate(res.rot_matrix, op[3])
                _mutate(res.translation, op[3])
                _mutate(Qm, op[3])           # Pose() copies what it is given
                _mutate(Qv, op[3])
        elif o == 'scale':
            P.scale(op[1])
            objs[cur][2] = t * op[1]
        elif o == 'copy':
            if len(objs) < 6:
                objs.append([copy.copy(P), R.copy(), objs[cur][2].copy()])
                cur = len(objs) - 1
        elif o == 'read':
            got = getattr(P, op[1])
            if op[1] in ('rot_vec', 'rot_quat') and len(op) > 2:
                _mutate(got, op[2])
        elif o == 'switch':
            cur = op[1] % len(objs)
        f = laws(step)
        if f:
            return f
    return None


def _shrink_history(case):
    """greedy removal of operations while the case still fails (same class)"""
    f0 = _run_history(case)
    if not f0:
        return case, f0
    ops = list(case['ops'])
    i = 0
    while i < len(ops):
        trial = dict(case, ops=ops[:i] + ops[i + 1:])
        try:
            f = _run_history(trial)
        except Exception:  # noqa
            f = None
        if f and f[0] == f0[0]:
            ops = trial['ops']
            f0 = f
        else:
            i += 1
    return dict(case, ops=ops), f0


def _oracle_history(ctx, n, fails):
    cnt = 0
    for _ in range(n):
        case = _gen_history(ctx, ctx.rng.randrange(2, 9))
        cnt += len(case['ops']) + 1
        try:
            f = _run_history(case)
            if f:
                case, f = _shrink_history(case)
                _fail(fails, f[0], case, f[1], f[2], f[3])
        except Exception as e:  # noqa
            _fail(fails, 'pose_raises', case, 'no exception', repr(e), 'pose operation raised in a history')
    return cnt


def _oracle_scaler(ctx, n, fails):
    """LighthouseSystemScaler._scale_system on poses that have already been used (inverse taken): the returned poses
    are the inputs with the translation scaled, obey the laws, and the inputs are unchanged"""
    import numpy as np
    from cflib.localization.lighthouse_system_scaler import LighthouseSystemScaler
    from cflib.localization.lighthouse_types import Pose
    cnt = 0
    for _ in range(n):
        k = ctx.rng.choice((0.5, 2.0, ctx.rng.uniform(0.2, 4.0)))
        spec = [(_tvec(ctx, 1.5), _tvec(ctx)) for _ in range(4)]
        x = np.array(_tvec(ctx, 5.0))
        case = {'fn': 'scaler', 'poses': [[r, t] for r, t in spec], 'k': k, 'x': x.tolist()}
        try:
            f = _run_scaler(case)
            if f:
                _fail(fails, f[0], case, f[1], f[2], f[3])
            cnt += 4
        except Exception as e:  # noqa
            _fail(fails, 'pose_raises', case, 'no exception', repr(e), 'LighthouseSystemScaler._scale_system raised')
    return cnt


def _run_scaler(case):
    import numpy as np
    from cflib.localization.lighthouse_system_scaler import LighthouseSystemScaler
    from cflib.localization.lighthouse_types import Pose
    k, x = case['k'], np.array(case['x'])
    poses = [Pose.from_rot_vec(r, t) for r, t in case['poses']]
    for p in poses:
        p.inv_rotate_translate(x)            # the poses have been used before they are scaled
        p.inv_rotate_translate_pose(poses[0])
    before = [(p.rot_matrix.copy(), p.translation.copy()) for p in poses]
    bs, cf, kk = LighthouseSystemScaler._scale_system({0: poses[0], 3: poses[1]}, poses[2:], k)
    out = [bs[0], bs[3]] + list(cf)
    for p, (R, t), q in zip(poses, before, out):
        sc = 1.0 + k * float(np.max(np.abs(t))) + float(np.max(np.abs(x)))
        if not (np.array_equal(p.rot_matrix, R) and np.array_equal(p.translation, t)):
            return ('pose_mutates_arguments', [R.tolist(), t.tolist()], [p.rot_matrix.tolist(), p.translation.tolist()],
                    '_scale_system must not modify the poses it is given')
        if not (np.array_equal(q.rot_matrix, R) and float(np.max(np.abs(q.translation - k * t))) <= 1e-9 * sc):
            return ('pose_scale', (k * t).tolist(), q.translation.tolist(), 'scaled pose must be (R, k t)')
        F = Pose(R.copy(), k * t)
        got, want = q.inv_rotate_translate(x), F.inv_rotate_translate(x)
        back = q.inv_rotate_translate(q.rotate_translate(x))
        if not (float(np.max(np.abs(got - want))) <= 1e-9 * sc and float(np.max(np.abs(back - x))) <= 1e-9 * sc):
            return ('pose_history_inverse', [want.tolist(), x.tolist()], [got.tolist(), back.tolist()],
                    'a pose returned by _scale_system must behave like a fresh Pose(R, k t): inverse undoes forward')
    return None


_MUTS = (None, None, 'scale', 'sub', 'fill')


def _mutate(a, kind):
    """in-place modification of an array a client got back from the library (ray = v.cart; ray *= dist)"""
    import numpy as np
    if kind is None or not isinstance(a, np.ndarray):
        return False
    try:
        if kind == 'scale':
            a *= 2.5
        elif kind == 'sub':
            a -= 0.75
        else:
            a.fill(7.0)
        return True
    except ValueError:          # read-only array: nothing a client could do to it
        return False


_BSV_PROPS = ('lh_v1_horiz_angle', 'lh_v1_vert_angle', 'lh_v1_angle_pair', 'lh_v2_angle_1', 'lh_v2_angle_2', 'cart',
              'projection', 'list_projection_pairs', 'list_angles')


def _run_bsv_history(case):
    """reads of LighthouseBsVector properties (and of the LighthouseBsVectors list functions over the same objects) in
    the given order; after a read the returned array may be modified in place by the client.  Every read must equal
    the value of a FRESH object with the same angles, and at the end the conversions must still be mutually
    consistent (unit cart, from_cart(cart) = angles, projection = tan)."""
    import numpy as np
    from cflib.localization.lighthouse_bs_vector import LighthouseBsVector as BV, LighthouseBsVectors

    def flat(a):
        return [float(z) for z in np.asarray(a, dtype=float).ravel()]
    hv = [(case['h'], case['v'])] + [tuple(x) for x in case.get('others', [])]
    objs = [BV(h, v) for h, v in hv]
    lst = LighthouseBsVectors(objs)

    def read(o_list, nm):
        if nm == 'list_projection_pairs':
            return LighthouseBsVectors(o_list).projection_pair_list()
        if nm == 'list_angles':
            return LighthouseBsVectors(o_list).angle_list()
        return getattr(o_list[0], nm)
    for step, op in enumerate(case['ops']):
        nm, mut = op[0], (op[1] if len(op) > 1 else None)
        a = lst.projection_pair_list() if nm == 'list_projection_pairs' else (
            lst.angle_list() if nm == 'list_angles' else getattr(objs[0], nm))
        f = read([BV(h, v) for h, v in hv], nm)
        if flat(a) != flat(f):
            return ('bsv_history', flat(f), flat(a),
                    'read %d (%s): value differs from a fresh LighthouseBsVector with the same angles (earlier reads: %s)'
                    % (step, nm, case['ops'][:step]))
        _mutate(a, mut)
    b = objs[0]
    h, v = hv[0]
    c = b.cart
    nrm = math.sqrt(sum(float(x) ** 2 for x in c))
    back = BV.from_cart(c).lh_v1_angle_pair
    if not _close(nrm, 1.0, 1e-5, 0):
        return ('cart_not_unit', 1.0, nrm, 'after the history: cart must still be a unit vector')
    if _cmp_list(list(back), [h, v], *F32) is not None or _cmp_list(list(b.projection), [math.tan(h), math.tan(v)], *F32) is not None:
        return ('cart_roundtrip', [h, v], list(back), 'after the history: from_cart(cart) / projection must still match the V1 angles')
    return None


def _oracle_bsv_history(ctx, n, fails):
    cnt = 0
    for _ in range(n):
        def ang():
            return [ctx.rng.uniform(-H_MAX, H_MAX) * D2R, ctx.rng.uniform(-V_MAX, V_MAX) * D2R]
        h, v = ang()
        ops = [[ctx.rng.choice(_BSV_PROPS), ctx.rng.choice(_MUTS)] for _ in range(ctx.rng.randrange(2, 10))]
        case = {'fn': 'bsv_history', 'h': h, 'v': v, 'others': [ang() for _ in range(3)], 'ops': ops}
        cnt += len(ops) + 2
        try:
            f = _run_bsv_history(case)
            if f:
                ops2, i = list(ops), 0          # shrink: drop reads while the same class still fails
                while i < len(ops2):
                    g = None
                    try:
                        g = _run_bsv_history(dict(case, ops=ops2[:i] + ops2[i + 1:]))
                    except Exception:  # noqa
                        pass
                    if g and g[0] == f[0]:
                        ops2, f = ops2[:i] + ops2[i + 1:], g
                    else:
                        i += 1
                _fail(fails, f[0], dict(case, ops=ops2), f[1], f[2], f[3])
        except Exception as e:  # noqa
            _fail(fails, 'bsv_raises', case, 'no exception', repr(e), 'property read raised')
    return cnt


# ------------------------------------------------------------------------------------------ row layouts
_LAYOUTS = ('pose_major', 'sensor_major', 'shuffled', 'repeated', 'single', 'one_per_pose_pair')


def _gen_row_layout(ctx):
    """a scene (base-station poses, Crazyflie poses, the 4 deck sensors) and a list of rows (bs index, cf index, sensor
    index) in one of the layouts the batched functions must accept: 'one entry per output angle pair'"""
    rvs = rotvecs(ctx, 6)
    nb, nc = ctx.rng.choice((1, 2, 3)), ctx.rng.choice((1, 2, 3, 4))
    bss = [list(rvs[ctx.rng.randrange(len(rvs))][1]) + [ctx.rng.uniform(-4, -1.5), ctx.rng.uniform(-2, 2), ctx.rng.uniform(0.5, 3)]
           for _ in range(nb)]
    cfs = [list(rvs[ctx.rng.randrange(len(rvs))][1]) + [ctx.rng.uniform(-1, 1), ctx.rng.uniform(-1, 1), ctx.rng.uniform(0, 1)]
           for _ in range(nc)]
    lay = ctx.rng.choice(_LAYOUTS)
    full = [(b, c, k) for c in range(nc) for b in range(nb) for k in range(4)]          # what solve() builds
    if lay == 'pose_major':
        rows = full
    elif lay == 'sensor_major':
        rows = [(b, c, k) for k in range(4) for c in range(nc) for b in range(nb)]
    elif lay == 'shuffled':
        rows = list(full)
        ctx.rng.shuffle(rows)
        rows = rows[:ctx.rng.randrange(1, len(rows) + 1)]
    elif lay == 'repeated':
        rows = [full[ctx.rng.randrange(len(full))] for _ in range(ctx.rng.randrange(2, 12))]
        rows = rows + rows[:3]
    elif lay == 'single':
        rows = [full[ctx.rng.randrange(len(full))]]
    else:
        rows = [(b, c, ctx.rng.randrange(4)) for c in range(nc) for b in range(nb)]
    return {'fn': 'row_layout', 'layout': lay, 'bs': bss, 'cf': cfs, 'rows': [list(r) for r in rows],
            'n_sensors': ctx.rng.choice((None, 1, 4)), 'index_kind': ctx.rng.choice(('int64', 'int32', 'list', 'intp'))}


def _run_row_layout(case):
    """row i of _calc_angle_pairs / _poses_to_angle_pairs must be the types-path projection of row i's OWN
    (base-station pose, Crazyflie pose, sensor), whatever the order, grouping or repetition of the rows and whatever
    defs.n_sensors says.  Returns (class, expected, observed, detail) or None."""
    import numpy as np
    from cflib.localization.lighthouse_geometry_solver import LighthouseGeometrySolver as GS
    from cflib.localization.lighthouse_geometry_solver import LighthouseGeometrySolution
    from cflib.localization.lighthouse_types import LhDeck4SensorPositions
    S = np.array(LhDeck4SensorPositions.positions, dtype=float)
    bss, cfs = np.array(case['bs'], dtype=float), np.array(case['cf'], dtype=float)
    rows = case['rows']
    defs = LighthouseGeometrySolution()
    defs.n_sensors = case['n_sensors']
    defs.n_bss, defs.n_cfs, defs.n_cfs_in_params = len(bss), len(cfs), max(0, len(cfs) - 1)
    ib, ic, ik = [r[0] for r in rows], [r[1] for r in rows], [r[2] for r in rows]
    kind = case.get('index_kind', 'int64')
    if kind != 'list':
        dt = {'int64': np.int64, 'int32': np.int32, 'intp': np.intp}[kind]
        ib, ic, ik = np.array(ib, dtype=dt), np.array(ic, dtype=dt), np.array(ik, dtype=dt)
    exp, well = [], []
    for b, c, k in rows:
        e, p = _types_angle_pair(bss[b], cfs[c], S[k])
        exp.append(e)
        well.append(math.hypot(p[0], p[1]) >= 1e-4 and math.hypot(p[0], p[2]) >= 1e-4)
    with warnings.catch_warnings():
        warnings.simplefilter('ignore')
        got = {'_poses_to_angle_pairs': GS._poses_to_angle_pairs(bss, cfs, S, ib, ic, ik, defs),
               '_calc_angle_pairs': GS._calc_angle_pairs(bss[[r[0] for r in rows]], cfs[[r[1] for r in rows]],
                                                         S[[r[2] for r in rows]], defs)}
    for nm, g in got.items():
        if np.shape(g) != (len(rows), 2):
            return ('projection_rows_shape', [len(rows), 2], list(np.shape(g)), '%s: one output row per input row' % nm)
        for i in range(len(rows)):
            if not well[i]:
                continue
            for a, e in zip(g[i], exp[i]):
                dd = abs(float(a) - e)
                if not min(dd, abs(dd - 2 * math.pi)) <= 1e-9:
                    cls = 'projection_paths_disagree' if case['layout'] == 'pose_major' and case['n_sensors'] in (None, 4) \
                        else 'projection_rows_not_independent'
                    return (cls, exp[i], [float(x) for x in g[i]],
                            '%s, layout %s, defs.n_sensors=%r: output row %d (bs %d, cf %d, sensor %d) must be the Pose/from_cart '
                            'projection of its own poses' % (nm, case['layout'], case['n_sensors'], i, *rows[i]))
    return None


def _oracle_row_layouts(ctx, n, fails):
    cnt = 0
    for _ in range(n):
        case = _gen_row_layout(ctx)
        cnt += 2 * len(case['rows'])
        try:
            f = _run_row_layout(case)
            if f:
                rows, i = list(case['rows']), 0          # shrink: drop rows while the same class still fails
                while i < len(rows) and len(rows) > 1:
                    g = None
                    try:
                        g = _run_row_layout(dict(case, rows=rows[:i] + rows[i + 1:]))
                    except Exception:  # noqa
                        pass
                    if g and g[0] == f[0]:
                        rows, f = rows[:i] + rows[i + 1:], g
                    else:
                        i += 1
                _fail(fails, f[0], dict(case, rows=rows), f[1], f[2], f[3])
        except Exception as e:  # noqa
            _fail(fails, 'paths_raises', case, 'no exception', repr(e), 'solver projection raised for this row layout')
    return cnt


# ------------------------------------------------------------------------------------------ from_quat, non-unit
_QUAT_SCALES = (1.0, 0.5, 2.0, 1e-3, 1e3, -1.0, -0.5, -2.0, -1e3, 3.0)
_INT_QUATS = ([0, 0, 1, 1], [2, 0, 0, 0], [0, 0, 0, 0.5], [1, 1, 1, 1], [1, -2, 3, -4], [0, 3, 0, 4], [0, 0, 0, -1],
              [1, 0, 0, 1], [-1, 2, 0, 0], [5, 0, 0, 0], [0, 0, 0, 7])


def _gen_from_quat(ctx, rvs):
    if ctx.rng.random() < 0.3:
        q = [float(a) for a in ctx.rng.choice(_INT_QUATS)]
    else:
        kind, r = rvs[ctx.rng.randrange(len(rvs))]
        th = math.sqrt(sum(a * a for a in r))
        k = [(a / th) if th else 0.0 for a in r]
        q = [a * math.sin(th / 2) for a in k] + [math.cos(th / 2)]
        s = ctx.rng.choice(_QUAT_SCALES)
        q = [s * a for a in q]
    return {'fn': 'from_quat', 'q': q, 't': _tvec(ctx), 's': ctx.rng.choice(_QUAT_SCALES), 'x': _tvec(ctx, 5.0)}


def _run_from_quat(case):
    """Pose.from_quat with a NON-UNIT quaternion: the pose is the one of q/|q| -- orthonormal matrix with det 1, same
    pose for every positive or negative multiple, rot_quat = +-q/|q|, rot_vec / rot_quat views reproduce the matrix,
    inverse undoes forward.  Returns (class, expected, observed, detail) or None."""
    import numpy as np
    from cflib.localization.lighthouse_types import Pose
    q, t, x = np.array(case['q'], dtype=float), np.array(case['t'], dtype=float), np.array(case['x'], dtype=float)
    P = Pose.from_quat(q, t)
    R = P.rot_matrix
    tol = 1e-9
    d = max(float(np.max(np.abs(R.T @ R - np.identity(3)))), abs(float(np.linalg.det(R)) - 1.0))
    if not d <= tol:
        return ('from_quat_not_rotation', 'orthonormal, det 1', [R.tolist(), d],
                'from_quat(q).rot_matrix must be a rotation matrix for every non-zero q (q is normalised)')
    qn = q / math.sqrt(float(np.sum(q * q)))
    x0, y0, z0, w0 = qn
    Rw = np.array([[1 - 2 * (y0 * y0 + z0 * z0), 2 * (x0 * y0 - z0 * w0), 2 * (x0 * z0 + y0 * w0)],
                   [2 * (x0 * y0 + z0 * w0), 1 - 2 * (x0 * x0 + z0 * z0), 2 * (y0 * z0 - x0 * w0)],
                   [2 * (x0 * z0 - y0 * w0), 2 * (y0 * z0 + x0 * w0), 1 - 2 * (x0 * x0 + y0 * y0)]])
    if not float(np.max(np.abs(R - Rw))) <= tol:
        return ('from_quat_not_normalised', Rw.tolist(), R.tolist(), 'from_quat(q).rot_matrix must be the rotation of q/|q|')
    R2 = Pose.from_quat(case['s'] * q, t).rot_matrix
    if not float(np.max(np.abs(R2 - R))) <= tol:
        return ('from_quat_not_normalised', R.tolist(), R2.tolist(),
                'from_quat(s*q) must be the pose of from_quat(q) for every s != 0 (s = %r)' % case['s'])
    rq, rv = P.rot_quat, P.rot_vec
    dq = min(float(np.max(np.abs(rq - qn))), float(np.max(np.abs(rq + qn))))
    dm = max(float(np.max(np.abs(Pose.from_quat(rq, t).rot_matrix - R))), float(np.max(np.abs(Pose.from_rot_vec(rv, t).rot_matrix - R))))
    if not (dq <= tol and dm <= tol):
        return ('views_disagree', [qn.tolist(), 0.0], [rq.tolist(), dm],
                'rot_quat (= +-q/|q|) and rot_vec of from_quat(q) must describe the same rotation as rot_matrix')
    sc = 1.0 + float(np.max(np.abs(x))) + float(np.max(np.abs(t)))
    back, back2 = P.inv_rotate_translate(P.rotate_translate(x)), P.rotate_translate(P.inv_rotate_translate(x))
    Q = Pose.from_quat(np.array(case['q'][::-1], dtype=float) + 0.25, x)
    pb = P.inv_rotate_translate_pose(P.rotate_translate_pose(Q))
    d = max(float(np.max(np.abs(back - x))), float(np.max(np.abs(back2 - x))), _pose_dist(pb, Q))
    if not d <= tol * sc:
        return ('pose_inverse', x.tolist(), [back.tolist(), back2.tolist()],
                'inverse must undo forward for a pose created with from_quat(q), q not of unit length')
    return None


def _oracle_from_quat(ctx, n, fails):
    cnt = 0
    cases = [{'fn': 'from_quat', 'q': [float(a) for a in q], 't': [0.5, -1.0, 2.0], 's': s, 'x': [1.0, -2.0, 0.5]}
             for q in _INT_QUATS for s in (2.0, -0.5)]
    rvs = rotvecs(ctx, 50)
    for _ in range(n):
        cases.append(_gen_from_quat(ctx, rvs))
    for case in cases:
        cnt += 6
        try:
            f = _run_from_quat(case)
            if f:
                _fail(fails, f[0], case, f[1], f[2], f[3])
        except Exception as e:  # noqa
            _fail(fails, 'pose_raises', case, 'no exception', repr(e), 'from_quat with a non-zero quaternion raised')
    return cnt


# ------------------------------------------------------------------------------------------ point representations
_POINT_REPS = ('tuple_int', 'list_int', 'int64', 'int32', 'int16', 'float32', 'bsv_cart', 'float64', 'list_float', 'tuple_mixed')


def _make_point(rep, vals):
    """the point `vals` (3 numbers) in the given representation, and its exact float64 value"""
    import numpy as np
    from cflib.localization.lighthouse_bs_vector import LighthouseBsVector as BV
    ints = [int(round(v)) for v in vals]
    if rep == 'tuple_int':
        x = tuple(ints)
    elif rep == 'list_int':
        x = list(ints)
    elif rep in ('int64', 'int32', 'int16'):
        x = np.array(ints, dtype={'int64': np.int64, 'int32': np.int32, 'int16': np.int16}[rep])
    elif rep == 'float32':
        x = np.float32(vals)
    elif rep == 'bsv_cart':
        x = BV(0.3 * math.sin(vals[0]), 0.2 * math.cos(vals[1])).cart          # what the library itself hands out
    elif rep == 'float64':
        x = np.array(vals, dtype=float)
    elif rep == 'list_float':
        x = [float(v) for v in vals]
    else:
        x = (ints[0], float(vals[1]), ints[2])
    return x, np.array(x, dtype=np.float64)          # int and float32 values are exactly representable in float64


def _run_point_types(case):
    """Pose point functions on every representation of a point a caller may pass (npt.ArrayLike): the result is
    R x + t (resp. R^T (x - t)) computed in float64 from the pose's own views, to 1e-12 -- on HEAD the result is
    float64 for every argument type and exact; inverse undoes forward, composition = sequential application,
    distances preserved; the argument is not modified."""
    import numpy as np
    from cflib.localization.lighthouse_types import Pose
    P = Pose.from_rot_vec(case['r'], case['t'])
    Q = Pose.from_rot_vec(case['r2'], case['t2'])
    R, t = np.array(P.rot_matrix, dtype=float), np.array(P.translation, dtype=float)
    x, x64 = _make_point(case['rep'], case['x'])
    y, y64 = _make_point(case['rep2'], case['y'])
    snap = np.array(x, dtype=np.float64).copy()
    sc = 1.0 + float(np.max(np.abs(x64))) + float(np.max(np.abs(y64))) + float(np.max(np.abs(t))) + max(abs(a) for a in case['t2'])
    tol = 1e-12 * sc
    what = 'point as %s %r' % (case['rep'], x.tolist() if isinstance(x, np.ndarray) else x)
    fwd = P.rotate_translate(x)
    want = R @ x64 + t
    if np.shape(fwd) != (3,) or not float(np.max(np.abs(np.asarray(fwd, dtype=float) - want))) <= tol:
        return ('point_transform_wrong', want.tolist(), [np.asarray(fwd).tolist(), str(getattr(fwd, 'dtype', type(fwd)))],
                'rotate_translate(%s) must be R x + t' % what)
    inv = P.inv_rotate_translate(x)
    wanti = R.T @ (x64 - t)
    if np.shape(inv) != (3,) or not float(np.max(np.abs(np.asarray(inv, dtype=float) - wanti))) <= tol:
        return ('point_transform_wrong', wanti.tolist(), [np.asarray(inv).tolist(), str(getattr(inv, 'dtype', type(inv)))],
                'inv_rotate_translate(%s) must be R^T (x - t)' % what)
    if not np.array_equal(np.array(x, dtype=np.float64), snap):
        return ('pose_mutates_arguments', snap.tolist(), np.array(x, dtype=float).tolist(), 'the point argument must not be modified')
    back = P.inv_rotate_translate(P.rotate_translate(x))
    back2 = P.rotate_translate(P.inv_rotate_translate(x))
    if not (float(np.max(np.abs(back - x64))) <= 1e-9 * sc and float(np.max(np.abs(back2 - x64))) <= 1e-9 * sc):
        return ('pose_inverse', x64.tolist(), [np.asarray(back).tolist(), np.asarray(back2).tolist()],
                'inverse must undo forward for the %s' % what)
    seq, comp = P.rotate_translate(Q.rotate_translate(x)), P.rotate_translate_pose(Q).rotate_translate(x)
    if not float(np.max(np.abs(np.asarray(seq, dtype=float) - np.asarray(comp, dtype=float)))) <= 1e-9 * sc or \
            not float(np.max(np.abs(np.asarray(seq, dtype=float) - (R @ (np.array(Q.rot_matrix) @ x64 + np.array(Q.translation)) + t)))) <= 1e-9 * sc:
        return ('pose_sequential', np.asarray(comp).tolist(), np.asarray(seq).tolist(),
                'A(B(x)) must equal (A o B)(x) = R_A (R_B x + t_B) + t_A for the %s' % what)
    d0 = float(np.linalg.norm(x64 - y64))
    d1 = float(np.linalg.norm(np.asarray(P.rotate_translate(x), dtype=float) - np.asarray(P.rotate_translate(y), dtype=float)))
    if not abs(d0 - d1) <= 1e-9 * sc:
        return ('pose_not_rigid', d0, d1, 'distances must be preserved (%s, second point as %s)' % (what, case['rep2']))
    return None


def _oracle_point_types(ctx, n, fails):
    cnt = 0
    rvs = rotvecs(ctx, 40)
    cases = []
    for rep in _POINT_REPS:                    # fixed cases: every representation under a non-integer pose
        cases.append({'fn': 'point_types', 'r': [0.3, -0.2, 1.1], 't': [0.4, -0.3, 0.25], 'r2': [0.0, 0.5, 0.0],
                      't2': [-2.0, 0.0, 2.5], 'rep': rep, 'x': [4.0, -1.0, 2.0], 'rep2': 'float64', 'y': [0.5, 0.25, -1.5]})
        cases.append({'fn': 'point_types', 'r': [0.0, 0.0, 0.0], 't': [0.5, 0.0, 0.0], 'r2': [0.0, 0.0, math.pi / 2],
                      't2': [0.5, 0.0, 0.0], 'rep': rep, 'x': [1.0, 0.0, 0.0], 'rep2': rep, 'y': [0.0, 3.0, -2.0]})
    for _ in range(n):
        cases.append({'fn': 'point_types', 'r': list(rvs[ctx.rng.randrange(len(rvs))][1]), 't': _tvec(ctx),
                      'r2': list(rvs[ctx.rng.randrange(len(rvs))][1]), 't2': _tvec(ctx),
                      'rep': ctx.rng.choice(_POINT_REPS), 'x': [ctx.rng.uniform(-6, 6) for _ in range(3)],
                      'rep2': ctx.rng.choice(_POINT_REPS), 'y': [ctx.rng.uniform(-6, 6) for _ in range(3)]})
    for case in cases:
        cnt += 6
        try:
            f = _run_point_types(case)
            if f:
                _fail(fails, f[0], case, f[1], f[2], f[3])
        except Exception as e:  # noqa
            _fail(fails, 'pose_raises', case, 'no exception', repr(e), 'a point function raised for this point representation')
    return cnt


def _corpus(ctx):
    import glob
    import json
    out = []
    for p in sorted(glob.glob(os.path.join(coqrun.VERIF, 'corpus', 'C15', '*.json'))):
        try:
            out.append(json.load(open(p)))
        except Exception:  # noqa
            pass
    return out


def oracle(ctx, deep=False):
    fails = []
    n = 0
    for c in _corpus(ctx):
        f = _replay_case(c.get('case', c))
        n += 1
        if f:
            fails.append(f)
    n += _oracle_defaults(fails)

    def sz(quick, mid, thorough):      # mid: failure search (deep) inside the quick tier, whole run < 1 min
        return thorough if ctx.thorough else (mid if deep else quick)
    if ctx.thorough:
        pts = fov_grid(ctx, 961, 661, 100000)
    elif deep:            # failure search inside the quick tier: keep the whole run under a minute
        pts = fov_grid(ctx, 481, 331, 30000)
    else:
        pts = fov_grid(ctx, 241, 167, 8000)
    for (h, v) in pts:
        n += _oracle_bsv(h, v, fails)
    rvs = rotvecs(ctx, sz(1500, 5000, 20000))
    for i, (kind, r) in enumerate(rvs):
        k2, r2 = rvs[ctx.rng.randrange(len(rvs))]
        k3, r3 = rvs[ctx.rng.randrange(len(rvs))]
        n += _oracle_pose(kind + '+' + k2 + '+' + k3, list(r), _tvec(ctx), list(r2), _tvec(ctx), list(r3), _tvec(ctx),
                          _tvec(ctx, 5.0), fails)
    n += _oracle_paths(_path_rows(ctx, sz(4000, 15000, 60000)), fails)
    n += _oracle_solver_reuse(ctx, sz(300, 1000, 3000), fails)
    n += _oracle_row_layouts(ctx, sz(400, 1200, 4000), fails)
    n += _oracle_from_quat(ctx, sz(400, 1200, 4000), fails)
    n += _oracle_point_types(ctx, sz(600, 2000, 6000), fails)
    n += _oracle_pose_misc(ctx, sz(300, 1000, 3000), fails)
    n += _oracle_history(ctx, sz(600, 2000, 6000), fails)
    n += _oracle_scaler(ctx, sz(100, 300, 1000), fails)
    n += _oracle_bsv_history(ctx, sz(200, 500, 2000), fails)
    n += _oracle_vector_lists(ctx, sz(200, 500, 2000), fails)
    n += _oracle_ippe(ctx, sz(300, 1000, 3000), fails)
    n += _oracle_ippe_solve(ctx, sz(40, 150, 500), fails)
    return {'evaluations': n, 'failures': fails,
            'distinct_nontrivial': len(pts) + len(rvs),
            'rule': 'property text on the real code: V1<->V2, cart, projection round trips and unit length on the FOV grid '
                    '(|h|<=80deg,|v|<=55deg, boundary and tiny angles included); Pose inverse/assoc/sequential/view '
                    'agreement for identity, half turns, tiny (1e-6..1e-15), near-pi and random rotations; solver '
                    'projection vs Pose/from_cart projection vectorised over all rows incl. zero and underflowing '
                    'rotation vectors; IPPE permutations and solve() reprojection'}


def _replay_case(c):
    fails = []
    fn = c.get('fn')
    if fn == 'bsv':
        _oracle_bsv(c['h'], c['v'], fails)
    elif fn == 'pose':
        _oracle_pose(c.get('kind', ''), c['r'], c['t'], c['r2'], c['t2'], c['r3'], c['t3'], c['x'], fails)
    elif fn == 'paths':
        if 'rows' in c:
            _oracle_paths([(k, a, b, s) for k, a, b, s in c['rows']], fails)
        else:
            z = [0.0] * 3
            # replay inside a small batch: the code is vectorised, one row must not depend on the others
            _oracle_paths([('pad', z + [-2.0, 0.0, 1.0], z + [0.0, 0.0, 0.0], [0.015, 0.0075, 0.0]),
                           (c.get('kind', ''), c['bs'], c['cf'], c['s'])], fails)
    elif fn == 'default_pose':
        _oracle_defaults(fails)
        fails = [f for f in fails if f['case'].get('ctor') == c.get('ctor')]
    elif fn == 'solver_reuse':
        import numpy as np
        from cflib.localization.lighthouse_geometry_solver import LighthouseGeometrySolver as GS
        from cflib.localization.lighthouse_geometry_solver import LighthouseGeometrySolution
        from cflib.localization.lighthouse_types import LhDeck4SensorPositions, Pose
        S = np.array(LhDeck4SensorPositions.positions, dtype=float)
        for f in _solver_reuse_case(c, np, GS, LighthouseGeometrySolution(), S, S.shape[0], Pose):
            _fail(fails, f[0], c, f[1], f[2], f[3])
    elif fn == 'point_types':
        f = _run_point_types(c)
        if f:
            _fail(fails, f[0], c, f[1], f[2], f[3])
    elif fn == 'from_quat':
        f = _run_from_quat(c)
        if f:
            _fail(fails, f[0], c, f[1], f[2], f[3])
    elif fn == 'row_layout':
        f = _run_row_layout(c)
        if f:
            _fail(fails, f[0], c, f[1], f[2], f[3])
    elif fn == 'pose_history':
        f = _run_history(c)
        if f:
            _fail(fails, f[0], c, f[1], f[2], f[3])
    elif fn == 'scaler':
        f = _run_scaler(c)
        if f:
            _fail(fails, f[0], c, f[1], f[2], f[3])
    elif fn == 'bsv_history':
        f = _run_bsv_history(c)
        if f:
            _fail(fails, f[0], c, f[1], f[2], f[3])
    elif fn == 'pose_misc':
        import random

        class _M:
            rng = random.Random(0)
        _oracle_pose_misc(_M, 50, fails)
    elif fn == 'vector_lists':
        import random

        class _V:
            rng = random.Random(0)
        _oracle_vector_lists(_V, 50, fails)
    elif fn in ('ippe', 'ippe_solve'):
        import random

        class _C:
            rng = random.Random(0)
        if fn == 'ippe':
            _oracle_ippe(_C, 50, fails)
        else:
            _oracle_ippe_solve(_C, 50, fails)
    return fails[0] if fails else None


def replay(payload, ctx):
    return _replay_case(payload['case'])
