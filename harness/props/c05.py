"""C05 — log blocks are created as configured and log data decodes to device values.

generate : constants + type table of log.py/toc.py/crtpstack.py -> coq/C05/Gen_Consts.v (fail-closed ast reader)
tie      : random add/start/stop/delete/ack/data/reconnect/re-add histories run on the REAL Log/LogConfig
           (fake Crazyflie, packets fed into Log._new_packet_cb) and on the Coq model (coq/C05/Model.v `step`);
           after every event the observations (wire packets, callbacks, decoded samples, exception) and the
           complete state of every LogConfig and of Log are compared (digest, differing histories in full).
           SyncLogger: connect/sample/next/link-lost/disconnect scripts on the real SyncLogger vs `sl_step`.
oracle   : the property text on the real code with an independent device (block decoder / sample encoder).
"""
import hashlib
import json
import os
import struct

from core import coqrun
from props import c05_gen

ID = 'C05'
PROPERTY_FILE = 'C05/Property.v'
LEVEL = 'other'
ALLOWED_AXIOMS = ()
HEADER = 'From CF Require Import C05.Model C05.TieEnc.\nOpen Scope Z_scope.\n'


def _driver():
    from fakes import c05_driver
    return c05_driver


def generate(ctx):
    c = c05_gen.write_consts(ctx.repo, coqrun.COQ_DIR)
    return {'file': 'C05/Gen_Consts.v', 'types': [[t[0], t[1], t[2], t[5]] for t in c['TYPES']],
            'MAX_LEN': c['MAX_LEN'], 'MAX_DATA_SIZE': c['MAX_DATA_SIZE'], 'err_codes': [e[0] for e in c['ERR']]}


# ------------------------------------------------------------------------------------------ generation
def _types():
    from cflib.crazyflie.log import LogTocElement
    return {k: v[2] for k, v in LogTocElement.types.items()}


MS_CHOICES = [100, 10, 20, 50, 500, 1000, 2540, 2549, 2550, 2560, 9, 5, 0, 11, 19, 10000, -10, -100, 2539, 15]
def _float_periods():
    """float periods: integral, fractional, the acceptance boundaries and their neighbours, rate-derived"""
    import math
    base = [20.0, 33.3, 2540.0, 10.5, 9.99, 10.0, 2549.9, 2550.0, 29.999999999, 30.0, 1000 / 3, 1000 / 30,
            1000 / 7, 99.99999999999999, 2549.999999999, 250.0, 100.0, 15.0, 19.999, 2539.5, 0.0, -0.5, 0.001, 5.0,
            1e6, 2560.0, 11.0, 1000.0, 500.25]
    for x in (10.0, 20.0, 30.0, 100.0, 2540.0, 2550.0, 1000.0):
        base += [math.nextafter(x, 0.0), math.nextafter(x, 1e9)]
    return base


def _rand_period(rng):
    """period_in_ms of a generated configuration: an int, or a float spec ['f'|'np', a, b]"""
    d = _driver()
    r = rng.random()
    if r < 0.22:
        fl = _float_periods()
        x = rng.choice(fl) if rng.random() < 0.7 else rng.uniform(-20.0, 2700.0)
        kind = 'f'
        if rng.random() < 0.25:
            try:
                import numpy  # noqa
                kind = 'np'
            except ImportError:
                pass
        return d.float_spec(x, kind)
    return None


def _period_fraction(ms):
    from fractions import Fraction
    if isinstance(ms, (list, tuple)):
        return Fraction(int(ms[1]), int(ms[2]))
    return Fraction(ms)


FLOAT_SPECIALS32 = [0, 0x80000000, 0x7F800000, 0xFF800000, 0x7FC00000, 0x7FC00001, 0xFFC12345, 1, 0x007FFFFF,
                    0x3F800000, 0x7F7FFFFF, 0x00800000]
FLOAT_SPECIALS16 = [0, 0x8000, 0x7C00, 0xFC00, 0x7E00, 0x7E01, 0xFE55, 1, 0x03FF, 0x3C00, 0x7BFF, 0x0400]


def _rand_payload(rng, types, sizes):
    out = []
    for t in types:
        n = sizes[t]
        r = rng.random()
        if t == 7 and r < 0.4:
            out += list(struct.pack('<I', rng.choice(FLOAT_SPECIALS32)))
        elif t == 8 and r < 0.4:
            out += list(struct.pack('<H', rng.choice(FLOAT_SPECIALS16)))
        elif r < 0.25:
            out += [rng.choice([0, 255, 128, 127])] * n
        else:
            out += [rng.randrange(256) for _ in range(n)]
    return out


class HistoryGen:
    """Generates one history while running it on the implementation (the simulated device answers what
    the implementation actually sent)."""

    def __init__(self, rng, profile):
        d = _driver()
        self.d = d
        self.rng = rng
        self.im = d.Impl()
        # the fake link keeps packet references and transmits `lag` packets behind the sender
        self.lag = rng.choice([0, 1, 2, 99])
        self.im.cf.lag = self.lag
        self.sizes = _types()
        self.tids = sorted(self.sizes)
        self.evs = []
        self.recs = []
        self.full = []
        self.acks = []           # pending device replies
        self.old_ids = {}        # ids a configuration had before it was added again
        self.capacity = None     # capacity-limited device: number of blocks it has room for
        self.dev_blocks = set()
        self.toc_entries = []
        self.profile = profile
        self.stats = {'accepted': 0, 'rejected': 0, 'create_pkts': 0, 'acks': 0, 'data': 0, 'data_decoded': 0,
                      'reconnects': 0, 'raised': 0, 'max_vars': 0, 'split': 0}

    def emit(self, ev):
        flat, wires, code = self.im.apply(ev)
        self.evs.append(ev)
        self.recs.append(flat)
        self.full.append(self.im.last_full)
        rng = self.rng
        if code:
            self.stats['raised'] += 1
        for (p, c, data, exp) in wires:
            if p == 5 and c == 1 and data:
                cmd = data[0]
                if cmd in (0, 6, 1, 7):
                    self.stats['create_pkts'] += 1
                    if cmd in (1, 7):
                        self.stats['split'] += 1
                if cmd == 5:
                    self.acks.append([5, 0, 0])
                    self.dev_blocks = set()
                elif len(data) >= 2 and self.capacity is not None:
                    # a device with room for `capacity` blocks: ENOMEM beyond, EEXIST for a block it holds,
                    # delete frees the room
                    bid = data[1]
                    st = 0
                    if cmd in (0, 6):
                        if bid in self.dev_blocks:
                            st = 17
                        elif len(self.dev_blocks) >= self.capacity:
                            st = 12
                        else:
                            self.dev_blocks.add(bid)
                    elif cmd == 2:
                        st = 0 if bid in self.dev_blocks else 2
                        self.dev_blocks.discard(bid)
                    elif cmd in (3, 4) and bid not in self.dev_blocks:
                        st = 2
                    if cmd in (0, 6, 2, 3, 4):
                        self.acks.append([cmd, bid, st])
                elif len(data) >= 2:
                    r = rng.random()
                    if r < 0.82:
                        st = 0
                    elif r < 0.88:
                        st = 17
                    elif r < 0.92:
                        st = 2
                    else:
                        st = rng.choice([12, 7, 8, 5, 1, 255])
                    self.acks.append([cmd, data[1], st])
        return flat, wires, code

    def deliver(self, n=None):
        rng = self.rng
        k = len(self.acks) if n is None else min(n, len(self.acks))
        for _ in range(k):
            a = self.acks.pop(0)
            r = rng.random()
            if r < 0.04:
                continue                      # lost
            self.stats['acks'] += 1
            self.emit(['pkt', 1, a])
            if r > 0.95:
                self.emit(['pkt', 1, a])      # duplicated (retransmission)

    def make_toc(self, nmax=36):
        rng = self.rng
        n = rng.choice([0, 3, 8, 20, 30, 30, nmax, nmax, nmax, nmax])
        names = rng.sample(range(nmax + 4), min(n, nmax + 4))
        r = rng.random()
        idents = rng.sample(range(0, 65536), len(names)) if r < 0.5 else (
            rng.sample(range(0, 700), len(names)) if r < 0.85 else [rng.randrange(0, 300) for _ in names])
        if rng.random() < 0.1 and len(idents) > 2:
            idents[0] = idents[1]             # duplicated ident
        ent = [[nm, idt, rng.choice(self.tids)] for nm, idt in zip(names, idents)]
        if rng.random() < 0.1 and ent:
            ent.append([ent[0][0], rng.randrange(65536), rng.choice(self.tids)])   # name given twice
        return ent

    def session(self, same_toc=False):
        rng = self.rng
        self.emit(['refresh', rng.random() < 0.75])
        self.deliver()
        if not same_toc or not self.toc_entries:
            self.toc_entries = self.make_toc()
        elif self.toc_entries:
            r = rng.random()
            if r < 0.3:
                self.toc_entries = [e for e in self.toc_entries if rng.random() < 0.9]
            elif r < 0.6:
                ids = [e[1] for e in self.toc_entries]      # another firmware: same names, other indices
                rng.shuffle(ids)
                self.toc_entries = [[e[0], i, e[2]] for e, i in zip(self.toc_entries, ids)]
        # add_config attempts while the table of the new session is still empty (between the reset reply and
        # the TOC info reply): rejected; the table then arrives from the TOC cache or by download
        if self.im.cfgs and rng.random() < 0.4:
            for _ in range(rng.choice([1, 1, 2])):
                self.add(rng.randrange(len(self.im.cfgs)))
        if rng.random() < 0.95:
            self.emit(['settoc', self.toc_entries, rng.choice(['cache', 'cache', 'new'])])

    def pick_name(self, in_toc=0.98):
        rng = self.rng
        if self.toc_entries and rng.random() < in_toc:
            return rng.choice(self.toc_entries)[0]
        return rng.randrange(0, 44)

    def new_config(self):
        rng = self.rng
        h = len(self.im.cfgs)
        ms = rng.choice(MS_CHOICES) if rng.random() < 0.8 else rng.randrange(-50, 3000)
        if rng.random() < 0.6:
            ms = 100
        fp = _rand_period(rng)
        if fp is not None:
            ms = fp
        self.emit(['new', ms])
        mode = rng.choice(['ones', 'ones', 'mixed', 'mixed', 'boundary', 'small'])
        if mode == 'ones':
            k = rng.choice([0, 1, 8, 9, 10, 11, 17, 18, 19, 20, 25, 26, 27, rng.randrange(0, 28)])
            tys = [rng.choice([1, 4]) for _ in range(k)]
        elif mode == 'small':
            tys = [rng.choice(self.tids) for _ in range(rng.randrange(0, 4))]
        else:
            target = rng.choice([24, 25, 26, 26, 26, 27, 28]) if mode == 'boundary' else rng.randrange(1, 30)
            tys, tot = [], 0
            while tot < target:
                t = rng.choice(self.tids)
                if tot + self.sizes[t] > target:
                    t = rng.choice([1, 4])
                tys.append(t)
                tot += self.sizes[t]
        in_toc = rng.choice([1.0, 1.0, 1.0, 1.0, 1.0, 0.97, 0.85])
        for t in tys:
            r = rng.random()
            if r < 0.03:
                self.emit(['addmem', h, self.pick_name(), t, rng.choice(self.tids), rng.randrange(0, 1 << 32)])
            elif r < 0.13:
                # default fetch type: the TOC decides the size
                self.emit(['addvar', h, self.pick_name(in_toc), 0])
            else:
                self.emit(['addvar', h, self.pick_name(in_toc), t])
        self.stats['max_vars'] = max(self.stats['max_vars'], len(tys))
        return h

    def add(self, h):
        if h < len(self.im.cfgs) and self.im.cfgs[h].cf is not None:
            self.old_ids.setdefault(h, []).append(self.im.cfgs[h].id)      # the id of the earlier add
        flat, wires, code = self.emit(['addcfg', h])
        c = self.im.cfgs[h]
        if code == 0 and self.im.cf.link is not None:
            self.stats['accepted'] += 1
        elif code:
            self.stats['rejected'] += 1

    def data_packet(self, h):
        rng = self.rng
        c = self.im.cfgs[h]
        tys = [v.fetch_as for v in c.variables]
        pl = _rand_payload(rng, tys, self.sizes)
        r = rng.random()
        if r < 0.08 and pl:
            pl = pl[:-1]
        elif r < 0.14:
            pl = pl + [rng.randrange(256)]
        ts = [rng.randrange(256) for _ in range(3)] if rng.random() < 0.8 else rng.choice([[255] * 3, [0] * 3])
        r = rng.random()
        if r < 0.8 or (r < 0.93 and not self.old_ids.get(h)):
            ident = c.id
        elif r < 0.93:
            ident = rng.choice(self.old_ids[h])       # a late packet of the block this configuration was before
        else:
            ident = rng.randrange(0, 256)
        self.stats['data'] += 1
        flat, wires, code = self.emit(['pkt', 2, [ident] + ts + pl])
        if code == 0 and flat[0] > 0:
            self.stats['data_decoded'] += 1

    def noise(self):
        rng = self.rng
        r = rng.random()
        n = len(self.im.cfgs)
        if r < 0.3:
            ln = rng.choice([0, 1, 2, 3, 4, 6])
            self.emit(['pkt', rng.randrange(0, 4), [rng.randrange(0, 8) for _ in range(ln)]])
        elif r < 0.5:
            self.emit(['pkt', 1, [rng.choice([0, 6, 3, 4, 2, 5, 1, 7]), rng.randrange(0, 6),
                                  rng.choice([0, 0, 17, 2, 12, 5])]])
        elif r < 0.6 and n:
            self.emit(['create', rng.randrange(n)])
        elif r < 0.7 and n:
            self.emit(['addvar', rng.randrange(n), self.pick_name(), rng.choice(self.tids + [0])])
        elif r < 0.8 and n:
            self.emit([rng.choice(['start', 'stop', 'delete']), rng.randrange(n)])
        elif r < 0.9 and n:
            self.add(rng.randrange(n))
        else:
            self.emit(['linkdown'])

    def run_capacity(self):
        """a device with room for 1-2 blocks: later creations are refused with ENOMEM; a block is stopped and
        deleted; the refused configurations are started again (twice in a row sometimes, before the ack)"""
        rng = self.rng
        self.capacity = rng.choice([1, 1, 2])
        self.session()
        hs = []
        for _ in range(self.capacity + rng.choice([1, 2])):
            h = len(self.im.cfgs)
            self.emit(['new', 100])
            for _ in range(rng.choice([1, 2, 10])):
                self.emit(['addvar', h, self.pick_name(1.0), rng.choice([1, 4])])
            self.add(h)
            self.emit(['start', h])
            if rng.random() < 0.3:
                self.emit(['start', h])           # start() again before the acknowledgement
            self.deliver_all()
            hs.append(h)
        for _ in range(rng.choice([1, 2, 3])):
            victim = rng.choice(hs)
            self.emit(['stop', victim])
            self.emit(['delete', victim])
            self.deliver_all()
            for h in hs:
                if rng.random() < 0.8:
                    self.emit(['start', h])
                    self.deliver_all()
                    if rng.random() < 0.5:
                        self.data_packet(h)
        return self

    def deliver_all(self):
        for _ in range(6):
            if not self.acks:
                break
            a = self.acks.pop(0)
            self.stats['acks'] += 1
            self.emit(['pkt', 1, a])

    def run(self):
        rng = self.rng
        p = self.profile
        if p == 'capacity':
            return self.run_capacity()
        if p == 'noise' and rng.random() < 0.3:
            pass                                  # no session at all: link down, no TOC
        else:
            self.session()
        handles = []
        for _ in range(rng.choice([1, 1, 2, 3])):
            if rng.random() < 0.1:
                self.noise()
            h = self.new_config()
            handles.append(h)
            self.add(h)
            if rng.random() < 0.9:
                self.emit(['start', h])
            self.deliver(rng.choice([None, None, 1, 0]))
            for _ in range(rng.choice([0, 1, 2, 3])):
                self.data_packet(h)
            if p == 'noise':
                for _ in range(rng.randrange(0, 3)):
                    self.noise()
        self.deliver()
        rounds = rng.choice([0, 1, 1, 2]) if p != 'short' else 0
        for _ in range(rounds):
            act = rng.random()
            if act < 0.45:
                # reconnect and re-add
                if rng.random() < 0.8:
                    self.emit(['linkdown'])
                    if self.acks and rng.random() < 0.5:
                        self.deliver(rng.choice([1, 2, None]))      # acks of the old session, after the disconnect
                self.stats['reconnects'] += 1
                self.session(same_toc=rng.random() < 0.8)
                for h in handles:
                    if rng.random() < 0.85:
                        self.add(h)
                        if rng.random() < 0.8:
                            self.emit(['start', h])
                self.deliver()
                for h in handles:
                    if rng.random() < 0.6:
                        self.data_packet(h)
            elif act < 0.8:
                for h in handles:
                    op = rng.choice(['stop', 'delete', 'start', 'stop-start', 'readd'])
                    if op == 'stop-start':
                        self.emit(['stop', h])
                        self.deliver()
                        self.emit(['start', h])
                    elif op == 'readd':
                        self.add(h)
                        self.emit(['start', h])
                    else:
                        self.emit([op, h])
                    self.deliver(rng.choice([None, 1]))
                    if rng.random() < 0.5:
                        self.data_packet(h)
            else:
                for _ in range(rng.randrange(1, 5)):
                    self.noise()
                self.deliver()
        # many blocks: the MAX_BLOCKS / MAX_VARIABLES guards of create()
        if p == 'many':
            for _ in range(rng.choice([15, 17, 18])):
                h = len(self.im.cfgs)
                self.emit(['new', 100])
                for _ in range(rng.choice([1, 8, 9])):
                    self.emit(['addvar', h, self.pick_name(1.0), rng.choice([1, 4])])
                self.add(h)
                self.emit(['start', h])
                if rng.random() < 0.7:
                    self.deliver()
        return self

    def coq_term(self, fn='enc_run'):
        d = self.d
        k = 0
        parts = []
        for ev in self.evs:
            if ev[0] == 'settoc':
                parts.append(d.coq_ev(ev, self.im.model_tocs[k]))
                k += 1
            else:
                parts.append(d.coq_ev(ev))
        return fn + ' init_st [' + '; '.join(parts) + ']'

    def expected(self):
        out = []
        for r in self.recs:
            out += r
        return out

    def nontrivial(self):
        s = self.stats
        return s['accepted'] >= 1 and s['create_pkts'] >= 1 and (s['acks'] >= 1 or s['data_decoded'] >= 1)


def _locate(recs, model):
    """first event whose record differs"""
    pos = 0
    for i, r in enumerate(recs):
        m = None if model is None else model[pos:pos + len(r)]
        if m != r:
            return i, r, m
        pos += len(r)
    return len(recs), None, None if model is None else model[pos:]


def _gen_sync(rng):
    evs = [['connect']] if rng.random() < 0.9 else []
    n = 0
    for _ in range(rng.randrange(2, 25)):
        r = rng.random()
        if r < 0.4:
            n += 1
            evs.append(['sample', n])
        elif r < 0.8:
            evs.append(['next'])
        elif r < 0.86:
            evs.append(['linklost'])
        elif r < 0.92:
            evs.append(['disconnect'])
        else:
            evs.append(['connect'])
    evs += [['next']] * rng.randrange(0, 4)
    return evs


def _replay_events(evs, lag=0):
    """a fixed event list on a fresh implementation: (flattened hashed records, full records, Coq list)"""
    d = _driver()
    im = d.Impl()
    im.cf.lag = lag
    recs, full, parts = [], [], []
    k = 0
    for e in evs:
        flat, wires, code = im.apply(e)
        recs += flat
        full.append(im.last_full)
        if e[0] == 'settoc':
            parts.append(d.coq_ev(e, im.model_tocs[k]))
            k += 1
        else:
            parts.append(d.coq_ev(e))
    return recs, full, '[' + '; '.join(parts) + ']'


def _shrink_history(evs, rounds=16, lag=0):
    """delta debugging on the event list; every round evaluates all candidates in one batch of coqc runs"""
    cur = list(evs)
    chunk = max(1, len(cur) // 2)
    while rounds > 0 and len(cur) > 1:
        rounds -= 1
        cands = [cur[:i] + cur[i + chunk:] for i in range(0, len(cur), chunk)]
        cands = [c for c in cands if c]
        data = [_replay_events(c, lag) for c in cands]
        try:
            bad = coqrun.compare_blocks(HEADER, ['enc_run init_st ' + t for _, _, t in data], [r for r, _, _ in data],
                                        tag='c05k', shard=max(1, len(cands) // 12 + 1), timeout=600)
        except coqrun.CoqError:
            break
        idx = [bi for bi, _ in bad]
        if idx:
            cur = cands[min(idx, key=lambda i: len(cands[i]))]
            chunk = max(1, min(chunk, len(cur) // 2))
        elif chunk == 1:
            break
        else:
            chunk = max(1, chunk // 2)
    return cur


def tie(ctx):
    if hasattr(coqrun, 'build'):
        coqrun.build('C05/TieEnc.v', timeout=600)
    else:
        coqrun.make(['C05/TieEnc.vo'], timeout=600)
    rng = ctx.rng
    n = ctx.scale(240, 6000)
    gens = []
    for i in range(n):
        prof = 'capacity' if i % 10 == 3 else 'many' if i % 120 == 7 else ('noise' if i % 4 == 1 else ('short' if i % 4 == 2 else 'std'))
        gens.append(HistoryGen(rng, prof).run())
    terms = [g.coq_term() for g in gens]
    exp = [g.expected() for g in gens]
    dis = []
    bad = [bi for bi, _ in coqrun.compare_blocks(HEADER, terms, exp, tag='c05h', shard=max(4, n // 32 + 1),
                                                 timeout=900)]
    # the shortest differing histories are shrunk (events removed while model and implementation still
    # differ) and the difference is localised to an event
    for bi in sorted(bad, key=lambda i: len(gens[i].evs))[:2]:
        g = gens[bi]
        evs = _shrink_history(g.evs, lag=g.lag)
        recs, full, lst = _replay_events(evs, g.lag)
        hs = coqrun.eval_terms(HEADER, ['map rec_hash (enc_run_recs init_st %s)' % lst], tag='c05f', timeout=900)[0]
        d = _driver()
        i = 0
        while i < len(full) and i < len(hs):
            a, b2 = d.st_hash(full[i])
            if hs[i] != a + 65536 * b2:
                break
            i += 1
        m = coqrun.eval_terms(HEADER, ['nth %d (enc_run_recs init_st %s) []' % (i, lst)], tag='c05g',
                              timeout=900)[0] if i < len(full) else None
        dis.append({'what': 'log history: model and implementation differ', 'history': evs[:i + 1],
                    'radio_lag_packets': g.lag, 'shrunk_from_events': len(g.evs), 'shrunk_to_events': len(evs),
                    'event_index': i, 'event': evs[i] if i < len(evs) else None,
                    'impl_record': full[i] if i < len(full) else None, 'model_record': m,
                    'record_format': '[#obs] obs.. [exception] state.. (coq/C05/TieEnc.v enc_run_recs)'})
    if len(bad) > 2:
        dis.append({'what': 'log history: model and implementation differ', 'more_histories': len(bad) - 2})
    # SyncLogger scripts
    d = _driver()
    ns = ctx.scale(200, 4000)
    sterms, sexp, scripts = [], [], []
    for _ in range(ns):
        evs = _gen_sync(rng)
        run = d.SyncRun()
        sexp.append([run.apply(e) for e in evs])
        sterms.append('enc_sl_run [' + '; '.join(d.coq_sl_ev(e) for e in evs) + ']')
        scripts.append(evs)
    for bi, mv in coqrun.compare_blocks(HEADER, sterms, sexp, tag='c05s', shard=max(8, ns // 8 + 1), timeout=600):
        if len(dis) < 10:
            dis.append({'what': 'SyncLogger script: model and implementation differ', 'script': scripts[bi],
                        'impl': sexp[bi], 'model': mv})
    # SyncLogger under threads: system scripts on the real class behind the gate vs sys_step
    stt = _threads()
    nt = ctx.scale(150, 3000)
    tterms, texp, tcases = [], [], []
    for _ in range(nt):
        c = _gen_threads(rng, False)
        evs = [tuple(e) for e in c['script']]
        rows = stt.run_script(c['loggers'], evs)
        texp.append([v for row in rows for v in row])
        tterms.append(stt.coq_term(c['loggers'], evs))
        tcases.append(c)
    THEADER = HEADER + 'Require Import CF.C05.SyncThreads.\n'
    tbad = [bi for bi, _ in coqrun.compare_blocks(THEADER, tterms, texp, tag='c05t', shard=max(8, nt // 8 + 1),
                                                  timeout=600)]
    for bi in sorted(tbad, key=lambda i: len(tcases[i]['script']))[:2]:
        c = tcases[bi]
        evs = [tuple(e) for e in c['script']]
        # shrink: drop events while model and implementation still differ
        changed = True
        while changed and len(evs) > 1:
            changed = False
            cands = [evs[:i] + evs[i + 1:] for i in range(len(evs))]
            rows = [stt.run_script(c['loggers'], cd) for cd in cands]
            bad = coqrun.compare_blocks(THEADER, [stt.coq_term(c['loggers'], cd) for cd in cands],
                                        [[v for row in r for v in row] for r in rows], tag='c05u',
                                        shard=max(1, len(cands) // 12 + 1), timeout=600)
            if bad:
                evs = cands[bad[0][0]]
                changed = True
        rows = stt.run_script(c['loggers'], evs)
        mv = coqrun.eval_terms(THEADER, [stt.coq_term(c['loggers'], evs)], tag='c05v', timeout=600)[0]
        dis.append({'what': 'SyncLogger under threads: model and implementation differ', 'loggers': c['loggers'],
                    'script': evs, 'shrunk_from_events': len(c['script']),
                    'impl_rows': rows, 'model_flat': mv,
                    'row_format': '[observation] + per logger [connected, consumer in get(), pending sentinels, '
                                  'queue length, queue items..] (coq/C05/TieEnc.v enc_sys_run)'})
    if len(tbad) > 2:
        dis.append({'what': 'SyncLogger under threads: model and implementation differ', 'more_scripts': len(tbad) - 2})
    seen = set()
    nontriv = 0
    tot = {}
    for g in gens:
        hsh = hashlib.sha1(json.dumps(g.evs).encode()).hexdigest()
        if hsh not in seen:
            seen.add(hsh)
            if g.nontrivial():
                nontriv += 1
        for k, v in g.stats.items():
            tot[k] = max(tot.get(k, 0), v) if k == 'max_vars' else tot.get(k, 0) + v
    sseen = set(json.dumps(s) for s in scripts)
    snontriv = sum(1 for s in sseen if '"linklost"' in s or '"disconnect"' in s)
    tot['events'] = sum(len(g.evs) for g in gens)
    tot['histories'] = len(gens)
    tot['sync_scripts'] = ns
    tot['thread_scripts'] = nt
    tot['thread_events'] = sum(len(c['script']) for c in tcases)
    return {
        'evaluations': len(gens) + ns + nt,
        'distinct_nontrivial': nontriv + snontriv + len(set(
            json.dumps(c['script']) for c in tcases if any(e[0] == 'lostall' or e[-1] == 'disconnect' for e in c['script'])
            and any(e[-1] == 'get' for e in c['script']))),
        'rule': 'log histories: distinct event lists with >= 1 accepted add_config, >= 1 create/append packet sent and '
                '>= 1 ack or decoded data packet processed; SyncLogger: distinct scripts containing a link loss or a '
                'disconnect.  After EVERY event the wire packets, callbacks (with arguments), decoded samples, raised '
                'exception class and the complete state (Log counter/blocks/toc/link; every LogConfig: id, period, '
                'flags, pending, valid, err_no, variables, default_fetch_as) are compared with the Coq model',
        'samples': [{'history': gens[0].evs[:12]}, {'sync_script': scripts[0]}],
        'distribution': tot,
        'exhaustive': False,
        'disagreements': dis,
    }


# ------------------------------------------------------------------------------------------ oracle
# The property text checked on the real classes with an independent device: a block decoder for the
# create/append messages and a sample encoder for log data.  Nothing here uses the Coq model.
DEV_FMT = {1: '<B', 2: '<H', 3: '<L', 4: '<b', 5: '<h', 6: '<i', 7: '<f', 8: '<e'}
DEV_SIZE = {1: 1, 2: 2, 3: 4, 4: 1, 5: 2, 6: 4, 7: 4, 8: 2}
DEV_NAME = {1: 'uint8_t', 2: 'uint16_t', 3: 'uint32_t', 4: 'int8_t', 5: 'int16_t', 6: 'int32_t', 7: 'float',
            8: 'FP16'}
INT_RANGE = {1: (0, 255), 2: (0, 65535), 3: (0, 2 ** 32 - 1), 4: (-128, 127), 5: (-32768, 32767),
             6: (-2 ** 31, 2 ** 31 - 1)}


class _Fail(Exception):
    def __init__(self, cls, expected=None, observed=None, detail=''):
        Exception.__init__(self, cls)
        self.cls, self.expected, self.observed, self.detail = cls, expected, observed, detail


def _same_value(ty, sent, got):
    """sent: what the device encoded (int, or float bit pattern for 7/8); got: the Python value delivered"""
    import math
    if ty in INT_RANGE:
        return isinstance(got, int) and not isinstance(got, bool) and got == sent
    if not isinstance(got, float):
        return False
    fmt = DEV_FMT[ty]
    ref = struct.unpack(fmt, sent.to_bytes(DEV_SIZE[ty], 'little'))[0]
    if math.isnan(ref):
        return math.isnan(got)
    return struct.pack(fmt, got) == struct.pack(fmt, ref) and got == ref


def _device_decode(pkts, ident, v2=True):
    """firmware view of the create/append messages: list of (type byte, index).  v2: commands 6/7 with 16-bit
    indices (the current protocol); otherwise the legacy commands 0/1 with 8-bit indices"""
    out = []
    if not pkts:
        raise _Fail('create_no_message', 'at least one create message', [])
    for k, (port, chan, data, exp) in enumerate(pkts):
        if port != 5 or chan != 1:
            raise _Fail('create_wrong_port_channel', [5, 1], [port, chan])
        if len(data) > 30:
            raise _Fail('create_message_longer_than_30_bytes', '<= 30', len(data), 'message %d: %r' % (k, data))
        if len(data) < 2:
            raise _Fail('create_message_malformed', '>= 2 bytes', data)
        want = (6 if k == 0 else 7) if v2 else (0 if k == 0 else 1)
        if data[0] != want or data[1] != ident:
            raise _Fail('create_message_header', [want, ident], data[:2], 'message %d' % k)
        if list(exp) != [want, ident]:
            raise _Fail('create_expected_reply', [want, ident], list(exp))
        n = (len(data) - 2) // (3 if v2 else 2)
        if k > 0 and n == 0:
            raise _Fail('create_empty_append_message', '>= 1 variable', data)
        for j in range(n):
            if v2:
                t, lo, hi = data[2 + 3 * j: 5 + 3 * j]
                out.append([t, lo + 256 * hi])
            else:
                t, i8 = data[2 + 2 * j: 4 + 2 * j]
                out.append([t, i8])
    return out


def _check_block(case):
    """runs one block scenario on the real code; raises _Fail on the first deviation from the property"""
    d = _driver()
    im = d.Impl()
    cf = im.cf

    im.cf.lag = case.get('lag', 99)      # the link keeps references; the radio reads them `lag` packets later

    def ev(e):
        flat, wires, code = im.apply(e)
        if im.resend_diff:
            b = im.resend_diff[0]
            raise _Fail('sent_packet_changed_before_transmission', b['commanded'],
                        {'transmitted': b['transmitted'], 'resent': b['resent']},
                        'event %r: the packet object handed to send_packet was modified afterwards; the radio '
                        '(%d packets behind) and the resend timer read the later content' % (e, im.cf.lag))
        return wires, code, list(im.obs)
    toc = {}
    for nm, ident, ty in case['toc']:
        toc[nm] = (ident, ty)

    gens2 = case.get('v2', [True, True])      # protocol generation of the first / the reconnect session
    cur_v2 = [gens2[0]]

    def open_session(table=None, v2=None, between=(), mid=None):
        if v2 is not None:
            cur_v2[0] = v2
        ev(['refresh', cur_v2[0]])
        for pkt in between:                     # acknowledgements of the OLD session, before the reset reply
            im.apply(['pkt', 1, pkt])
        ev(['pkt', 1, [5, 0, 0]])
        if mid is not None:
            mid()
        if case.get('early_add') and im.cfgs and any(v[0] != 'm' for v in case['vars']):
            # add_config while the table of this session is still empty: must be rejected (its variables are
            # not in the table YET); it must not spoil the lookups once the table is there
            for _ in range(case['early_add']):
                w, code, obs = ev(['addcfg', 0])
                if code == 0 or w:
                    raise _Fail('accept_mismatch', 'rejected (empty table)', 'accepted' if code == 0 else w,
                                'add_config between the reset reply and the TOC of the session')
        ev(['settoc', table if table is not None else case['toc'], case.get('install', 'new')])
    ms = case['ms']
    spec = []          # what the user asked for: (name, fetch type or None, kind, stored, addr)

    def make_config():
        ev(['new', ms])
        for v in case['vars']:
            if v[0] == 't':
                ev(['addvar', 0, v[1], v[2]])
            elif v[0] == 'd':
                ev(['addvar', 0, v[1], 0])
            else:
                ev(['addmem', 0, v[1], v[2], v[3], v[4]])
            spec.append(v)
    open_session(mid=make_config)
    cfg = im.cfgs[0]
    typed = [v for v in spec if v[0] != 'd']
    dflt = [v for v in spec if v[0] == 'd']
    table_names = [v[1] for v in spec if v[0] != 'm']

    def cfg_state():
        return {'variables': [[v.name, v.fetch_as, v.stored_as, v.is_toc_variable()] for v in cfg.variables],
                'default_fetch_as': list(cfg.default_fetch_as),
                'log_blocks': [im._h(b) for b in im.log.log_blocks], 'id': cfg.id, 'cf_set': cfg.cf is not None,
                'counter': im.log._config_id_counter}
    # the configuration is offered to the table of the first session and, if that one rejects it, to the
    # table of a second session (`retry_toc`, a device that has every variable)
    tables = [case['toc']] + ([case['retry_toc']] if case.get('retry_toc') else [])
    accepted = False
    for k, table in enumerate(tables):
        if k > 0:
            ev(['linkdown'])
            open_session(table)
            toc.clear()
            for nm, ident, ty in table:
                toc[nm] = (ident, ty)
        in_toc = all(n in toc for n in table_names)
        resolved_ty = {v.name: v.fetch_as for v in cfg.variables[len(typed):]}
        size = sum(DEV_SIZE[v[2]] for v in typed) + sum(
            DEV_SIZE[resolved_ty.get(d.name_str(v[1]), toc[v[1]][1])] for v in dflt if v[1] in toc)
        want_accept = in_toc and (10 <= _period_fraction(ms) < 2550) and size <= 26
        st0 = cfg_state()
        wires, code, obs = ev(['addcfg', 0])
        if wires:
            raise _Fail('add_config_sent_packets', [], wires)
        if (code == 0) != want_accept:
            raise _Fail('accept_mismatch', 'accepted' if want_accept else 'rejected',
                        'accepted' if code == 0 else 'raised code %d' % code,
                        'add_config no. %d; names in TOC: %s, period_in_ms: %s, payload bytes: %s' % (
                            k + 1, in_toc, ms, size))
        if want_accept:
            accepted = True
            break
        # a rejected add announces nothing (nothing sent: checked above) and does not register the block
        st1 = cfg_state()
        quiet0 = {k2: st0[k2] for k2 in ('log_blocks', 'id', 'cf_set', 'counter')}
        quiet1 = {k2: st1[k2] for k2 in ('log_blocks', 'id', 'cf_set', 'counter')}
        if quiet1 != quiet0 or obs or cfg.valid:
            raise _Fail('rejected_add_announced_or_registered', quiet0, dict(quiet1, callbacks=obs, valid=cfg.valid),
                        'add_config no. %d raised (code %d)' % (k + 1, code))
    if not accepted:
        for op in ('start', 'stop', 'delete', 'create'):
            wires, code, obs = ev([op, 0])
            if wires:
                raise _Fail('rejected_config_sent_packets', [], wires, op)
        return
    # accepted: the configuration has exactly the variables the user asked for -- each name once, typed ones
    # first (with the requested type), then the default-typed ones in their order (with the stored type of a
    # table the configuration was offered to); nothing is left pending
    want_names = [d.name_str(v[1]) for v in typed] + [d.name_str(v[1]) for v in dflt]
    got_list = [[v.name, v.fetch_as] for v in cfg.variables]
    offered = {}
    for table in tables[:k + 1]:
        for nm, ident, ty in table:
            offered.setdefault(nm, set()).add(ty)
    types_ok = len(got_list) == len(want_names) and \
        all(g[1] == v[2] for g, v in zip(got_list, typed)) and \
        all(g[1] in offered.get(v[1], ()) for g, v in zip(got_list[len(typed):], dflt))
    if [g[0] for g in got_list] != want_names or not types_ok or cfg.default_fetch_as:
        raise _Fail('accepted_variable_list_mismatch',
                    [[d.name_str(v[1]), v[2]] for v in typed] + [[d.name_str(v[1]), toc[v[1]][1]] for v in dflt],
                    [got_list, list(cfg.default_fetch_as)],
                    'variable list of the accepted configuration (name, fetch type): every requested variable '
                    'exactly once, in order (add_config no. %d)' % (k + 1))
    if cfg not in im.log.log_blocks or not cfg.valid:
        raise _Fail('accepted_not_registered', True, [cfg.valid])
    # the variable list the block must have on the device
    want_vars = [[v[1], v[2], v[0] == 'm'] for v in typed] + \
        [[v[1], g[1], False] for v, g in zip(dflt, got_list[len(typed):])]

    def check_creation(tag):
        wires, code, obs = ev(['start', 0])
        if any(v[0] == 'm' for v in spec) and code == 3:
            raise _Fail('raw_memory_variable_create_typeerror', 'creation messages for %d variables' % len(want_vars),
                        'TypeError', 'LogConfig.add_memory variable: bytearray.append(bytes) in _setup_log_elements')
        if code:
            raise _Fail('create_raised' + tag, 'creation messages', 'exception code %d' % code)
        if any(v[0] == 'm' for v in spec):
            return None         # no device format to check raw-memory entries against
        if not wires and tag:
            raise _Fail('start_sends_no_creation' + tag, 'create message (the device does not hold the block)', [],
                        'start() of the accepted, not added configuration sent nothing (pending=%r)' % (cfg.pending,))
        if wires and wires[0][2][:1] == [3] and tag and tag != '_after_reconnect':
            raise _Fail('start_skips_create' + tag, 'create message (the device does not hold the block)', wires)
        if wires and wires[0][2][:1] == [3] and tag:
            raise _Fail('stale_added_flag_after_reconnect_start_skips_create',
                        'create message for the re-added block (the device was reset)', wires,
                        'added/started survive the reconnect, start() sends START for an id the device never saw')
        ents = _device_decode(wires, cfg.id, cur_v2[0])
        want = [[(f | (f << 4)) & 0x0F, toc[n][0]] for n, f, _m in want_vars]
        got = [[t & 0x0F, i] for t, i in ents]
        if got != want:
            raise _Fail('create_variables_mismatch' + tag, want, got,
                        'device-side (fetch type, index) list; protocol generation of the session: %s'
                        % ('V2 (6/7, 16-bit index)' if cur_v2[0] else 'legacy (0/1, 8-bit index)'))
        return wires
    wires = check_creation('')
    if wires is None:
        return
    import math
    period = math.floor(_period_fraction(ms) / 10)      # the period byte: whole steps of 10 ms
    got_samples = []
    cfg.data_received_cb.add_callback(lambda ts, data, c: got_samples.append((ts, dict(data), c)))

    def device_acks(tag, samples):
        """the device holds the block now and acknowledges: create ack -> added + added_cb + START(period);
        start ack -> started + started_cb; then its data packets must reach the callback"""
        w, code, obs = ev(['pkt', 1, [6 if cur_v2[0] else 0, cfg.id, 0]])
        if code or [x[2] for x in w] != [[3, cfg.id, period]] or not cfg.added:
            raise _Fail('create_ack_not_followed_by_start' + tag, [[3, cfg.id, period], 'added=True'],
                        [[x[2] for x in w], 'added=%s' % cfg.added, 'exception code %d' % code],
                        'the device acknowledged CREATE for block id %d' % cfg.id)
        if [o for o in obs if o[0] == 2] != [[2, 2, 0, 1, 1]]:
            raise _Fail('added_cb_mismatch' + tag, [[2, 2, 0, 1, 1]], obs)
        w, code, obs = ev(['pkt', 1, [3, cfg.id, 0]])
        if not cfg.started or obs != [[2, 4, 0, 1, 1]] or w:
            raise _Fail('start_ack_flag_or_cb' + tag, [True, [[2, 4, 0, 1, 1]]], [cfg.started, obs])
        for ts, vals in samples:
            payload = []
            for (n, f, _m), x in zip(want_vars, vals):
                if f in INT_RANGE:
                    payload += list(struct.pack(DEV_FMT[f], x))
                else:
                    payload += list(x.to_bytes(DEV_SIZE[f], 'little'))
            del got_samples[:]
            w, code, obs = ev(['pkt', 2, [cfg.id] + list(ts.to_bytes(3, 'little')) + payload])
            if code or len(got_samples) != 1:
                raise _Fail('sample_not_delivered_once' + tag, 1, [code, len(got_samples)])
            gts, gd, gc = got_samples[0]
            if gts != ts or gc is not cfg:
                raise _Fail('sample_timestamp', ts, gts)
            names = [d.name_str(n) for n, f, _m in want_vars]
            if list(gd.keys()) != names:
                raise _Fail('sample_names', names, list(gd.keys()))
            for (n, f, _m), x in zip(want_vars, vals):
                if not _same_value(f, x, gd[d.name_str(n)]):
                    raise _Fail('sample_value', [f, x], repr(gd[d.name_str(n)]), 'variable %s' % d.name_str(n))
    if case.get('refuse'):
        # the device has no room: it refuses the creation with an error status; the flags must not move and
        # nothing may be started.  Room is made on the device, the same configuration is started again in the
        # same session: the block must be created again
        status = case['refuse']
        w, code, obs = ev(['pkt', 1, [6 if cur_v2[0] else 0, cfg.id, status]])
        if code or w or cfg.added or cfg.started:
            raise _Fail('refused_create_ack_moved_flags_or_sent', [[], 'added=False', 'started=False'],
                        [[x[2] for x in w], 'added=%s' % cfg.added, 'started=%s' % cfg.started, 'exception code %d' % code],
                        'the device refused CREATE for block id %d with status %d' % (cfg.id, status))
        if any(o[0] == 2 and o[1] in (2, 4) for o in obs):
            raise _Fail('refused_create_ack_moved_flags_or_sent', 'no added_cb(cfg, flag) / started_cb(cfg, flag)', obs)
        if check_creation('_after_refusal') is None:
            return
    device_acks('', case['samples'])
    # stop / delete
    w, code, obs = ev(['stop', 0])
    if [x[2] for x in w] != [[4, cfg.id]]:
        raise _Fail('stop_packet', [[4, cfg.id]], w)
    w, code, obs = ev(['pkt', 1, [4, cfg.id, 0]])
    if cfg.started or obs != [[2, 4, 0, 1, 0]]:
        raise _Fail('stop_ack_flag_or_cb', [False, [[2, 4, 0, 1, 0]]], [cfg.started, obs])
    if case.get('delete'):
        w, code, obs = ev(['delete', 0])
        if [x[2] for x in w] != [[2, cfg.id]]:
            raise _Fail('delete_packet', [[2, cfg.id]], w)
        w, code, obs = ev(['pkt', 1, [2, cfg.id, 0]])
        if cfg.added or cfg.started or obs != [[2, 2, 0, 1, 0]]:
            raise _Fail('delete_ack_flag_or_cb', [False, False], [cfg.added, cfg.started, obs])
        rs = case.get('restart')
        if rs:
            # same session: the deleted configuration is started again (directly, or after add_config)
            old_id = cfg.id
            if rs == 'addstart':
                names0 = [(v.name, v.fetch_as) for v in cfg.variables]
                w, code, obs = ev(['addcfg', 0])
                if code or w or [(v.name, v.fetch_as) for v in cfg.variables] != names0:
                    raise _Fail('readd_same_session', 'accepted, unchanged, nothing sent',
                                [code, w, [(v.name, v.fetch_as) for v in cfg.variables]])
            if check_creation('_after_delete') is None:
                return
            device_acks('_after_delete', case['samples'][:1])
            if cfg.id != old_id:
                # traffic that still carries the id of the FIRST, deleted block (late data, late or duplicated
                # acknowledgements): it is not for this block -- nothing may be delivered, no flag may move
                for kind in case.get('old_traffic', []):
                    del got_samples[:]
                    if kind == 'data':
                        pl = []
                        for (n, f, _m) in want_vars:
                            pl += [0x5A] * DEV_SIZE[f]
                        w, code, obs = ev(['pkt', 2, [old_id, 9, 9, 9] + pl])
                    else:
                        w, code, obs = ev(['pkt', 1, [kind, old_id, 0]])
                    if got_samples or w or not cfg.added or not cfg.started or any(o[0] in (2, 3) for o in obs):
                        raise _Fail('traffic_for_deleted_block_id_applied_to_readded_block',
                                    {'delivered': 0, 'sent': [], 'added': True, 'started': True, 'callbacks': []},
                                    {'delivered': len(got_samples), 'sent': [x[2] for x in w], 'added': cfg.added,
                                     'started': cfg.started, 'callbacks': obs},
                                    'packet %r with the id %d of the deleted first block; the re-added block has id %d'
                                    % (kind, old_id, cfg.id))
            w, code, obs = ev(['stop', 0])
            if [x[2] for x in w] != [[4, cfg.id]]:
                raise _Fail('stop_packet_after_delete', [[4, cfg.id]], w)
            w, code, obs = ev(['pkt', 1, [4, cfg.id, 0]])
            if cfg.started or obs != [[2, 4, 0, 1, 0]]:
                raise _Fail('stop_ack_flag_or_cb_after_delete', [False, [[2, 4, 0, 1, 0]]], [cfg.started, obs])
    if not case.get('reconnect'):
        return
    # reconnect (possibly to a device whose TOC differs: other indices, variables removed or added) and
    # add the same configuration object again: everything must follow the CURRENT table
    before = [(v.name, v.fetch_as, v.is_toc_variable()) for v in cfg.variables]
    toc2_list = case.get('toc2') or case['toc']
    toc2 = {}
    for nm, ident, ty in toc2_list:
        toc2[nm] = (ident, ty)
    old_create = 6 if cur_v2[0] else 0

    def late(lst):
        return [[old_create if a[0] == 'create' else a[0], cfg.id, a[1]] for a in lst]
    ev(['linkdown'])
    # acknowledgements of the old session that were still in the receive queue are dispatched after the
    # disconnected callbacks (and some only after the next session has sent its reset request)
    for pkt in late(case.get('late', [])):
        im.apply(['pkt', 1, pkt])
    open_session(toc2_list, gens2[1], between=late(case.get('late2', [])))
    if cfg.added or cfg.started:
        raise _Fail('stale_added_flag_after_reconnect_start_skips_create', [False, False],
                    [cfg.added, cfg.started], 'the device was reset by the new session, the block does not exist any more')
    w, code, obs = ev(['addcfg', 0])
    after = [(v.name, v.fetch_as, v.is_toc_variable()) for v in cfg.variables]
    if after != before:
        raise _Fail('readd_duplicates_default_fetch_variables', before, after,
                    're-adding after a reconnect changed the variable list (code %d)' % code)
    if w:
        raise _Fail('add_config_sent_packets', [], w)
    want2 = all(n in toc2 for n in table_names)
    if (code == 0) != want2:
        raise _Fail('readd_accept_not_by_current_toc', 'accepted' if want2 else 'rejected (KeyError)',
                    'accepted' if code == 0 else 'raised code %d' % code,
                    'configured names %s; names in the TOC of the new session: %s' % (
                        table_names, [n for n in table_names if n in toc2]))
    if not want2:
        return
    toc.clear()
    toc.update(toc2)           # check_creation decodes against the table of the current session
    wires = check_creation('_after_reconnect')
    if wires is None:
        return
    device_acks('_after_reconnect', [])


def _check_sync(case):
    """SyncLogger: yields each decoded sample once, in order, ending at disconnect"""
    d = _driver()
    run = d.SyncRun()
    queued = []
    connected = False
    sessions = 0

    def cls(c):
        # a deviation in a second or later session of the same object is the stale-queue defect F05d
        return 'synclogger_reuse_stale_queue' if sessions >= 2 else c
    for e in case['script']:
        r = run.apply(e)
        if e[0] == 'connect':
            if not connected:
                sessions += 1
                queued = []
            connected = True
        elif e[0] == 'sample':
            if connected:
                queued.append(e[1])
        elif e[0] == 'next':
            if not connected:
                if r != 1:
                    raise _Fail(cls('sync_not_stopped_after_disconnect'), 'StopIteration', r)
            elif queued:
                want = queued.pop(0)
                if r != 10 + want:
                    raise _Fail(cls('sync_out_of_order_or_lost'), want,
                                r - 10 if r >= 10 else {1: 'StopIteration', 2: 'blocks'}.get(r, r))
            elif r != 2:
                raise _Fail(cls('sync_unexpected_yield'), 'blocks (queue empty)',
                            r - 10 if r >= 10 else {1: 'StopIteration'}.get(r, r))
        elif e[0] in ('linklost', 'disconnect'):
            connected = False
            queued = []


def _gen_block_case(rng, force=None):
    tids = sorted(DEV_SIZE)
    n_toc = rng.choice([12, 20, 30, 40])
    names = rng.sample(range(0, 44), n_toc)
    idents = rng.sample(range(0, 65536 if rng.random() < 0.6 else 300), n_toc)
    toc = [[nm, i, rng.choice(tids)] for nm, i in zip(names, idents)]
    tocd = {nm: ty for nm, i, ty in toc}
    mode = force or rng.choice(['ones', 'ones', 'mixed', 'boundary', 'boundary', 'small'])
    if mode == 'ones':
        k = rng.choice([0, 1, 8, 9, 10, 11, 17, 18, 19, 20, 25, 26, 27])
        tys = [rng.choice([1, 4]) for _ in range(k)]
    elif mode == 'small':
        tys = [rng.choice(tids) for _ in range(rng.randrange(1, 5))]
    else:
        target = rng.choice([25, 26, 26, 26, 27]) if mode == 'boundary' else rng.randrange(1, 28)
        tys, tot = [], 0
        while tot < target:
            t = rng.choice(tids)
            if tot + DEV_SIZE[t] > target:
                t = rng.choice([1, 4])
            tys.append(t)
            tot += DEV_SIZE[t]
    pool = list(names)
    rng.shuffle(pool)
    vs = []
    miss = rng.random() < 0.06
    dprob = 0.6 if rng.random() < 0.2 else 0.15
    for k, t in enumerate(tys):
        if not pool:
            break
        nm = pool.pop()
        r = rng.random()
        if r < dprob:
            # default type: choose a name whose stored type has the wanted size when possible
            cands = [p for p in pool if DEV_SIZE[tocd[p]] == DEV_SIZE[t]]
            if cands:
                pool.append(nm)
                nm = rng.choice(cands)
                pool.remove(nm)
            vs.append(['d', nm])
        elif r < 0.18:
            vs.append(['m', nm, t, rng.choice(tids), rng.randrange(0, 1 << 32)])
        else:
            vs.append(['t', nm, t])
    if miss and vs:
        absent = [x for x in range(44, 50)]
        vs[rng.randrange(len(vs))][1] = rng.choice(absent)
    ms = 100 if rng.random() < 0.7 else rng.choice([10, 9, 2549, 2550, 2540, 0, -10, 500, 19, 20, 3000])
    fp = _rand_period(rng)
    if fp is not None:
        ms = fp
    # samples
    want_types = [v[2] for v in vs if v[0] != 'd'] + [tocd.get(v[1], 1) for v in vs if v[0] == 'd']
    samples = []
    for _ in range(rng.choice([1, 2, 3])):
        vals = []
        for t in want_types:
            if t in INT_RANGE:
                lo, hi = INT_RANGE[t]
                vals.append(rng.choice([lo, hi, 0, rng.randint(lo, hi), rng.randint(lo, hi)]))
            elif t == 7:
                vals.append(rng.choice(FLOAT_SPECIALS32 + [rng.getrandbits(32)] * 6))
            else:
                vals.append(rng.choice(FLOAT_SPECIALS16 + [rng.getrandbits(16)] * 6))
        samples.append([rng.choice([0, 0xFFFFFF, rng.getrandbits(24), rng.getrandbits(24)]), vals])
    case = {'kind': 'block', 'toc': toc, 'ms': ms, 'vars': vs, 'samples': samples,
            'delete': rng.random() < 0.5, 'reconnect': rng.random() < 0.6}
    case['lag'] = rng.choice([0, 1, 2, 99, 99])
    case['install'] = rng.choice(['cache', 'cache', 'new'])      # how the session's table gets into Log.toc
    if rng.random() < 0.35:
        case['early_add'] = rng.choice([1, 1, 2])
    if rng.random() < 0.2:
        case['refuse'] = rng.choice([12, 12, 7, 2, 8])      # ENOMEM, E2BIG, ENOENT, ENOEXEC
    tn = [v for v in vs if v[0] != 'm']
    if len(tn) >= 2 and not miss and rng.random() < 0.2:
        # the first device lacks one of the variables (not the first one): rejected with KeyError; the
        # configuration is then offered again to a device that has them all
        dn = [v for v in tn if v[0] == 'd']
        pick = rng.choice(dn[1:]) if len(dn) >= 2 and rng.random() < 0.7 else rng.choice(tn[1:])
        case['retry_toc'] = toc
        case['toc'] = [e for e in toc if e[0] != pick[1]]
    if case['delete']:
        case['restart'] = rng.choice([None, 'start', 'addstart', 'addstart'])
        if case['restart'] == 'addstart':
            case['old_traffic'] = [rng.choice(['data', 'data', 4, 2, 3]) for _ in range(rng.randrange(0, 4))]
    if case['reconnect']:
        r = rng.random()
        used = [v[1] for v in vs if v[0] != 'm']
        if r < 0.25:
            pass                                    # same firmware
        else:
            t2 = [list(e) for e in toc]
            if r < 0.6:
                ids = [e[1] for e in t2]            # same variables, indices permuted
                rng.shuffle(ids)
                for e, i in zip(t2, ids):
                    e[1] = i
            elif r < 0.8:
                k = rng.randrange(1, 40)            # variables inserted in front: every index moves
                if max(e[1] for e in t2) + k > 65535:
                    k = 0
                t2 = [[44 + j, j, rng.choice(tids)] for j in range(min(k, 6))] + [[e[0], e[1] + k, e[2]] for e in t2]
            else:
                gone = set(rng.sample(used, min(len(used), rng.choice([1, 1, 2])))) if used else set()
                t2 = [e for e in t2 if e[0] not in gone]
                ids = [e[1] for e in t2]
                rng.shuffle(ids)
                for e, i in zip(t2, ids):
                    e[1] = i
            case['toc2'] = t2
    if case['reconnect'] and rng.random() < 0.45:
        acks = [['create', 0], ['create', 0], [3, 0], [3, 0], [4, 0], [2, 0], ['create', 17], [3, 2], ['create', 12]]
        case['late'] = [rng.choice(acks) for _ in range(rng.randrange(0, 3))]
        case['late2'] = [rng.choice(acks) for _ in range(rng.randrange(0, 3))]
    # the protocol generation may change between the sessions (firmware < 4: legacy messages, 8-bit indices)
    ntab = len([v for v in vs if v[0] != 'm'])
    r = rng.random()
    if ntab <= 12 and r < 0.3:
        def small(table):
            return [[e[0], 2 * k + 1, e[2]] for k, e in enumerate(table)]

        def big(table):
            ids = rng.sample(range(256, 65536), len(table))
            return [[e[0], i, e[2]] for e, i in zip(table, ids)]
        case['reconnect'] = True
        base2 = case.get('toc2') or case.get('retry_toc') or case['toc']
        if r < 0.22:
            case['v2'] = [False, True]
            case['toc'] = small(case['toc'])
            if case.get('retry_toc'):
                case['retry_toc'] = small(case['retry_toc'])
            case['toc2'] = big(base2)
        else:
            case['v2'] = [True, False]
            case['toc2'] = small(base2)
    return case


def _gen_sync_case(rng):
    return {'kind': 'sync', 'script': [e for e in _gen_sync(rng)]}


# ------------------------------------------------------------------------------------------ SyncLogger under threads
LOGGER_SETS = [[[0], [1, 2]], [[0], [1, 2]], [[0]], [[0, 1]], [[0], [1], [2]]]


def _threads():
    from fakes import c05_sync_threads
    return c05_sync_threads


def _gen_threads(rng, restricted):
    """a system script.  restricted (oracle): disconnect() is not called while that logger's consumer is inside
    get(), and connect() not between the two halves of a link loss (the two documented observations)"""
    loggers = rng.choice(LOGGER_SETS)
    n = len(loggers)
    conn = [False] * n
    inget = [False] * n
    pend = [0] * n
    mid = [False] * n
    pos = [0] * n
    k = 0
    evs = []
    stepwise = rng.random() < 0.6
    link = [True]

    def lost():
        link[0] = False
        for j in range(n):
            if conn[j] or mid[j]:
                conn[j] = False
                pend[j] += 1
    for _ in range(rng.randrange(6, 40)):
        r = rng.random()
        i = rng.randrange(n)
        if mid[i] and rng.random() < 0.6:
            # drive the connect() in progress: next configuration, a loss inside its send, or the end
            r2 = rng.random()
            if pos[i] < len(loggers[i]):
                if r2 < 0.3:
                    evs.append(['cfglose', i])
                    pos[i] += 1
                    lost()
                else:
                    evs.append(['op', i, 'ccfg'])
                    pos[i] += 1
            else:
                evs.append(['op', i, 'cend'])
                mid[i] = False
                conn[i] = True
            continue
        if r < 0.26:
            k += 1
            evs.append(['sample', rng.choice([0, 1, 2, 3, 3, 4] if rng.random() < 0.3 else
                                             [c for l in loggers for c in l]), k])
        elif r < 0.46:
            if inget[i] and not restricted and rng.random() < 0.7:
                evs.append(['op', i, 'get'])
            else:
                evs.append(['op', i, 'next'])
                if not inget[i] and conn[i]:
                    inget[i] = True
        elif r < 0.68:
            evs.append(['op', i, 'get'])
        elif r < 0.80:
            if restricted and (pend[i] or mid[i]):
                continue
            if not link[0] and rng.random() < 0.8:
                evs.append(['linkup'])
                link[0] = True
            if stepwise and rng.random() < 0.7:
                evs.append(['op', i, 'cbegin'])
                if not conn[i] and not mid[i]:
                    mid[i], pos[i] = True, 0
            else:
                evs.append(['op', i, 'connect'])
                if not mid[i]:
                    conn[i] = True
        elif r < 0.85:
            if restricted and (inget[i] or mid[i]):
                continue
            evs.append(['op', i, 'disconnect'])
            if not mid[i]:
                conn[i] = False
        elif r < 0.93:
            evs.append(['lostall'])
            lost()
        else:
            evs.append(['op', i, 'lost2'])
            pend[i] = max(0, pend[i] - 1)
        if restricted and rng.random() < 0.5:
            for j in range(n):
                if pend[j]:
                    evs.append(['op', j, 'lost2'])
                    pend[j] -= 1
    return {'kind': 'threads', 'loggers': loggers, 'script': evs, 'restricted': restricted}


def _check_threads(case):
    """the clause text on the real SyncLogger with real threads: every logger yields the samples of its own
    blocks decoded between its connect and disconnect, each once, in order, and then stops; once a link loss
    has completed -- also one that happened at any point of connect() -- it is never left blocked"""
    st = _threads()
    loggers = case['loggers']
    n = len(loggers)
    run = st.Run(loggers)
    try:
        conn = [False] * n
        busy = [False] * n          # consumer inside get()
        pend = [0] * n
        mid = [False] * n           # the user thread is inside connect()
        pos = [0] * n
        hears = [False] * n         # from the start of connect() to disconnect: a link loss reaches the logger
        dreg = [set() for _ in range(n)]
        link = [True]
        known = set()               # configurations accepted by add_config at some time
        blk = set()                 # configurations in log_blocks (accepted since the last log reset)
        q = [[] for _ in range(n)]  # what the queue of logger i must hold: sample numbers, 'D' = sentinel

        def result(i, code, what):
            if busy[i] and not q[i]:
                if code != 4:
                    raise _Fail('sync_threads_wrong_yield', 'blocked (nothing delivered)', code, what)
                return
            head = q[i].pop(0)
            busy[i] = False
            want = 1 if head == 'D' else 10 + head
            if code == 4:
                raise _Fail('sync_threads_blocked_with_data' if head != 'D' else 'sync_threads_blocked_after_link_loss',
                            'returns %s' % ('StopIteration' if head == 'D' else head), 'stays blocked', what)
            if code != want:
                raise _Fail('sync_threads_wrong_yield', 'StopIteration' if head == 'D' else head,
                            {1: 'StopIteration'}.get(code, code - 10 if code >= 10 else code), what)

        def lost():
            link[0] = False
            for i in range(n):
                if hears[i]:
                    if conn[i]:
                        conn[i] = False
                        hears[i] = False
                        dreg[i] = set()
                    pend[i] += 1

        def turn(i, c):
            """one turn of the loop of connect(): False = start() raises (never accepted, link down)"""
            dreg[i].add(c)
            if link[0]:
                known.add(c)
                blk.add(c)
            return c in known

        def cfg_step(i, code):
            if turn(i, loggers[i][pos[i]]):
                pos[i] += 1
                if code not in (0, None):
                    raise _Fail('sync_threads_connect_failed', 0, code)
            else:
                mid[i] = False            # connect() raised AttributeError: not connected
                if code not in (5, None):
                    raise _Fail('sync_threads_connect_failed', 'AttributeError', code)
        for e in list(case['script']):
            k = e[0]
            if k == 'sample':
                run.apply(e)
                for i in range(n):
                    if e[1] in dreg[i] and e[1] in blk:
                        q[i].append(e[2])
                continue
            if k == 'lostall':
                run.apply(e)
                lost()
                continue
            if k == 'linkup':
                run.apply(e)
                if not link[0]:
                    blk.clear()          # new session: the log reset removed every block
                link[0] = True
                continue
            if k == 'cfglose':
                i = e[1]
                code = run.apply(e)[0]
                if mid[i] and pos[i] < len(loggers[i]):
                    cfg_step(i, code)
                lost()
                continue
            i, op = e[1], e[2]
            if case.get('restricted') and ((op == 'disconnect' and busy[i]) or
                                           (op in ('connect', 'cbegin') and pend[i])):
                continue                  # outside the clause: see design.d/C05.md (observations)
            if mid[i] and op in ('connect', 'disconnect', 'cbegin'):
                continue                  # the user thread is busy
            code = run.apply(e)[0]
            if op in ('connect', 'cbegin'):
                if conn[i]:
                    if code != 3:
                        raise _Fail('sync_threads_connect_twice', 'raises', code)
                else:
                    q[i] = []
                    hears[i] = True
                    if op == 'connect':
                        ok = True
                        for c in loggers[i]:
                            if not turn(i, c):
                                ok = False
                                break
                        if code != (0 if ok else 5):
                            raise _Fail('sync_threads_connect_failed', 0 if ok else 'AttributeError', code)
                        conn[i] = ok
                    else:
                        if code != 0:
                            raise _Fail('sync_threads_connect_failed', 0, code)
                        mid[i], pos[i] = True, 0
            elif op == 'ccfg':
                if mid[i] and pos[i] < len(loggers[i]):
                    cfg_step(i, code)
            elif op == 'cend':
                if mid[i] and pos[i] == len(loggers[i]):
                    mid[i] = False
                    conn[i] = True
            elif op == 'disconnect':
                if conn[i]:
                    conn[i] = False
                    hears[i] = False
                    dreg[i] = set()
            elif op == 'lost2':
                if pend[i]:
                    pend[i] -= 1
                    q[i].append('D')
            elif op == 'next':
                if busy[i]:
                    continue
                if not conn[i]:
                    if code != 1:
                        raise _Fail('sync_threads_not_stopped', 'StopIteration', code, 'next() while not connected')
                else:
                    if code != 2:
                        raise _Fail('sync_threads_wrong_yield', 'enters get()', code)
                    busy[i] = True
            elif op == 'get':
                if busy[i]:
                    result(i, code, 'get() of logger %d' % i)
        # the end: finish the connects and the link losses; every consumer whose session has ended (or that
        # has a sentinel queued) must come to StopIteration
        if case.get('restricted'):
            for i in range(n):
                while mid[i] and pos[i] < len(loggers[i]):
                    cfg_step(i, run.apply(['op', i, 'ccfg'])[0])
                if mid[i]:
                    run.apply(['op', i, 'cend'])
                    mid[i] = False
                    conn[i] = True
                while pend[i]:
                    run.apply(['op', i, 'lost2'])
                    pend[i] -= 1
                    q[i].append('D')
                for _ in range(len(q[i]) + 2):
                    if not busy[i]:
                        code = run.apply(['op', i, 'next'])[0]
                        if not conn[i]:
                            if code != 1:
                                raise _Fail('sync_threads_not_stopped', 'StopIteration', code, 'after the session ended')
                            break
                        if code != 2:
                            raise _Fail('sync_threads_wrong_yield', 'enters get()', code)
                        busy[i] = True
                    if not q[i]:
                        break             # still connected, nothing delivered: waiting is right
                    was_d = q[i][0] == 'D'
                    result(i, run.apply(['op', i, 'get'])[0], 'final get() of logger %d' % i)
                    if was_d:
                        break
    finally:
        run.close()


def _run_case(case):
    try:
        if case['kind'] == 'block':
            _check_block(case)
        elif case['kind'] == 'threads':
            _check_threads(case)
        else:
            _check_sync(case)
    except _Fail as f:
        return {'class': f.cls, 'case': case, 'expected': f.expected, 'observed': f.observed, 'detail': f.detail}
    return None


def _shrink(case, cls, budget=400):
    """greedy reduction of a failing case: keep a candidate when it still fails with the same class"""
    import copy

    def fails(c):
        try:
            f = _run_case(c)
        except Exception:
            return False
        return f is not None and f['class'] == cls
    cur = copy.deepcopy(case)
    n = [0]

    def attempt(c):
        n[0] += 1
        return n[0] <= budget and fails(c)
    changed = True
    while changed and n[0] < budget:
        changed = False
        if cur['kind'] in ('sync', 'threads'):
            for i in range(len(cur['script'])):
                c = dict(cur, script=cur['script'][:i] + cur['script'][i + 1:])
                if attempt(c):
                    cur, changed = c, True
                    break
            continue
        cands = []
        for key, val in (('reconnect', False), ('delete', False), ('restart', None), ('toc2', None), ('refuse', None),
                         ('v2', None), ('late', []), ('late2', []), ('early_add', None), ('old_traffic', []),
                         ('samples', []),
                         ('ms', 100)):
            if cur.get(key) not in (val, None) or (key == 'ms' and cur.get('ms') != 100):
                c = copy.deepcopy(cur)
                if val is None:
                    c.pop(key, None)
                else:
                    c[key] = val
                cands.append(c)
        for i in range(len(cur['vars'])):
            c = copy.deepcopy(cur)
            del c['vars'][i]
            c['samples'] = [[ts, vals[:i] + vals[i + 1:]] if len(vals) > i else [ts, vals] for ts, vals in c['samples']]
            c['samples'] = []          # sample layout depends on the variable order: drop them with the variable
            cands.append(c)
        used = set(v[1] for v in cur['vars'])
        for key in ('toc', 'retry_toc', 'toc2'):
            if cur.get(key):
                keep = [e for e in cur[key] if e[0] in used]
                if len(keep) < len(cur[key]):
                    c = copy.deepcopy(cur)
                    c[key] = keep
                    cands.append(c)
        for c in cands:
            if attempt(c):
                cur, changed = c, True
                break
    return cur


def _corpus():
    p = os.path.join(coqrun.VERIF, 'corpus', 'C05')
    out = []
    if os.path.isdir(p):
        for f in sorted(os.listdir(p)):
            if f.endswith('.json'):
                out.append(json.load(open(os.path.join(p, f)))['case'])
    return out


def oracle(ctx, deep=False):
    import random
    rng = random.Random(ctx.seed * 7919 + 17)
    fails = []
    n = 0
    cases = list(_corpus())
    nb = ctx.scale(500, 8000) * (4 if deep else 1)
    cases += [_gen_block_case(rng) for _ in range(nb)]
    cases += [_gen_sync_case(rng) for _ in range(ctx.scale(200, 3000))]
    cases += [_gen_threads(rng, True) for _ in range(ctx.scale(150, 2500))]
    seen = {}
    for c in cases:
        n += 1
        f = _run_case(c)
        if f is not None:
            k = f['class']
            seen[k] = seen.get(k, 0) + 1
            if seen[k] <= 1 or (len(json.dumps(f['case'])) < len(json.dumps(
                    next(x for x in fails if x['class'] == k)['case']))):
                fails = [x for x in fails if x['class'] != k] + [f]     # keep the smallest witness per class
    for f in fails:
        try:
            f['case'] = _shrink(f['case'], f['class'])
            g = _run_case(f['case'])
            if g is not None and g['class'] == f['class']:
                f.update(g)
        except Exception:
            pass
    return {'evaluations': n, 'failures': fails,
            'rule': 'random block scenarios on the real Log/LogConfig with an independent device (accept iff, nothing '
                    'sent when rejected, V2 create/append messages decoded as the firmware does, acks -> flags and '
                    'callbacks, samples encoded by type -> callback values, stop/delete, reconnect + re-add) and '
                    'SyncLogger scripts (FIFO, stop at disconnect)',
            'failure_counts': seen}


def replay(payload, ctx):
    return _run_case(payload['case'])


TRUSTED_BASE = [
    'C05/Model.v is hand-written from cflib/crazyflie/log.py, toc.py and syncLogger.py (with the repairs F05b, F05c, F05d); '
    'tied on every run by differential execution of random histories on the real classes (fake Crazyflie), comparing '
    'after every event the packets sent, callbacks, decoded samples, exception class and the complete state',
    'the fake link keeps packet references and reads them 0/1/2 packets or a whole call later, and once more as a resend',
    'C05/Gen_Consts.v (type table, MAX_LEN, MAX_DATA_SIZE, commands, error codes) is regenerated from the source by a '
    'fail-closed ast reader (harness/props/c05_gen.py); the proofs are re-checked against it',
    'device side (firmware) of the theorems: create/append payload = array of {u8 type, u16 index}, count = (size-2)/3 '
    '(trailing partial entry ignored); log data = block id, 24-bit LE timestamp, values little-endian by fetch type. '
    'Written from protocol knowledge (firmware source not available offline)',
    'CPython struct for "<e"/"<f" is a bit cast (floats are carried as bit patterns, all NaNs identified in the tie)',
]
ASSUMPTIONS = [
    'period_in_ms is an int or a float (numpy.float64 included) in the normal binary64 range; the model computes '
    'int(period_in_ms / 10) from the exact rational value (fperiod: IEEE quotient, truncation)',
    'variable names are well-formed "group.name"; type names passed to add_variable/add_memory are in LogTocElement.types',
    'single-threaded: packets are handled one at a time by Log._new_packet_cb (as the incoming-packet thread does)',
    'SyncLogger.next() is only called when it would not block (queue non-empty or not connected); a blocked get() is '
    'the YBlocked observation of the model',
]
PROVED = ('Over the model: add_config accepts iff names in TOC, 1<=int(ms/10)<=254 and payload<=26 and never sends; a '
          'rejected add_config announces and registers nothing; INVARIANT for every history: nothing but add_variable/'
          'add_memory duplicates, drops or reorders a requested name (add_config only moves pending names, in order, to '
          'the typed list), so an accepted configuration enumerates each requested variable exactly once; a '
          'never-accepted configuration sends nothing in any history; for table variables the V2 create/append '
          'messages are each <=30 bytes, headed 6/7+id, decoded by the device into exactly the variables in order '
          '(split after every 9th variable, ceil(n/9) messages), create() always terminates; unpack_log_data and the '
          'data-packet branch return exactly the encoded values for every type mix and the 24-bit timestamp; '
          'added/started and their callbacks change exactly as the acknowledgements say and by nothing else; START is '
          'sent exactly on the first positive create ack; the variable list of an accepted configuration is stable under '
          'every later history including reconnect and re-add (F05b repaired) and the acknowledged reset of a new session clears the flags of all blocks '
          '(F05c repaired), so a re-added block is created again; protocol V1 creation message; SyncLogger session is '
          'FIFO, at-most-once, starts empty (F05d repaired) and stops at the disconnect; under threads (all interleavings of '
          'dispatcher, user and consumer steps, several loggers): yields a prefix of the own samples delivered in the session, '
          'nothing foreign or from an earlier session, and terminates after a completed link loss -- also a loss at any '
          'point of connect() (step-by-step connect, loss between steps or inside a send); the late-registration variant '
          'of connect() is refuted; value contract of a sent packet (fresh packet per create/append message: transmitted = '
          'commanded for every lag and resend schedule; shared packet object refuted); start() of a not added block '
          'always creates (a refusal does not wedge it; the pending-guarded variant is refuted); every accepted add binds '
          'the configuration to the protocol generation of the current session (bind-once refuted); the reset reply of a '
          'new session forgets added/started/pending whatever old acknowledgements arrived late (forget-at-disconnect refuted); '
          'lookups follow the installed table (memoised index refuted); packets reach a block only under its current id '
          '(stale id map refuted).')
NOT_PROVED = ('Refuted on the unchanged code and kept as a known finding: raw-memory variables (add_memory) make create() '
              'raise TypeError (F05a; why it is not repaired: findings/C05.json why_not_fixed).  Not covered: protocol V1 has '
              'its theorem but no room test exists in the code (more than 14 variables exceed 30 bytes); append '
              'acknowledgements are ignored by the code; samples still queued in SyncLogger at disconnect are dropped; '
              'Log.reset() (public) clears log_blocks without touching the flags; the firmware itself.  '
              'Observations under threads (not findings): disconnect() from another thread while the consumer is inside get() '
              'leaves it blocked; connect() between the two halves of _disconnected receives the old sentinel.  create() of a '
              'multi-message block is atomic in the model (a create ack handled between two of its send_packet calls would put '
              'START before the appends).')
