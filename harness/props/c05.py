"""C05 — log blocks are created as configured and log data decodes to device values.

generate : constants + type table of log.py/toc.py/crtpstack.py -> coq/C05/Gen_Consts.v (fail-closed ast reader)
tie      : random add/start/stop/delete/ack/data/reconnect/re-add histories run on the REAL Log/LogConfig
           (fake Crazyflie, packets fed into Log._new_packet_cb) and on the Coq model (coq/C05/Model.v `step`);
           after every event the observations (wire packets, callbacks, decoded samples, exception) and the
           complete state of every LogConfig and of Log are compared (digest, differing histories in full).
           SyncLogger: connect/sample/next/link-lost/disconnect scripts on the real SyncLogger vs `sl_step`.
oracle   : the property text on the real code with an independent device (block decoder / sample encoder).
"""
import hashlib
import json
import os
import struct

from core import coqrun
from props import c05_gen

ID = 'C05'
PROPERTY_FILE = 'C05/Property.v'
LEVEL = 'proof'
ALLOWED_AXIOMS = ()
HEADER = 'From CF Require Import C05.Model C05.TieEnc.\nOpen Scope Z_scope.\n'


def _driver():
    from fakes import c05_driver
    return c05_driver


def generate(ctx):
    c = c05_gen.write_consts(ctx.repo, coqrun.COQ_DIR)
    return {'file': 'C05/Gen_Consts.v', 'types': [[t[0], t[1], t[2], t[5]] for t in c['TYPES']],
            'MAX_LEN': c['MAX_LEN'], 'MAX_DATA_SIZE': c['MAX_DATA_SIZE'], 'err_codes': [e[0] for e in c['ERR']]}


# ------------------------------------------------------------------------------------------ generation
def _types():
    from cflib.crazyflie.log import LogTocElement
    return {k: v[2] for k, v in LogTocElement.types.items()}


MS_CHOICES = [100, 10, 20, 50, 500, 1000, 2540, 2549, 2550, 2560, 9, 5, 0, 11, 19, 10000, -10, -100, 2539, 15]
FLOAT_SPECIALS32 = [0, 0x80000000, 0x7F800000, 0xFF800000, 0x7FC00000, 0x7FC00001, 0xFFC12345, 1, 0x007FFFFF,
                    0x3F800000, 0x7F7FFFFF, 0x00800000]
FLOAT_SPECIALS16 = [0, 0x8000, 0x7C00, 0xFC00, 0x7E00, 0x7E01, 0xFE55, 1, 0x03FF, 0x3C00, 0x7BFF, 0x0400]


def _rand_payload(rng, types, sizes):
    out = []
    for t in types:
        n = sizes[t]
        r = rng.random()
        if t == 7 and r < 0.4:
            out += list(struct.pack('<I', rng.choice(FLOAT_SPECIALS32)))
        elif t == 8 and r < 0.4:
            out += list(struct.pack('<H', rng.choice(FLOAT_SPECIALS16)))
        elif r < 0.25:
            out += [rng.choice([0, 255, 128, 127])] * n
        else:
            out += [rng.randrange(256) for _ in range(n)]
    return out


class HistoryGen:
    """Generates one history while running it on the implementation (the simulated device answers what
    the implementation actually sent)."""

    def __init__(self, rng, profile):
        d = _driver()
        self.d = d
        self.rng = rng
        self.im = d.Impl()
        self.sizes = _types()
        self.tids = sorted(self.sizes)
        self.evs = []
        self.recs = []
        self.full = []
        self.acks = []           # pending device replies
        self.toc_entries = []
        self.profile = profile
        self.stats = {'accepted': 0, 'rejected': 0, 'create_pkts': 0, 'acks': 0, 'data': 0, 'data_decoded': 0,
                      'reconnects': 0, 'raised': 0, 'max_vars': 0, 'split': 0}

    def emit(self, ev):
        flat, wires, code = self.im.apply(ev)
        self.evs.append(ev)
        self.recs.append(flat)
        self.full.append(self.im.last_full)
        rng = self.rng
        if code:
            self.stats['raised'] += 1
        for (p, c, data, exp) in wires:
            if p == 5 and c == 1 and data:
                cmd = data[0]
                if cmd in (0, 6, 1, 7):
                    self.stats['create_pkts'] += 1
                    if cmd in (1, 7):
                        self.stats['split'] += 1
                if cmd == 5:
                    self.acks.append([5, 0, 0])
                elif len(data) >= 2:
                    r = rng.random()
                    if r < 0.82:
                        st = 0
                    elif r < 0.88:
                        st = 17
                    elif r < 0.92:
                        st = 2
                    else:
                        st = rng.choice([12, 7, 8, 5, 1, 255])
                    self.acks.append([cmd, data[1], st])
        return flat, wires, code

    def deliver(self, n=None):
        rng = self.rng
        k = len(self.acks) if n is None else min(n, len(self.acks))
        for _ in range(k):
            a = self.acks.pop(0)
            r = rng.random()
            if r < 0.04:
                continue                      # lost
            self.stats['acks'] += 1
            self.emit(['pkt', 1, a])
            if r > 0.95:
                self.emit(['pkt', 1, a])      # duplicated (retransmission)

    def make_toc(self, nmax=36):
        rng = self.rng
        n = rng.choice([0, 3, 8, 20, 30, 30, nmax, nmax, nmax, nmax])
        names = rng.sample(range(nmax + 4), min(n, nmax + 4))
        idents = rng.sample(range(0, 700), len(names)) if rng.random() < 0.8 else \
            [rng.randrange(0, 300) for _ in names]
        if rng.random() < 0.1 and len(idents) > 2:
            idents[0] = idents[1]             # duplicated ident
        ent = [[nm, idt, rng.choice(self.tids)] for nm, idt in zip(names, idents)]
        if rng.random() < 0.1 and ent:
            ent.append([ent[0][0], rng.randrange(700), rng.choice(self.tids)])   # name given twice
        return ent

    def session(self, same_toc=False):
        rng = self.rng
        self.emit(['refresh', rng.random() < 0.85])
        self.deliver()
        if not same_toc or not self.toc_entries:
            self.toc_entries = self.make_toc()
        elif rng.random() < 0.3 and self.toc_entries:
            self.toc_entries = [e for e in self.toc_entries if rng.random() < 0.9]
        if rng.random() < 0.95:
            self.emit(['settoc', self.toc_entries])

    def pick_name(self, in_toc=0.98):
        rng = self.rng
        if self.toc_entries and rng.random() < in_toc:
            return rng.choice(self.toc_entries)[0]
        return rng.randrange(0, 44)

    def new_config(self):
        rng = self.rng
        h = len(self.im.cfgs)
        ms = rng.choice(MS_CHOICES) if rng.random() < 0.8 else rng.randrange(-50, 3000)
        if rng.random() < 0.6:
            ms = 100
        self.emit(['new', ms])
        mode = rng.choice(['ones', 'ones', 'mixed', 'mixed', 'boundary', 'small'])
        if mode == 'ones':
            k = rng.choice([0, 1, 8, 9, 10, 11, 17, 18, 19, 20, 25, 26, 27, rng.randrange(0, 28)])
            tys = [rng.choice([1, 4]) for _ in range(k)]
        elif mode == 'small':
            tys = [rng.choice(self.tids) for _ in range(rng.randrange(0, 4))]
        else:
            target = rng.choice([24, 25, 26, 26, 26, 27, 28]) if mode == 'boundary' else rng.randrange(1, 30)
            tys, tot = [], 0
            while tot < target:
                t = rng.choice(self.tids)
                if tot + self.sizes[t] > target:
                    t = rng.choice([1, 4])
                tys.append(t)
                tot += self.sizes[t]
        in_toc = rng.choice([1.0, 1.0, 1.0, 1.0, 1.0, 0.97, 0.85])
        for t in tys:
            r = rng.random()
            if r < 0.03:
                self.emit(['addmem', h, self.pick_name(), t, rng.choice(self.tids), rng.randrange(0, 1 << 32)])
            elif r < 0.13:
                # default fetch type: the TOC decides the size
                self.emit(['addvar', h, self.pick_name(in_toc), 0])
            else:
                self.emit(['addvar', h, self.pick_name(in_toc), t])
        self.stats['max_vars'] = max(self.stats['max_vars'], len(tys))
        return h

    def add(self, h):
        flat, wires, code = self.emit(['addcfg', h])
        c = self.im.cfgs[h]
        if code == 0 and self.im.cf.link is not None:
            self.stats['accepted'] += 1
        elif code:
            self.stats['rejected'] += 1

    def data_packet(self, h):
        rng = self.rng
        c = self.im.cfgs[h]
        tys = [v.fetch_as for v in c.variables]
        pl = _rand_payload(rng, tys, self.sizes)
        r = rng.random()
        if r < 0.08 and pl:
            pl = pl[:-1]
        elif r < 0.14:
            pl = pl + [rng.randrange(256)]
        ts = [rng.randrange(256) for _ in range(3)] if rng.random() < 0.8 else rng.choice([[255] * 3, [0] * 3])
        ident = c.id if rng.random() < 0.93 else rng.randrange(0, 256)
        self.stats['data'] += 1
        flat, wires, code = self.emit(['pkt', 2, [ident] + ts + pl])
        if code == 0 and flat[0] > 0:
            self.stats['data_decoded'] += 1

    def noise(self):
        rng = self.rng
        r = rng.random()
        n = len(self.im.cfgs)
        if r < 0.3:
            ln = rng.choice([0, 1, 2, 3, 4, 6])
            self.emit(['pkt', rng.randrange(0, 4), [rng.randrange(0, 8) for _ in range(ln)]])
        elif r < 0.5:
            self.emit(['pkt', 1, [rng.choice([0, 6, 3, 4, 2, 5, 1, 7]), rng.randrange(0, 6),
                                  rng.choice([0, 0, 17, 2, 12, 5])]])
        elif r < 0.6 and n:
            self.emit(['create', rng.randrange(n)])
        elif r < 0.7 and n:
            self.emit(['addvar', rng.randrange(n), self.pick_name(), rng.choice(self.tids + [0])])
        elif r < 0.8 and n:
            self.emit([rng.choice(['start', 'stop', 'delete']), rng.randrange(n)])
        elif r < 0.9 and n:
            self.add(rng.randrange(n))
        else:
            self.emit(['linkdown'])

    def run(self):
        rng = self.rng
        p = self.profile
        if p == 'noise' and rng.random() < 0.3:
            pass                                  # no session at all: link down, no TOC
        else:
            self.session()
        handles = []
        for _ in range(rng.choice([1, 1, 2, 3])):
            if rng.random() < 0.1:
                self.noise()
            h = self.new_config()
            handles.append(h)
            self.add(h)
            if rng.random() < 0.9:
                self.emit(['start', h])
            self.deliver(rng.choice([None, None, 1, 0]))
            for _ in range(rng.choice([0, 1, 2, 3])):
                self.data_packet(h)
            if p == 'noise':
                for _ in range(rng.randrange(0, 3)):
                    self.noise()
        self.deliver()
        rounds = rng.choice([0, 1, 1, 2]) if p != 'short' else 0
        for _ in range(rounds):
            act = rng.random()
            if act < 0.45:
                # reconnect and re-add
                if rng.random() < 0.8:
                    self.emit(['linkdown'])
                self.stats['reconnects'] += 1
                self.session(same_toc=rng.random() < 0.8)
                for h in handles:
                    if rng.random() < 0.85:
                        self.add(h)
                        if rng.random() < 0.8:
                            self.emit(['start', h])
                self.deliver()
                for h in handles:
                    if rng.random() < 0.6:
                        self.data_packet(h)
            elif act < 0.8:
                for h in handles:
                    op = rng.choice(['stop', 'delete', 'start', 'stop-start', 'readd'])
                    if op == 'stop-start':
                        self.emit(['stop', h])
                        self.deliver()
                        self.emit(['start', h])
                    elif op == 'readd':
                        self.add(h)
                        self.emit(['start', h])
                    else:
                        self.emit([op, h])
                    self.deliver(rng.choice([None, 1]))
                    if rng.random() < 0.5:
                        self.data_packet(h)
            else:
                for _ in range(rng.randrange(1, 5)):
                    self.noise()
                self.deliver()
        # many blocks: the MAX_BLOCKS / MAX_VARIABLES guards of create()
        if p == 'many':
            for _ in range(rng.choice([15, 17, 18])):
                h = len(self.im.cfgs)
                self.emit(['new', 100])
                for _ in range(rng.choice([1, 8, 9])):
                    self.emit(['addvar', h, self.pick_name(1.0), rng.choice([1, 4])])
                self.add(h)
                self.emit(['start', h])
                if rng.random() < 0.7:
                    self.deliver()
        return self

    def coq_term(self, fn='enc_run'):
        d = self.d
        k = 0
        parts = []
        for ev in self.evs:
            if ev[0] == 'settoc':
                parts.append(d.coq_ev(ev, self.im.model_tocs[k]))
                k += 1
            else:
                parts.append(d.coq_ev(ev))
        return fn + ' init_st [' + '; '.join(parts) + ']'

    def expected(self):
        out = []
        for r in self.recs:
            out += r
        return out

    def nontrivial(self):
        s = self.stats
        return s['accepted'] >= 1 and s['create_pkts'] >= 1 and (s['acks'] >= 1 or s['data_decoded'] >= 1)


def _locate(recs, model):
    """first event whose record differs"""
    pos = 0
    for i, r in enumerate(recs):
        m = None if model is None else model[pos:pos + len(r)]
        if m != r:
            return i, r, m
        pos += len(r)
    return len(recs), None, None if model is None else model[pos:]


def _gen_sync(rng):
    evs = [['connect']] if rng.random() < 0.9 else []
    n = 0
    for _ in range(rng.randrange(2, 25)):
        r = rng.random()
        if r < 0.4:
            n += 1
            evs.append(['sample', n])
        elif r < 0.8:
            evs.append(['next'])
        elif r < 0.86:
            evs.append(['linklost'])
        elif r < 0.92:
            evs.append(['disconnect'])
        else:
            evs.append(['connect'])
    evs += [['next']] * rng.randrange(0, 4)
    return evs


def tie(ctx):
    coqrun.make(['C05/TieEnc.vo'], timeout=600)
    rng = ctx.rng
    n = ctx.scale(360, 6000)
    gens = []
    for i in range(n):
        prof = 'many' if i % 120 == 7 else ('noise' if i % 4 == 1 else ('short' if i % 4 == 2 else 'std'))
        gens.append(HistoryGen(rng, prof).run())
    terms = [g.coq_term() for g in gens]
    exp = [g.expected() for g in gens]
    dis = []
    bad = [bi for bi, _ in coqrun.compare_blocks(HEADER, terms, exp, tag='c05h', shard=max(4, n // 32 + 1),
                                                 timeout=900)]
    for bi in bad[:4]:
        g = gens[bi]
        mv = coqrun.eval_terms(HEADER, [g.coq_term('enc_run_full')], tag='c05f', timeout=900)[0]
        i, r, m = _locate(g.full, mv)
        dis.append({'what': 'log history: model and implementation differ', 'history': g.evs[:i + 1],
                    'event_index': i, 'event': g.evs[i] if i < len(g.evs) else None,
                    'impl_record': r, 'model_record': m,
                    'record_format': '[#obs] obs.. [exception] state.. (coq/C05/TieEnc.v enc_run_full)'})
    if len(bad) > 4:
        dis.append({'what': 'log history: model and implementation differ', 'more_histories': len(bad) - 4})
    # SyncLogger scripts
    d = _driver()
    ns = ctx.scale(300, 4000)
    sterms, sexp, scripts = [], [], []
    for _ in range(ns):
        evs = _gen_sync(rng)
        run = d.SyncRun()
        sexp.append([run.apply(e) for e in evs])
        sterms.append('enc_sl_run [' + '; '.join(d.coq_sl_ev(e) for e in evs) + ']')
        scripts.append(evs)
    for bi, mv in coqrun.compare_blocks(HEADER, sterms, sexp, tag='c05s', shard=max(8, ns // 8 + 1), timeout=600):
        if len(dis) < 10:
            dis.append({'what': 'SyncLogger script: model and implementation differ', 'script': scripts[bi],
                        'impl': sexp[bi], 'model': mv})
    seen = set()
    nontriv = 0
    tot = {}
    for g in gens:
        hsh = hashlib.sha1(json.dumps(g.evs).encode()).hexdigest()
        if hsh not in seen:
            seen.add(hsh)
            if g.nontrivial():
                nontriv += 1
        for k, v in g.stats.items():
            tot[k] = max(tot.get(k, 0), v) if k == 'max_vars' else tot.get(k, 0) + v
    sseen = set(json.dumps(s) for s in scripts)
    snontriv = sum(1 for s in sseen if '"linklost"' in s or '"disconnect"' in s)
    tot['events'] = sum(len(g.evs) for g in gens)
    tot['histories'] = len(gens)
    tot['sync_scripts'] = ns
    return {
        'evaluations': len(gens) + ns,
        'distinct_nontrivial': nontriv + snontriv,
        'rule': 'log histories: distinct event lists with >= 1 accepted add_config, >= 1 create/append packet sent and '
                '>= 1 ack or decoded data packet processed; SyncLogger: distinct scripts containing a link loss or a '
                'disconnect.  After EVERY event the wire packets, callbacks (with arguments), decoded samples, raised '
                'exception class and the complete state (Log counter/blocks/toc/link; every LogConfig: id, period, '
                'flags, pending, valid, err_no, variables, default_fetch_as) are compared with the Coq model',
        'samples': [{'history': gens[0].evs[:12]}, {'sync_script': scripts[0]}],
        'distribution': tot,
        'exhaustive': False,
        'disagreements': dis,
    }
