"""C18 — CPX framing, stream re-assembly, routing and CRTP tunnelling.

Tie (V): the real CPXPacket / SocketTransport / CPXRouter / TcpDriver / SerialDriver code is driven over a
scripted in-memory socket (every recv returns the next piece of a chosen fragmentation) and compared with the
Gallina model C18/Model.v evaluated by vm_compute on the same cases (digest comparison of the encoded
observations).  Finite parts are exhaustive: all 65 536 header byte pairs through _set_wire_data, all
attribute values through _get_wire_data, every fragmentation of short streams.

Oracle: the property text on the real code only (no model): field-wise round trip, version rejection,
re-assembly of the bytes produced by the real writePacket under exhaustive/random fragmentation, per-function
FIFO of the real router, CRTP tunnel identity against an independent 6-line encoder/decoder of the wire format.
"""
import contextlib
import hashlib
import io
import itertools
import json
import logging
import os
import queue
import struct
import glob
import sys
import threading

from core import coqrun

ID = 'C18'
PROPERTY_FILE = 'C18/Property.v'
LEVEL = 'proof'
ALLOWED_AXIOMS = ()
TRUSTED_BASE = [
    'C18/Model.v and C18/Uart.v are hand-written from cflib/cpx/__init__.py (CPXPacket, CPXRouter, CPX), cflib/cpx/transports.py '
    '(SocketTransport, UARTTransport), cflib/crtp/tcpdriver.py and serialdriver.py (send_packet, _CPXReceiveThread.run) and '
    'CRTPPacket.__init__; tied on every run by differential evaluation against the real classes over a scripted in-memory '
    'socket / serial port (exhaustive for the header codec and for all fragmentations of short streams; the CPX facade with '
    'its router running as a real thread behind a deterministic gate)',
    'the socket model: recv(n) returns a non-empty prefix of at most n pending bytes (a list of pieces covers every such '
    'behaviour: the pieces a run returned reproduce the run); send(buf) takes between 1 and len(buf) bytes; sendall loops '
    'over send (CPython socket semantics)',
    'the remote end (firmware) is represented by the same decoder/encoder as the host side',
]
ASSUMPTIONS = [
    "struct.pack('H', n) is little-endian on this platform (native order); checked by the tie and by the oracle's "
    'independent decoder on every run',
    'recv never returns b"" (a closed connection makes _readData spin forever: a liveness defect outside the property, '
    'recorded as an observation in design.d/C18.md)',
    'router thread and other threads interleave at the granularity of whole run() iterations / receivePacket / sendPacket '
    'calls (queue.Queue operations are atomic; the gate lets exactly one thread move at a time)',
    'the model describes the code with fixes/F18a.patch (sendall), F18b.patch (prefix from len(data)), F18c.patch (UART '
    'size check before the lock), F18d.patch (write lock around sendall) and F18e.patch (CRTP queue exists before the router '
    'thread starts) applied',
    'TcpDriver sessions: the receive thread polls with a 0.1 s wall-clock timeout; the harness waits (bounded) until it has '
    'emptied the CRTP queue after each router iteration, so in_queue contents are compared at quiescent points',
    'concurrent senders interleave at the granularity of socket send calls (socket.sendall is a loop over send and is not '
    'atomic between threads); with the write lock of F18d no atomicity of sendall is assumed',
]
PROVED = ('Over the model: CPXPacket encode/decode round trip for all 4x4x7x2 attribute combinations and every '
          'payload; unsupported versions rejected (packet level, byte level, and inside a stream with the reader '
          'staying aligned); for every list of packets and every fragmentation of its byte stream (also against a socket '
          'returning arbitrary non-empty prefixes) readPacket returns exactly that list and then end-of-stream; for arbitrary '
          'bytes the result is independent of the fragmentation; whatever part of the buffer each send call takes the whole '
          'frame reaches the stream; packets whose data was assigned after construction are framed by their data; the router '
          'delivers, per function, exactly the packets that arrived while its queue existed, in arrival order, only to '
          'receivers of that function, for every interleaving; router on the real transport and the CPX facade (send, '
          'receive, makeTransaction, close) equal the router on the packet list; what receivers of a function observe depends only '
          'on the events of that function (no bound on a queue, the router never waits) and the router consumes the whole stream; '
          'any interleaving of the atomic frame writes of concurrent senders re-assembles to an interleaving of their sequences; '
          'CRTP header and payload unchanged through '
          'send_packet and the receive thread (header modulo the two reserved bits CRTPPacket forces to 1); UART framing '
          'round trip, noise skipping, oversize refusal leaving the link usable, connect handshake, frames between arbitrary '
          'noise, checksum behaviour; TcpDriver as a whole: connect, downlink into in_queue in order for any fragmentation, '
          'receive_packet for any wait argument, uplink frames, close; makeTransaction under traffic of other functions.')
NOT_PROVED = ('SerialDriver.connect device lookup (pyserial list_ports); behaviour on a closed socket (recv returning b""); a UART checksum mismatch is '
              'only printed by the code (packet still delivered) - modelled, not a preservation claim; byte-code level '
              'interleavings. Packets of a function nobody has asked for yet are dropped by the router: stated in the theorem '
              '(accepted), not a preservation claim.')

HEADER = ('From CF Require Import Common.Bytes Common.Digest C18.Model.\nOpen Scope Z_scope.\n'
          'Fixpoint zr_ (n : nat) (lo : Z) : list Z := match n with O => [] | S k => lo :: zr_ k (lo + 1) end.\n'
          'Definition zr (lo : Z) (n : Z) : list Z := zr_ (Z.to_nat n) lo.\n'
          'Definition h64 (m : Z) (l : list Z) : Z := fold_left (fun h v => Z.land (h * m + v + 1) 18446744073709551615) l 7.\n'
          'Definition hh (l : list Z) : list Z := [zlen l; h64 1000003 l; h64 6364136223846793005 l].\n'
          'Definition enc1 (r : res cpx) : Z := match r with\n'
          '  | Ok p => c_src p + 8 * c_dst p + 64 * c_fn p + 4096 * (if c_last p then 1 else 0) + 8192 * c_ver p\n'
          '            + 65536 * c_len p + 16777216 * zlen (c_data p) + 4294967296 * le_val (c_data p)\n'
          '  | Exc e => - enc_exc e end.\n'
          'Definition pat (a b n : Z) : list Z := map (fun i => Z.land (a * i + b) 255) (zr 0 n).\n'
          'Definition qfs : list Z := [0; 1; 2; 3; 4; 5; 9; 14; 15; 63].\n'
          'Definition mk_script (l : list Z) : list sev := map (fun z => if z <? 0 then Pump else SRecv z) l.\n'
          'Definition run_case (s : sock) (script : list Z) : list Z :=\n'
          '  let \'(s1, st1, os) := sys_run s r_init (mk_script script) in\n'
          '  zlen (concat s1) :: flat (map enc_obs os) ++ concat (map (fun f => enc_queue (st1 f)) qfs).\n'
          'Definition rx_case (s : sock) (n : Z) : list Z :=\n'
          '  let \'(s1, st1, os) := sys_run s r_init (SRecv F_CRTP :: repeat Pump (Z.to_nat n)) in\n'
          '  flat (flat_map (fun p => match tunnel_rx p with Some k => [enc_crtp (Some k)] | None => [] end) (pending F_CRTP st1)).\n'
          'Definition read_case (s : sock) (n : Z) : list Z :=\n'
          '  let \'(rs, s1) := read_n (Z.to_nat n) s in zlen (concat s1) :: flat (map enc_res rs).\n'
          'Definition all_cuts_case (b : list Z) (n : Z) : list Z :=\n'
          '  let cs := all_chunkings b in let r0 := read_case [b] n in\n'
          '  (if forallb (fun s => zlist_eqb (read_case s n) r0) cs then 1 else 0) :: zlen cs :: r0.\n'
          'Definition mkp (s d f l v n : Z) (data : list Z) : cpx := mk_cpx s d f (negb (l =? 0)) v n data.\n')

HEADER_U = HEADER + ('From CF Require Import C18.Uart.\n'
                     'Definition uart_case (ops : list uop) (b : list Z) (lock : Z) : list Z :=\n'
                     '  let \'(os, b2, l2) := uart_run ops b (negb (lock =? 0)) in\n'
                     '  zlen b2 :: (if l2 then 1 else 0) :: flat os.\n')

HEADER_C = HEADER + ('Definition cpx_case_reg (fs takes : list Z) (s : sock) (evs : list cev) : list Z :=\n'
                     '  let \'(c, os) := c_run takes (mk_cs s (r_reg fs) true) evs in\n'
                     '  zlen (concat (cs_in c)) :: (if cs_open c then 1 else 0) :: flat (map enc_cobs os)\n'
                     '  ++ concat (map (fun f => enc_queue (cs_rt c f)) qfs).\n'
                     'Definition cpx_case (takes : list Z) (s : sock) (evs : list cev) : list Z :=\n'
                     '  let \'(c, os) := c_run takes (mk_cs s r_init true) evs in\n'
                     '  zlen (concat (cs_in c)) :: (if cs_open c then 1 else 0) :: flat (map enc_cobs os)\n'
                     '  ++ concat (map (fun f => enc_queue (cs_rt c f)) qfs).\n')

HEADER_D = HEADER + ('From CF Require Import C18.Driver.\n'
                     'Definition drv_case (takes : list Z) (s : sock) (evs : list dev) : list Z :=\n'
                     '  let \'(d0, b0) := d_connect takes s in\n'
                     '  let \'(d, os) := d_run takes d0 evs in\n'
                     '  zlen (concat (cs_in (d_c d))) :: flat ((31 :: enc_resb b0) :: map enc_dobs os)\n'
                     '  ++ (let l := concat (map (fun k => enc_crtp (Some k)) (d_inq d)) in zlen l :: l).\n')

HEADER_ALL = HEADER + HEADER_U[len(HEADER):] + HEADER_C[len(HEADER):] + HEADER_D[len(HEADER):]

QFS = [0, 1, 2, 3, 4, 5, 9, 14, 15, 63]
TARGETS = [1, 2, 3, 4]
FUNCTIONS = [1, 2, 3, 4, 5, 14, 15]


# ------------------------------------------------------------------------------------------------ real-code adapters
class _Stop(BaseException):
    pass


class Sock:
    """Scripted stream socket: recv(n) returns the next piece (or its first n bytes)."""

    def __init__(self, chunks, takes=None):
        self.chunks = [bytes(c) for c in chunks]
        self.sent = []          # what each send call put on the stream
        self.recv_sizes = []
        self.takes = list(takes or [])   # bytes the k-th send call of one operation takes (then: everything)
        self.ti = 0
        self.closed = False
        self.exc = EOFError     # what recv raises when the scripted stream breaks off
        self.piece = 0          # > 0: every send call takes at most this many bytes
        self.sched = None       # deterministic scheduler: every send call is a scheduling point
        self.new_op = {}
        self.order = []         # writer index of each frame, in the order of the frames' first send call

    def connect(self, addr):
        pass

    def recv(self, n):
        self.recv_sizes.append(n)
        if n <= 0:
            raise AssertionError('recv(%d)' % n)
        if not self.chunks:
            raise self.exc('scripted stream exhausted')
        c = self.chunks[0]
        if len(c) <= n:
            self.chunks.pop(0)
            return c
        self.chunks[0] = c[n:]
        return c[:n]

    def send(self, d):
        d = bytes(d)
        n = len(d)
        if self.sched is not None:
            i = self.sched.me()
            self.sched.yield_point()            # any other runnable thread may go first
            if self.new_op.get(i):
                self.order.append(i)
                self.new_op[i] = False
        if self.piece:
            n = min(n, self.piece)
        elif self.ti < len(self.takes):
            n = min(n, self.takes[self.ti])
        self.ti += 1
        self.sent.append(d[:n])
        return n

    def sendall(self, d):      # socket.sendall: loop over send until everything is out
        d = bytes(d)
        while d:
            d = d[self.send(d):]

    def stream(self):
        return b''.join(self.sent)

    def shutdown(self, how):
        pass

    def close(self):
        self.closed = True

    def pending(self):
        return sum(len(c) for c in self.chunks)


class _V:
    """duck-typed enum member (the router comment: 'the user might have implemented new functions')"""

    def __init__(self, value):
        self.value = value


def _mods():
    import cflib.cpx as cpx
    import cflib.cpx.transports as tr
    return cpx, tr


class _Stuck(BaseException):
    pass


_ACTIVE = {'sched': None}


class Sched:
    """Deterministic cooperative scheduler for a few real threads: exactly one runs; at every scheduling point (a send
    call on the scripted socket, a contended lock) the next runnable thread is taken from the schedule."""

    def __init__(self, n, schedule):
        self.cv = threading.Condition()
        self.state = ['ready'] * n
        self.cur = None
        self.schedule = list(schedule)
        self.k = 0
        self.ids = {}
        self.stuck = False

    def me(self):
        return self.ids.get(threading.get_ident())

    def _choose(self):
        run = [i for i, st in enumerate(self.state) if st == 'ready']
        if not run:
            self.cur = None
        else:
            c = self.schedule[self.k] if self.k < len(self.schedule) else 0
            self.k += 1
            self.cur = run[c % len(run)]
        self.cv.notify_all()

    def _wait_turn(self, i):
        while self.cur != i:
            if not self.cv.wait(3):
                self.stuck = True
                raise _Stuck()

    def enter(self, i):
        with self.cv:
            self.ids[threading.get_ident()] = i
            self._wait_turn(i)

    def yield_point(self):
        i = self.me()
        if i is None:
            return
        with self.cv:
            self._choose()
            self._wait_turn(i)

    def finish(self, i):
        with self.cv:
            self.state[i] = 'done'
            self._choose()

    def go(self):
        with self.cv:
            self._choose()

    def wait_all(self, timeout=6):
        with self.cv:
            return self.cv.wait_for(lambda: all(st == 'done' for st in self.state), timeout)


class DetLock:
    """threading.Lock as the transports module sees it (`from threading import Lock` is rebound in the harness process):
    cooperative under a Sched (a contended acquire hands the baton on), otherwise an acquire that would block raises."""

    def __init__(self):
        self.held = False
        self.waiters = set()

    def acquire(self, blocking=True, timeout=-1):
        sch = _ACTIVE['sched']
        i = sch.me() if sch is not None else None
        if i is None:
            if self.held:
                raise _WouldBlock()
            self.held = True
            return True
        with sch.cv:
            while self.held:
                sch.state[i] = 'blocked'
                self.waiters.add(i)
                sch._choose()
                sch._wait_turn(i)
            self.held = True
        return True

    def release(self):
        if not self.held:
            raise RuntimeError('release unlocked lock')
        sch = _ACTIVE['sched']
        if sch is not None and sch.me() is not None:
            with sch.cv:
                self.held = False
                for w in self.waiters:
                    sch.state[w] = 'ready'
                self.waiters.clear()
        else:
            self.held = False

    def locked(self):
        return self.held

    def __enter__(self):
        self.acquire()
        return self

    def __exit__(self, *a):
        self.release()


class _FakeSocketModule:
    """stands in for the `socket` module inside cflib.cpx.transports: SocketTransport's own constructor/connect run"""
    AF_INET, SOCK_STREAM, SHUT_WR = 2, 1, 1
    next_sock = None

    @classmethod
    def socket(cls, *a, **k):
        return cls.next_sock


def _transport(chunks, takes=None):
    """a real SocketTransport, built by its own constructor, connected to the scripted socket"""
    cpx, tr = _mods()
    tr.socket = _FakeSocketModule
    tr.Lock = DetLock
    _FakeSocketModule.next_sock = Sock(chunks, takes)
    out = sys.stdout
    sys.stdout = io.StringIO()
    try:
        t = tr.SocketTransport('scripted', 5000)
    finally:
        sys.stdout = out
    return t


def _fn_member(v):
    cpx, _ = _mods()
    try:
        return cpx.CPXFunction(v)
    except ValueError:
        return _V(v)


def _tg_member(v):
    cpx, _ = _mods()
    try:
        return cpx.CPXTarget(v)
    except ValueError:
        return _V(v)


def _exc_code(e):
    if isinstance(e, struct.error):
        return 1
    if isinstance(e, RuntimeError):
        return 2
    if isinstance(e, ValueError):
        return 3
    if isinstance(e, (EOFError, ConnectionError, TimeoutError)) or type(e) is OSError:
        return 4                      # the scripted stream broke off
    if isinstance(e, AttributeError):
        return 5
    return 90


def _enc_pkt(p):
    d = list(bytes(p.data)) if not isinstance(p.data, (tuple, list)) else [int(x) for x in p.data]
    return [p.source.value, p.destination.value, p.function.value, 1 if p.lastPacket else 0, p.version,
            p.length, len(d)] + d


@contextlib.contextmanager
def _quiet():
    prev = logging.root.manager.disable
    logging.disable(logging.CRITICAL)
    try:
        with contextlib.redirect_stdout(io.StringIO()):
            yield
    finally:
        logging.disable(prev)


def impl_decode(raw):
    cpx, _ = _mods()
    p = cpx.CPXPacket()
    try:
        p.wireData = bytearray(raw)
    except Exception as e:  # noqa
        return [1, _exc_code(e)]
    return [0] + _enc_pkt(p)


def impl_encode(s, d, f, last, ver, data):
    cpx, _ = _mods()
    p = cpx.CPXPacket(function=_fn_member(f), destination=_tg_member(d), source=_tg_member(s), data=bytearray(data))
    p.lastPacket = bool(last)
    p.version = ver
    return list(p.wireData)


def make_packet(s, d, f, last, data, ver=0):
    cpx, _ = _mods()
    p = cpx.CPXPacket(function=_fn_member(f), destination=_tg_member(d), source=_tg_member(s), data=bytearray(data))
    p.lastPacket = bool(last)
    if ver:
        p.version = ver
    return p


def impl_write(p, takes=None):
    """real writePacket; result = the bytes that reached the stream (send calls may take only part)"""
    t = _transport([], takes)
    try:
        t.writePacket(p)
    except Exception as e:  # noqa
        return [1, _exc_code(e)], None
    b = t._socket.stream()
    return [0, len(b)] + list(b), b


def impl_read_n(chunks, n):
    """n calls of the real readPacket over the scripted socket."""
    t = _transport(chunks)
    out = []
    with _quiet():
        for _ in range(n):
            try:
                p = t.readPacket()
                out.append([0] + _enc_pkt(p))
            except Exception as e:  # noqa
                out.append([1, _exc_code(e)])
    return [t._socket.pending()] + coqrun.flat(out), t


class _ScriptTransport:
    """Drives CPXRouter.run synchronously: before each real readPacket the scripted receivePacket calls are made."""

    def __init__(self, real, script, on_recv):
        self.real, self.script, self.on_recv, self.i = real, script, on_recv, 0

    def readPacket(self):
        while self.i < len(self.script):
            e = self.script[self.i]
            self.i += 1
            if e < 0:
                return self.real.readPacket()
            self.on_recv(e)
        raise _Stop()

    def writePacket(self, p):
        self.real.writePacket(p)


def impl_system(chunks, script):
    """Real SocketTransport + real CPXRouter.run; script: -1 = one router iteration, f >= 0 = receivePacket(f)."""
    cpx, _ = _mods()
    real = _transport(chunks)
    obs = []
    holder = {}

    def on_recv(f):
        try:
            p = holder['r'].receivePacket(_fn_member(f), timeout=0)
            obs.append([f, 1] + _enc_pkt(p))
        except queue.Empty:
            obs.append([f, 0])

    st = _ScriptTransport(real, script, on_recv)
    with _quiet():
        r = cpx.CPXRouter(st)
        holder['r'] = r
        try:
            r.run()
        except _Stop:
            pass
    out = [real._socket.pending()] + coqrun.flat(obs)
    for f in QFS:
        q = r._rxQueues.get(f)
        if q is None:
            out.append(-1)
        else:
            items = list(q.queue)
            out.append(len(items))
            for p in items:
                out += _enc_pkt(p)
    return out, obs, r


def _driver(kind, transport):
    cpx, _ = _mods()
    if kind == 'tcp':
        import cflib.crtp.tcpdriver as m
        drv = m.TcpDriver()
    else:
        import cflib.crtp.serialdriver as m
        drv = m.SerialDriver()
    c = object.__new__(cpx.CPX)
    c._router = cpx.CPXRouter(transport)
    drv.cpx = c
    return drv, m, c


def _crtp(mode, a, b, data):
    """mode 0: CRTPPacket(); set_header(port=a, channel=b); mode 1: CRTPPacket(header=a); mode 2: port/channel setters"""
    from cflib.crtp.crtpstack import CRTPPacket
    if mode == 1:
        pk = CRTPPacket(a, bytearray(data) if data else None)
        return pk
    pk = CRTPPacket()
    if mode == 0:
        pk.set_header(a, b)
    else:
        pk.port = a
        pk.channel = b
    pk.data = bytearray(data)
    return pk


def impl_uplink(kind, mode, a, b, data, takes=None):
    t = _transport([], takes)
    with _quiet():
        drv, _, _ = _driver(kind, t)
        try:
            drv.send_packet(_crtp(mode, a, b, data))
        except Exception as e:  # noqa
            return [1, _exc_code(e)]
    bts = t._socket.stream()
    return [0, len(bts)] + list(bts)


def impl_downlink(kind, chunks, n, real=None):
    """stream -> real transport -> real router (n iterations) -> real _CPXReceiveThread.run -> CRTP packets"""
    cpx, _ = _mods()
    real = real or _transport(chunks)
    errors = []
    with _quiet():
        st = _ScriptTransport(real, [-1] * n, lambda f: None)
        drv, m, c = _driver(kind, st)
        router = c._router
        inq = queue.Queue()

        class Shim:  # the seam: timeout of the blocking get is wall-clock -> replaced by "stop when empty"
            def receivePacket(self, function, timeout=None):
                try:
                    return c.receivePacket(function, timeout=0)
                except queue.Empty:
                    th.sp = True
                    raise

        th = m._CPXReceiveThread(Shim(), inq, lambda msg: errors.append(msg))
        # the receive thread's first receivePacket creates the CRTP queue before anything arrives
        try:
            c.receivePacket(cpx.CPXFunction.CRTP, timeout=0)
        except queue.Empty:
            pass
        try:
            router.run()
        except _Stop:
            pass
        th.run()
    out = []
    while not inq.empty():
        pk = inq.get()
        d = list(pk.data)
        out.append([1, pk.header, pk.port, pk.channel, len(d)] + d)
    return out, errors


# ---- the CPX facade with the router running as a real thread, behind a deterministic gate
class GateTransport:
    """The router thread may start an iteration (readPacket) only when the driver hands it a token; when it comes
    back for the next one it reports idle.  So exactly one thread moves at a time and a session replays exactly."""

    def __init__(self, real):
        import threading
        self.real = real
        self.tokens = threading.Semaphore(0)
        self.idle = threading.Event()
        self.closed = False

    def readPacket(self):
        self.idle.set()
        self.tokens.acquire()
        if self.closed:
            raise OSError('transport closed')
        return self.real.readPacket()

    def writePacket(self, p):
        self.real.writePacket(p)

    def disconnect(self):
        self.real.disconnect()


def _enc_opt(p):
    return [0] if p is None else [1] + _enc_pkt(p)


def impl_cpx_session(chunks, takes, events, functions=None):
    """events: ['P'] | ['R', f] | ['S', pkt] | ['T', pkt, k] | ['C'];  pkt = [s, d, f, last, data].
    Drives a real cflib.cpx.CPX (router thread started by its constructor)."""
    import threading
    import time
    cpx, _ = _mods()
    real = _transport(chunks, takes)
    sock = real._socket
    gate = GateTransport(real)
    obs = []
    gets = {}
    extra_puts = {}

    state = {'stuck': False}

    def wait_idle():
        # bounded: a router thread that does not come back for its next iteration is an observation ([24]), not a hang
        if not gate.idle.wait(1.5):
            state['stuck'] = True
            obs.append([24, sock.pending()])
            return False
        return True

    def pump():
        if gate.closed:
            return True
        gate.idle.clear()
        gate.tokens.release()
        return wait_idle()

    def sent_since(n0):
        return b''.join(sock.sent[n0:])

    with _quiet():
        c = cpx.CPX(gate) if functions is None else cpx.CPX(gate, [_fn_member(f) for f in functions])
        router = c._router
        wait_idle()
        for e in events:
            sock.ti = 0
            n0 = len(sock.sent)
            if e[0] == 'P':
                if not pump():
                    break
            elif e[0] == 'R':
                try:
                    p = c.receivePacket(_fn_member(e[1]), timeout=(e[2] if len(e) > 2 else 0))
                    gets[e[1]] = gets.get(e[1], 0) + 1
                    obs.append([20, e[1]] + _enc_opt(p))
                except queue.Empty:
                    obs.append([20, e[1], 0])
            elif e[0] == 'S':
                try:
                    c.sendPacket(make_packet(*e[1]))
                    b = sent_since(n0)
                    obs.append([21, 0, len(b)] + list(b))
                except Exception as ex:  # noqa
                    obs.append([21, 1, _exc_code(ex)])
            elif e[0] == 'T':
                f = e[1][2]
                box = {}

                def run(pkt=e[1]):
                    try:
                        box['r'] = c.makeTransaction(make_packet(*pkt))
                    except Exception as ex:  # noqa
                        box['e'] = ex
                th = threading.Thread(target=run, daemon=True)
                th.start()
                # until the call has sent its request and created its queue (or has failed); bounded, so that a broken
                # implementation shows up as an observation, not as a hanging check
                deadline = time.time() + 1.5
                while th.is_alive() and not (f in router._rxQueues and len(sock.sent) > n0) and time.time() < deadline:
                    time.sleep(0.0002)
                if th.is_alive() and not (f in router._rxQueues and len(sock.sent) > n0):
                    for q in list(router._rxQueues.values()):
                        q.put(None)
                    th.join(1.5)
                    obs.append([22, 98, sorted(router._rxQueues.keys())[0] if router._rxQueues else -1])
                    break
                for _ in range(e[2]):
                    if not pump():
                        break
                if state['stuck']:
                    break
                if th.is_alive() and 'r' not in box:
                    q = router._rxQueues[f]
                    puts = q.unfinished_tasks - extra_puts.get(f, 0)
                    if puts <= gets.get(f, 0):
                        # nothing for it: the call is blocked in queue.get() for ever -> release it with a marker
                        q.put(None)
                        extra_puts[f] = extra_puts.get(f, 0) + 1
                        th.join(1.5)
                        b = sent_since(n0)
                        obs.append([22, 0, len(b)] + list(b) + ([0] if box.get('r', 0) is None else [96]))
                        continue
                th.join(1.5)
                if th.is_alive():
                    obs.append([22, 97])
                    break
                if 'e' in box:
                    obs.append([22, 1, _exc_code(box['e']), 0])
                else:
                    gets[f] = gets.get(f, 0) + 1
                    b = sent_since(n0)
                    obs.append([22, 0, len(b)] + list(b) + _enc_opt(box['r']))
            elif e[0] == 'C':
                try:
                    was_open = not gate.closed
                    c.close()
                    obs.append([23, 1])
                except AttributeError:
                    obs.append([23, 0])
                if not gate.closed:
                    gate.closed = True
                    gate.tokens.release()
                    router.join(1.5)
        alive_before_cleanup = router.is_alive()
        if state['stuck']:                       # free a router thread that is blocked handing a packet over
            for q in list(router._rxQueues.values()):
                try:
                    while True:
                        q.get_nowait()
                except queue.Empty:
                    pass
            gate.idle.wait(1.5)
        if not gate.closed:                      # end of the session: let the thread go
            router._connected = False
            gate.closed = True
            gate.tokens.release()
        router.join(1.5)
    out = [sock.pending(), 1 if alive_before_cleanup else 0] + coqrun.flat(obs)
    for f in QFS:
        q = router._rxQueues.get(f)
        if q is None:
            out.append(-1)
        else:
            items = [x for x in q.queue if x is not None]
            out.append(len(items))
            for p in items:
                out += _enc_pkt(p)
    return out, obs, {'thread_alive_after': router.is_alive(), 'sock': sock, 'router': router, 'stuck': state['stuck']}


# ---- TcpDriver end to end: its own connect() (router thread + receive thread), send_packet, receive_packet, close
def _enc_crtp_pk(pk):
    if pk is None:
        return [0]
    d = list(pk.data)
    return [1, pk.header, pk.port, pk.channel, len(d)] + d


def impl_driver_session(chunks, takes, events, uri='tcp://aideck.local:5000', early=0):
    """events: ['P'] router iteration | ['S', port, chan, data] | ['R', w] receive_packet(w) | ['C'] close.
    The driver builds its CPX / threads itself; only the name SocketTransport inside cflib.crtp.tcpdriver is rebound so
    that the transport it creates is the real SocketTransport on the scripted socket behind the gate."""
    import time
    import cflib.crtp.tcpdriver as td
    made = {}

    def factory(host, port):
        made['addr'] = (host, port)
        made['gate'] = GateTransport(_transport(chunks, takes))
        return made['gate']
    obs = []
    errors = []
    state = {'stuck': False}
    old = td.SocketTransport
    old_rt = td._CPXReceiveThread

    def rt_factory(cpx_, inq, cb):
        # schedule point inside connect(): the router thread (started by CPX()) makes `early` iterations before the
        # receive thread object is even created
        for _ in range(early):
            made['gate'].idle.wait(1.5)
            made['gate'].idle.clear()
            made['gate'].tokens.release()
            made['gate'].idle.wait(1.5)
        return old_rt(cpx_, inq, cb)
    td.SocketTransport = factory
    td._CPXReceiveThread = rt_factory
    drv = td.TcpDriver()
    try:
        with _quiet():
            drv.connect(uri, None, lambda msg: errors.append(msg))
            gate = made['gate']
            sock = gate.real._socket
            router = drv.cpx._router
            rth = drv._thread
            deadline = time.time() + 1.5
            while not (gate.idle.is_set() and 3 in router._rxQueues) and time.time() < deadline:
                time.sleep(0.0002)
            rxq = router._rxQueues.get(3)
            b = sock.stream()
            obs.append([31, 0, len(b)] + list(b))

            def quiet_rx():
                # the receive thread has taken everything queued for CRTP and is waiting in get() again
                deadline = time.time() + 1.5
                while time.time() < deadline:
                    if rxq is None or not rth.is_alive() or (rxq.qsize() == 0 and len(rxq.not_empty._waiters) > 0):
                        return True
                    time.sleep(0.0002)
                return False
            if early:
                quiet_rx()
            for e in events:
                sock.ti = 0
                n0 = len(sock.sent)
                if e[0] == 'P':
                    if gate.closed:
                        continue
                    gate.idle.clear()
                    gate.tokens.release()
                    if not gate.idle.wait(1.5) or not quiet_rx():
                        state['stuck'] = True
                        obs.append([24, sock.pending()])
                        break
                elif e[0] == 'S':
                    try:
                        drv.send_packet(_crtp(0, e[1], e[2], e[3]))
                        b = b''.join(sock.sent[n0:])
                        obs.append([31, 0, len(b)] + list(b))
                    except Exception as ex:  # noqa
                        obs.append([31, 1, _exc_code(ex)])
                elif e[0] == 'R':
                    w = e[1]
                    if w < 0 and drv.in_queue.qsize() == 0:
                        obs.append([32, 0])              # receive_packet(-1) would block for ever
                    else:
                        box = {}

                        def call(w=w):
                            box['r'] = drv.receive_packet(0.01 if w > 0 else w)
                        th = threading.Thread(target=call, daemon=True)     # bounded: a call that blocks is an observation
                        th.start()
                        th.join(1.5)
                        if th.is_alive():
                            obs.append([32, 97])
                            drv.in_queue.put(None)
                            th.join(1.5)
                            break
                        obs.append([32] + _enc_crtp_pk(box['r']))
                elif e[0] == 'C':
                    drv.close()
                    obs.append([33])
                    if not gate.closed:
                        gate.closed = True
                        gate.tokens.release()
                        router.join(1.5)
            alive = [router.is_alive(), rth.is_alive()]
            rth.sp = True
            if not gate.closed:
                router._connected = False
                gate.closed = True
                gate.tokens.release()
            router.join(1.5)
    finally:
        td.SocketTransport = old
        td._CPXReceiveThread = old_rt
    left = []
    while not drv.in_queue.empty():
        x = drv.in_queue.get()
        if x is not None:
            left += _enc_crtp_pk(x)
    out = [sock.pending()] + coqrun.flat(obs) + [len(left)] + left
    return out, obs, {'addr': made.get('addr'), 'alive': alive, 'errors': errors, 'stuck': state['stuck'],
                      'router_alive_after': router.is_alive(), 'cpx_none': drv.cpx is None}


# ---- several threads sending on one transport
def _writer_expected(op):
    """(src, dst, fn, last, ver, payload) the peer must see for a writer's operation"""
    if op[0] == 'cpx':
        a = op[1]
        return (a[0], a[1], a[2], a[3], 0, list(a[4]))
    return (3, 1, 3, 0, 0, [((op[1] & 15) << 4) | 12 | (op[2] & 3)] + list(op[3]))


def impl_writers(writers, piece, schedule):
    """writers: list (one per thread) of operations ['cpx', pkt] (CPX.sendPacket) or ['crtp', port, chan, data]
    (TcpDriver.send_packet), all on ONE real SocketTransport; every send call of the scripted socket is a scheduling point."""
    t = _transport([])
    sock = t._socket
    sock.piece = piece
    with _quiet():
        drv, _, c = _driver('tcp', t)
    sch = Sched(len(writers), schedule)
    errors = []

    def run(i):
        try:
            sch.enter(i)
            for op in writers[i]:
                sock.new_op[i] = True
                if op[0] == 'cpx':
                    c.sendPacket(make_packet(*op[1]))
                else:
                    drv.send_packet(_crtp(0, op[1], op[2], op[3]))
        except _Stuck:
            errors.append('thread %d stuck' % i)
        except Exception as e:  # noqa
            errors.append('thread %d: %r' % (i, e))
        finally:
            try:
                sch.finish(i)
            except _Stuck:
                pass
    ths = [threading.Thread(target=run, args=(i,), daemon=True) for i in range(len(writers))]
    sock.sched = sch
    _ACTIVE['sched'] = sch
    try:
        with _quiet():
            for th in ths:
                th.start()
            while len(sch.ids) < len(ths) and not sch.stuck:     # everybody parked at the start line
                threading.Event().wait(0.0002)
            sch.go()
            if not sch.wait_all():
                errors.append('schedule did not complete')
    finally:
        _ACTIVE['sched'] = None
        sock.sched = None
    return sock.stream(), list(sock.order), errors


# ---- UARTTransport (serial path)
class FakeSerial:
    """pyserial port with timeout=None: read(n) returns exactly n bytes (here: raises when the script is exhausted)"""

    def __init__(self, data):
        self.buf, self.pos, self.written = bytes(data), 0, []

    def read(self, n=1):
        if self.pos + n > len(self.buf):
            self.pos = len(self.buf)
            raise EOFError('scripted port exhausted')
        r = self.buf[self.pos:self.pos + n]
        self.pos += n
        return r

    def write(self, d):
        self.written.append(bytes(bytearray(d)))
        return len(d)

    def close(self):
        pass


class _WouldBlock(BaseException):
    pass


class GuardLock:
    """threading.Lock semantics, except that an acquire that would block for ever raises instead"""

    def __init__(self):
        self.held = False

    def acquire(self, blocking=True, timeout=-1):
        if self.held:
            raise _WouldBlock()
        self.held = True
        return True

    def release(self):
        if not self.held:
            raise RuntimeError('release unlocked lock')
        self.held = False

    def locked(self):
        return self.held


class _FakeSerialModule:
    """stands in for pyserial inside cflib.cpx.transports (not installed here): UARTTransport's own constructor/connect run"""
    next_port = None

    @classmethod
    def Serial(cls, device, baudrate, timeout=None):
        assert timeout is None
        cls.opened = (device, baudrate)
        return cls.next_port


def impl_uart_connect(data):
    """the real UARTTransport constructor (connect handshake) on a scripted port; None: the port ran dry before the sync"""
    _, tr = _mods()
    tr.serial = _FakeSerialModule
    tr.Lock = DetLock
    _FakeSerialModule.next_port = FakeSerial(data)
    out = sys.stdout
    sys.stdout = io.StringIO()
    try:
        return tr.UARTTransport('/dev/ttyX', 576000)
    except EOFError:
        return None
    finally:
        sys.stdout = out


def _uart(data, locked=False):
    """a connected real UARTTransport (its constructor has done the handshake) with `data` as the bytes to come"""
    t = impl_uart_connect(bytes([255, 0]) + bytes(data))
    assert t._serial.written == [bytes([255, 0])] and _FakeSerialModule.opened == ('/dev/ttyX', 576000)
    t._serial.written = []
    t._serial.buf, t._serial.pos = t._serial.buf[2:], 0
    if locked:
        t._lock.acquire()
    return t


def impl_uart_run(ops, data, locked):
    """ops: ['R'] or ['W', s, d, f, last, payload]; observations encoded like Uart.uart_run"""
    t = _uart(data, locked)
    outs = []
    prev = logging.root.manager.disable
    logging.disable(logging.CRITICAL)
    try:
        for op in ops:
            nw = len(t._serial.written)
            if op[0] == 'W':
                try:
                    with contextlib.redirect_stdout(io.StringIO()):
                        t.writePacket(make_packet(*op[1:]))
                    assert len(t._serial.written) == nw + 1
                    outs.append([10] + list(t._serial.written[-1]))
                except _WouldBlock:
                    outs.append([11])           # writePacket would block in acquire()
                except (TypeError, ValueError):
                    outs.append([12])
                continue
            buf = io.StringIO()
            try:
                with contextlib.redirect_stdout(buf):
                    p = t.readPacket()
                o = [0, 0 if 'CRC error' in buf.getvalue() else 1, 0] + _enc_pkt(p)
            except EOFError:
                o = [1]
            except RuntimeError as e:
                if 'release unlocked lock' in str(e):
                    o = [2]
                else:
                    o = [0, 0 if 'CRC error' in buf.getvalue() else 1, 1, 2]
            except Exception as e:  # noqa
                o = [0, 0 if 'CRC error' in buf.getvalue() else 1, 1, _exc_code(e)]
            o.append(9)
            for w in t._serial.written[nw:]:
                o += list(w)
            outs.append(o)
    finally:
        logging.disable(prev)
    return [len(t._serial.buf) - t._serial.pos, 1 if t._lock.locked() else 0] + coqrun.flat(outs), t


def _uart_frame_ref(s, d, f, last, ver, data, bad_crc=False):
    w = [((s & 7) << 3) | (d & 7) | (0x40 if last else 0), (f & 0x3F) | ((ver & 3) << 6)] + list(data)
    buff = [0xFF, len(w)] + w
    x = 0
    for b in buff:
        x ^= b
    return bytes(buff + [x ^ (0x5A if bad_crc else 0)])


# ------------------------------------------------------------------------------------------------ case generation
def _pat(a, b, n):
    return [(a * i + b) % 256 for i in range(n)]


def _frame_ref(s, d, f, last, ver, data):
    """independent encoder of the CPX-over-TCP wire format (spec side of the oracle)"""
    n = len(data) + 2
    return bytes([n & 255, n >> 8, ((s & 7) << 3) | (d & 7) | (0x40 if last else 0), (f & 0x3F) | ((ver & 3) << 6)]) + bytes(data)


def _parse_ref(b):
    """independent decoder: list of (src, dst, fn, last, ver, data)"""
    out = []
    i = 0
    while i < len(b):
        n = b[i] + 256 * b[i + 1]
        body = b[i + 2:i + 2 + n]
        assert len(body) == n and n >= 2
        out.append(((body[0] >> 3) & 7, body[0] & 7, body[1] & 0x3F, 1 if body[0] & 0x40 else 0, body[1] >> 6, list(body[2:])))
        i += 2 + n
    return out


def _cut(stream, cuts):
    b = [0] + list(cuts) + [len(stream)]
    return [stream[b[i]:b[i + 1]] for i in range(len(b) - 1) if b[i] < b[i + 1]]


def _rand_cuts(rng, n, boundaries):
    """cut positions in 1..n-1; biased towards the inside of length prefixes / headers"""
    if n <= 1:
        return ()
    mode = rng.randrange(6)
    if mode == 0:
        return ()
    if mode == 1:
        return tuple(range(1, n))
    if mode == 2:     # only inside prefixes/headers
        cand = [b + k for b in boundaries for k in (1, 2, 3) if 0 < b + k < n]
        return tuple(sorted(set(rng.sample(cand, rng.randrange(1, len(cand) + 1))))) if cand else ()
    if mode == 3:     # exactly at packet boundaries
        return tuple(b for b in boundaries if 0 < b < n)
    k = rng.randrange(1, min(10, n - 1) + 1)
    return tuple(sorted(set(rng.randrange(1, n) for _ in range(k))))


def _rand_payload(rng):
    n = rng.choice([0, 0, 1, 1, 2, 3, 5, 8, 13, 30, 31, 60, 254, 255, 256, 300])
    if n > 64:
        n = rng.choice([n, 3, 7])
    return [rng.randrange(256) for _ in range(n)]


def _rand_frame(rng, p_bad=0.15):
    """(frame bytes, description); mostly well-formed, sometimes malformed in one specific way"""
    s, d, f = rng.choice(TARGETS), rng.choice(TARGETS), rng.choice(FUNCTIONS)
    last, data, ver = rng.randrange(2), _rand_payload(rng), 0
    kind = 'ok'
    if rng.random() < p_bad:
        kind = rng.choice(['version', 'src', 'dst', 'fn', 'short0', 'short1', 'bit7'])
        if kind == 'version':
            ver = rng.randrange(1, 4)
        elif kind == 'src':
            s = rng.choice([0, 5, 6, 7])
        elif kind == 'dst':
            d = rng.choice([0, 5, 6, 7])
        elif kind == 'fn':
            f = rng.choice([0, 6, 7, 13, 16, 17, 33, 35, 46, 63])
        elif kind == 'short0':
            return bytes([0, 0]), kind
        elif kind == 'short1':
            return bytes([1, 0, rng.randrange(256)]), kind
    fr = _frame_ref(s, d, f, last, ver, data)
    if kind == 'bit7':
        fr = fr[:2] + bytes([fr[2] | 0x80]) + fr[3:]
    return fr, kind


def _sock_term(chunks):
    return coqrun.zlistlist([list(c) for c in chunks])


def _h(obj):
    return hashlib.sha1(json.dumps(obj, sort_keys=True).encode()).hexdigest()


def _py_all_chunkings(b):
    """same enumeration order as Model.all_chunkings"""
    b = list(b)
    if not b:
        return [[]]
    if len(b) == 1:
        return [[[b[0]]]]
    out = []
    for s in _py_all_chunkings(b[1:]):
        out.append([[b[0]] + s[0]] + s[1:])
        out.append([[b[0]]] + s)
    return out


def _inside_header(cuts, boundaries):
    return any(0 < c - b < 4 for c in cuts for b in boundaries)


# ------------------------------------------------------------------------------------------------ tie
def _corpus():
    out = []
    for fp in sorted(glob.glob(os.path.join(coqrun.VERIF, 'corpus', 'C18', '*.json'))):
        try:
            out.append(json.load(open(fp)))
        except Exception:  # noqa
            pass
    return out


def tie(ctx):
    rng = ctx.rng
    dis = []
    dist = {}
    nontriv = set()
    n_eval = 0
    samples = []
    coqrun.build('C18/Driver.v', timeout=600)
    coqrun.build('C18/Examples.v', timeout=600)      # non-vacuity examples (and C18/Uart.v) must keep checking

    batch = []

    def run_blocks(tag, terms, exp, descr, shard, count=None, header=None):
        # collected and evaluated together at the end (one round of parallel coqc instead of one per section)
        nonlocal n_eval
        n_eval += len(terms) if count is None else count
        batch.append((tag, list(terms), list(exp), [descr(k) for k in range(len(terms))]))

    def flush_blocks():
        # outputs are compared through two 64-bit polynomial hashes computed inside Coq (cheap: no division);
        # for differing cases the model output is re-evaluated and shown in full
        allt = [(tag, t, e, d) for (tag, ts, es, ds) in batch for (t, e, d) in zip(ts, es, ds)]
        n = len(allt)
        jobs = 16
        order = [k for r in range(jobs) for k in range(r, n, jobs)]          # heavy neighbours end up in different shards
        allt = [allt[k] for k in order]
        shard = max(1, -(-n // jobs))
        bad = coqrun.compare_blocks(HEADER_ALL, ['hh (%s)' % t for (_, t, _, _) in allt], [_hh(e) for (_, _, e, _) in allt],
                                    tag='c18', shard=shard)
        per_tag = {}
        for bi, _ in bad:
            tag, term, e, d = allt[bi]
            per_tag[tag] = per_tag.get(tag, 0) + 1
            if per_tag[tag] > 4:
                continue
            mv = None
            if len(e) < 20000:
                try:
                    mv = coqrun.eval_terms(HEADER_ALL, [term], tag='c18x')[0]
                except coqrun.CoqError as ex:
                    mv = ['model evaluation failed', str(ex)[:300]]
            k = next((i for i, (x, y) in enumerate(zip(mv or [], e)) if x != y), 0) if isinstance(mv, list) else 0
            dis.append({'what': d['what'], 'case': d, 'first_difference_at': k,
                        'model': (mv or [])[max(0, k - 10):k + 40], 'impl': e[max(0, k - 10):k + 40]})
        for tag, c in sorted(per_tag.items()):
            if c > 4:
                dis.append({'what': 'further differing cases (%s)' % tag, 'count': c - 4})

    # ---- A. _set_wire_data: all 65 536 header byte pairs (payload [7; 9]) + short inputs
    terms, exp = [], []
    def enc1(v):
        if v[0] == 1:
            return -v[1]
        sv, dv, fv_, lv, vv, ln, n = v[1:8]
        return sv + 8 * dv + 64 * fv_ + 4096 * lv + 8192 * vv + 65536 * ln + 16777216 * n + \
            4294967296 * sum(b << (8 * i) for i, b in enumerate(v[8:]))
    with _quiet():
        for tf0 in range(0, 256, 8):
            terms.append('concat (map (fun tf => map (fun fv => enc1 (set_wire [tf; fv; 7; 9])) (zr 0 256)) (zr %d 8))' % tf0)
            exp.append([enc1(impl_decode([tf, fv, 7, 9])) for tf in range(tf0, tf0 + 8) for fv in range(256)])
    terms.append('enc_res (set_wire []) ++ enc_res (set_wire [27]) ++ enc_res (set_wire [27; 3]) ++ enc_res (set_wire [27; 67])')
    with _quiet():
        exp.append(impl_decode([]) + impl_decode([27]) + impl_decode([27, 3]) + impl_decode([27, 67]))
    run_blocks('c18a', terms, exp, lambda bi: {'what': 'CPXPacket._set_wire_data differs from set_wire', 'first_header_bytes_from': 8 * bi}, 3, 65540)
    dist['decode_header_pairs'] = 65536

    # ---- B. _get_wire_data: every source/destination value 0..15, every function value 0..255 x version 0..7 x flag
    terms, exp = [], []
    for s in range(16):
        terms.append('concat (map (fun d => wire_data (mkp %d d 3 0 0 1 [5])) (zr 0 16)) ++ '
                     'concat (map (fun d => wire_data (mkp %d d 14 1 0 1 [5])) (zr 0 16))' % (s, s))
        exp.append(sum([impl_encode(s, d, 3, 0, 0, [5]) for d in range(16)], []) +
                   sum([impl_encode(s, d, 14, 1, 0, [5]) for d in range(16)], []))
    for ver in range(8):
        for last in (0, 1):
            terms.append('concat (map (fun f => wire_data (mkp 3 1 f %d %d 0 [])) (zr 0 256))' % (last, ver))
            exp.append(sum([impl_encode(3, 1, f, last, ver, []) for f in range(256)], []))
    run_blocks('c18b', terms, exp, lambda bi: {'what': 'CPXPacket._get_wire_data differs from wire_data', 'block': bi}, 2, 16 * 32 + 16 * 256)
    dist['encode_attribute_combinations'] = 16 * 32 + 16 * 256

    # ---- C. writePacket: payload lengths around every byte boundary of the prefix, up to and beyond the maximum
    lens = [0, 1, 2, 3, 29, 30, 31, 100, 253, 254, 255, 256, 257, 509, 510, 511, 1000, 4094, 65277, 65278, 65279,
            65532, 65533, 65534, 65535, 70000]
    if not ctx.thorough:
        lens = [n for n in lens if n < 5000 or n in (65533, 65534)]
    terms, exp = [], []
    for n in lens:
        a, b = rng.randrange(1, 256), rng.randrange(256)
        s, d, f, last = rng.choice(TARGETS), rng.choice(TARGETS), rng.choice(FUNCTIONS), rng.randrange(2)
        terms.append('enc_resb (write_packet (mkp %d %d %d %d 0 %d (pat %d %d %d)))' % (s, d, f, last, n, a, b, n))
        e, _ = impl_write(make_packet(s, d, f, last, _pat(a, b, n)))
        exp.append(e)
    run_blocks('c18c', terms, exp, lambda bi: {'what': 'SocketTransport.writePacket differs from write_packet',
                                                'payload_len': lens[bi]}, 2)
    # short writes (each send call takes only some bytes) and packets whose data was assigned after construction
    terms, exp, wcs = [], [], []
    for i in range(ctx.scale(120, 1500)):
        s_, d_, f_, last = rng.choice(TARGETS), rng.choice(TARGETS), rng.choice(FUNCTIONS), rng.randrange(2)
        data = _rand_payload(rng)
        takes = [rng.choice([1, 1, 2, 3, 5, 64, 1000]) for _ in range(rng.randrange(0, 6))]
        p = make_packet(s_, d_, f_, last, data)
        n_attr = len(data)
        if i % 3 == 0:                         # data replaced after construction: `length` keeps the old value
            data = _rand_payload(rng)
            p.data = bytearray(data)
        e, _ = impl_write(p, takes)
        terms.append('enc_resb (tx_packet %s (mkp %d %d %d %d 0 %d %s))' % (coqrun.zlist(takes), s_, d_, f_, last, n_attr,
                                                                          coqrun.zlist(data)))
        exp.append(e)
        wcs.append({'what': 'bytes put on the stream by writePacket differ from tx_packet', 'takes': takes,
                    'packet': [s_, d_, f_, last, data], 'length_attribute': n_attr})
    run_blocks('c18w', terms, exp, lambda bi: wcs[bi], 40)
    dist['short_write_cases'] = len(wcs)
    dist['write_lengths'] = lens

    # ---- D. exhaustive fragmentation of short streams (every cut set), real readPacket vs read_n
    n_short = ctx.scale(6, 40)
    max_len = ctx.scale(12, 14)
    terms, exp, shorts = [], [], []
    fixed = [[_frame_ref(3, 1, 3, 0, 0, [])] * 3,
             [_frame_ref(1, 3, 2, 1, 0, [65]), _frame_ref(4, 2, 15, 0, 0, [1, 2])],
             [_frame_ref(3, 1, 3, 0, 1, [9]), _frame_ref(3, 1, 3, 0, 0, [9])],
             [bytes([0, 0]), bytes([1, 0, 5]), _frame_ref(2, 3, 5, 1, 0, [])]]
    for k in range(n_short):
        while True:
            frames = fixed[k] if k < len(fixed) else [_rand_frame(rng, 0.25)[0] for _ in range(rng.randrange(1, 4))]
            stream = b''.join(frames)
            if rng.random() < 0.2 and k >= len(fixed):
                stream = stream[:-1]          # truncated stream: last read hits the end
            if 0 < len(stream) <= max_len:
                break
        nread = len(frames) + 1
        chs = _py_all_chunkings(stream)
        assert len(chs) == 2 ** (len(stream) - 1) and len(set(map(lambda c: tuple(map(tuple, c)), chs))) == len(chs)
        r0, _ = impl_read_n([stream], nread)
        bad = None
        for c in chs:
            r, _ = impl_read_n([bytes(x) for x in c], nread)
            if r != r0 and bad is None:
                bad = c
        if bad is not None:
            dis.append({'what': 'readPacket result depends on the fragmentation (the model proves it cannot)',
                        'stream': list(stream), 'pieces': bad, 'reads': nread})
        row = [1, len(chs)] + r0
        terms.append('all_cuts_case %s %d' % (coqrun.zlist(stream), nread))
        exp.append(row)
        shorts.append({'stream': list(stream), 'reads': nread, 'fragmentations': len(chs)})
        n_eval += len(chs) - 1
        for c in chs:
            if len(c) > 1:
                nontriv.add(_h([list(stream), [len(x) for x in c]]))
    run_blocks('c18d', terms, exp, lambda bi: dict(shorts[bi], what='readPacket differs from read_packet on some fragmentation '
                                                      '(all cuts of a short stream)'), 1)
    dist['short_streams_all_cuts'] = [(len(s['stream']), s['fragmentations']) for s in shorts]

    # ---- E. router on transport: random packet lists (some malformed frames), random fragmentation, random script
    n_sys = ctx.scale(500, 12000)
    terms, exp, cases = [], [], []
    kinds = {}
    for c in _corpus():
        if c.get('kind') == 'system':
            cases.append(([bytes(x) for x in c['chunks']], c['script'], {'corpus': True}))
    while len(cases) < n_sys:
        nf = rng.choice([1, 1, 2, 2, 3, 4, 6])
        frames = [_rand_frame(rng) for _ in range(nf)]
        for _, kd in frames:
            kinds[kd] = kinds.get(kd, 0) + 1
        stream = b''.join(f for f, _ in frames)
        if rng.random() < 0.05:
            stream = stream[:rng.randrange(1, len(stream))] if len(stream) > 1 else stream
        bounds = list(itertools.accumulate([0] + [len(f) for f, _ in frames]))[:-1]
        cuts = _rand_cuts(rng, len(stream), bounds)
        chunks = _cut(stream, cuts)
        fpool = sorted(set([f[3] & 0x3F for f, kd in frames if len(f) >= 4] + [rng.choice(FUNCTIONS), rng.choice([3, 9])]))
        script = []
        pumps = nf + rng.randrange(0, 2)
        slots = [-1] * pumps + [rng.choice(fpool) for _ in range(rng.randrange(0, 2 * nf + 3))]
        rng.shuffle(slots)
        if rng.random() < 0.6:   # open some queues first so that packets are actually kept
            script += rng.sample(fpool, rng.randrange(1, len(fpool) + 1))
        script += slots
        if rng.random() < 0.5:
            script += [rng.choice(fpool) for _ in range(rng.randrange(1, 4))]
        cases.append((chunks, script, {'cuts': list(cuts), 'bounds': bounds, 'kinds': [kd for _, kd in frames]}))
    for chunks, script, info in cases:
        out, _, _ = impl_system(chunks, script)
        terms.append('run_case %s %s' % (_sock_term(chunks), coqrun.zlist(script)))
        exp.append(out)
        if _inside_header(info.get('cuts', []), info.get('bounds', [])):
            nontriv.add(_h([[list(c) for c in chunks], script]))
    for chunks, script, info in cases[:2]:
        samples.append({'chunks': [list(c) for c in chunks], 'script': script, 'impl_obs': impl_system(chunks, script)[0][:40]})
    run_blocks('c18e', terms, exp, lambda bi: {'what': 'router+transport differ from sys_run', 'kind': 'system',
                                                'chunks': [list(c) for c in cases[bi][0]], 'script': cases[bi][1]}, 60)
    dist['system_cases'] = len(cases)
    dist['frame_kinds'] = kinds
    dist['script_len_hist'] = _hist([len(s) for _, s, _ in cases])
    dist['chunks_hist'] = _hist([len(c) for c, _, _ in cases])

    # ---- F. CRTP tunnel: uplink bytes (both drivers, three ways of building the CRTP packet), downlink through the
    #         real router and the real receive thread
    n_tun = ctx.scale(150, 2000)
    terms, exp, tcs = [], [], []
    for i in range(n_tun):
        kind = ('tcp', 'serial')[i % 2]
        mode = rng.randrange(3)
        a = rng.randrange(256) if mode == 1 else rng.randrange(16)
        b = rng.randrange(4)
        data = [rng.randrange(256) for _ in range(rng.choice([0, 1, 2, 15, 29, 30, 31, 64]))]
        hdr = 'Z.lor %d 12' % a if mode == 1 else 'crtp_header %d %d' % (a, b)
        terms.append('enc_resb (write_packet (tunnel_tx (%s) %s))' % (hdr, coqrun.zlist(data)))
        exp.append(impl_uplink(kind, mode, a, b, data))
        tcs.append({'what': 'send_packet bytes differ from write_packet (tunnel_tx ..)', 'driver': kind, 'mode': mode,
                    'a': a, 'b': b, 'data': data})
    run_blocks('c18f', terms, exp, lambda bi: tcs[bi], 40)
    terms, exp, dcs = [], [], []
    for i in range(n_tun):
        kind = ('tcp', 'serial')[i % 2]
        frames = []
        for _ in range(rng.randrange(1, 5)):
            f = 3 if rng.random() < 0.7 else rng.choice(FUNCTIONS)
            data = [rng.randrange(256) for _ in range(rng.choice([0, 1, 1, 2, 5, 31, 32, 33, 70]))]
            frames.append(_frame_ref(rng.choice(TARGETS), rng.choice(TARGETS), f, rng.randrange(2), 0, data))
        stream = b''.join(frames)
        bounds = list(itertools.accumulate([0] + [len(f) for f in frames]))[:-1]
        cuts = _rand_cuts(rng, len(stream), bounds)
        chunks = _cut(stream, cuts)
        out, errors = impl_downlink(kind, chunks, len(frames))
        terms.append('rx_case %s %d' % (_sock_term(chunks), len(frames)))
        exp.append(coqrun.flat(out))
        dcs.append({'what': '_CPXReceiveThread output differs from tunnel_rx', 'driver': kind,
                    'chunks': [list(c) for c in chunks], 'errors': errors[:1]})
        if errors:
            dis.append(dict(dcs[-1], what='_CPXReceiveThread reported a link error'))
        if _inside_header(cuts, bounds):
            nontriv.add(_h(['down', [list(c) for c in chunks]]))
    run_blocks('c18g', terms, exp, lambda bi: dcs[bi], 40)
    dist['tunnel_uplink'] = n_tun
    dist['tunnel_downlink'] = n_tun
    samples.append({'uplink': tcs[0], 'impl_bytes': impl_uplink(tcs[0]['driver'], tcs[0]['mode'], tcs[0]['a'], tcs[0]['b'], tcs[0]['data'])})

    # ---- H. CPX facade, router as a real thread behind the gate: send / receive / transaction / close sessions
    def ev_term(e):
        def pk(a):
            return '(mkp %d %d %d %d 0 %d %s)' % (a[0], a[1], a[2], a[3], len(a[4]), coqrun.zlist(a[4]))
        if e[0] == 'P':
            return 'CPump'
        if e[0] == 'R':
            return 'CRecv %d' % e[1]
        if e[0] == 'S':
            return 'CSend ' + pk(e[1])
        if e[0] == 'T':
            return 'CTransact %s %d%%nat' % (pk(e[1]), e[2])
        return 'CClose'
    n_c = ctx.scale(220, 3000)
    terms, exp, ccs = [], [], []
    ekinds = {}
    for i in range(n_c):
        nf = rng.choice([1, 2, 3, 4, 6])
        fs = rng.sample(FUNCTIONS, rng.choice([1, 2, 3]))
        frames = []
        for _ in range(nf):
            fr, kd = _rand_frame(rng, 0.1)
            if kd == 'ok' and rng.random() < 0.8:
                fr = fr[:3] + bytes([rng.choice(fs)]) + fr[4:]
            frames.append(fr)
        stream = b''.join(frames)
        bounds = list(itertools.accumulate([0] + [len(f) for f in frames]))[:-1]
        cuts = _rand_cuts(rng, len(stream), bounds)
        chunks = _cut(stream, cuts)
        takes = [rng.choice([1, 2, 3, 7, 100]) for _ in range(rng.randrange(0, 4))]
        evs = []
        for _ in range(rng.randrange(2, 2 * nf + 6)):
            k = rng.choice(['P', 'P', 'P', 'R', 'R', 'S', 'T', 'C'] if rng.random() < 0.3 else ['P', 'P', 'R', 'R', 'S', 'T'])
            ekinds[k] = ekinds.get(k, 0) + 1
            pkt = [rng.choice(TARGETS), rng.choice(TARGETS), rng.choice(fs), rng.randrange(2),
                   [rng.randrange(256) for _ in range(rng.choice([0, 1, 2, 5, 31]))]]
            if k == 'P':
                evs.append(['P'])
            elif k == 'R':
                evs.append(['R', rng.choice(fs + [rng.choice(FUNCTIONS)])] + ([0.003] if rng.random() < 0.15 else []))
            elif k == 'S':
                evs.append(['S', pkt])
            elif k == 'T':
                evs.append(['T', pkt, rng.randrange(0, 3)])
            else:
                evs.append(['C'])
        regs = rng.sample(FUNCTIONS, rng.randrange(0, 8)) if i % 3 == 0 else None
        out, _, info = impl_cpx_session(chunks, takes, evs, functions=regs)
        terms.append('cpx_case_reg %s %s %s [%s]' % (coqrun.zlist(regs or []), coqrun.zlist(takes), _sock_term(chunks),
                                                     '; '.join(ev_term(e) for e in evs)))
        exp.append(out)
        ccs.append({'what': 'CPX facade session (router thread) differs from c_run', 'kind': 'cpx', 'takes': takes, 'functions': regs,
                    'chunks': [list(c) for c in chunks], 'events': evs})
        if info['thread_alive_after']:
            dis.append(dict(ccs[-1], what='router thread still alive after the session was closed'))
            break
        if _inside_header(cuts, bounds):
            nontriv.add(_h(['cpx', [list(c) for c in chunks], evs]))
    for n_b in ([0, 49, 50, 51, 120, 200] if not ctx.thorough else [0, 1, 49, 50, 51, 52, 99, 100, 101, 150, 200, 200]):
        bc = _backlog_case(rng, n_b, simple=(n_b in (51, 120)))
        stream = b''.join(_frame_ref(a[0], a[1], a[2], a[3], 0, a[4]) for a in bc['packets'])
        chunks = _cut(stream, bc['cuts'])
        out, _, info = impl_cpx_session(chunks, [], bc['events'])
        terms.append('cpx_case [] %s [%s]' % (_sock_term(chunks), '; '.join(ev_term(e) for e in bc['events'])))
        exp.append(out)
        ccs.append({'what': 'router thread with a backlog of %d unread packets differs from c_run' % n_b, 'kind': 'cpx',
                    'takes': [], 'chunks': [list(c) for c in chunks], 'events': bc['events']})
        if info['stuck']:
            dis.append({'what': 'router thread stuck with unread transport data (backlog %d)' % n_b, 'backlog': n_b})
            break
    dist['backlog_sessions'] = [0, 49, 50, 51, 120, 200]
    run_blocks('c18h', terms, exp, lambda bi: ccs[bi], 30, header=HEADER_C)
    dist['cpx_sessions'] = n_c
    dist['cpx_event_kinds'] = ekinds

    # ---- N. connection histories on ONE SocketTransport object (disconnect()/connect() between streams that may break off mid-frame)
    terms, exp, ncs = [], [], []
    for i in range(ctx.scale(150, 2500)):
        cc = _conn_case(rng)
        ss = cc['sessions']
        evs = []
        for k, s_ in enumerate(ss):
            if k:
                evs.append('TReconnect %s' % coqrun.zlistlist(s_['pieces']))
            evs += ['TRead'] * s_['reads']
        terms.append('concat (map enc_res (t_run %s [%s]))' % (coqrun.zlistlist(ss[0]['pieces']), '; '.join(evs)))
        outs = impl_connections('tcp', [[s_['pieces'], s_['reads'], s_['exc']] for s_ in ss])
        exp.append(sum([sum(o, []) for o in outs], []))
        ncs.append(dict(cc, what='connection history on one SocketTransport differs from t_run'))
    run_blocks('c18n', terms, exp, lambda bi: ncs[bi], 50)
    dist['connection_histories'] = len(ncs)

    # ---- P. one CPXPacket object: attribute assignments between encodes (wireData / TCP writePacket), also after filling it from bytes
    def pop_term(op):
        if op[0] == 'enc':
            return 'PEnc'
        if op[0] == 'write':
            return 'PWrite'
        if op[0] == 'decode':
            return 'PMut (MDecode %s)' % coqrun.zlist(op[1])
        f, v = op[1], op[2]
        return 'PMut (%s)' % {'source': 'MSrc %d' % v if f == 'source' else '', 'destination': 'MDst %d' % v if f == 'destination' else '',
                              'function': 'MFn %d' % v if f == 'function' else '', 'version': 'MVer %d' % v if f == 'version' else '',
                              'lastPacket': 'MLast %s' % ('true' if v else 'false') if f == 'lastPacket' else '',
                              'data': 'MData %s' % coqrun.zlist(v) if f == 'data' else ''}[f]
    terms, exp, hcs = [], [], []
    for i in range(ctx.scale(300, 5000)):
        hc = _history_case(rng)
        hc['ops'] = [op for op in hc['ops'] if op[0] != 'uwrite']
        b = hc['build']
        terms.append('concat (map enc_resb (h_run (mkp %d %d %d %d 0 %d %s) [%s]))' % (b[0], b[1], b[2], b[3], len(b[4]), coqrun.zlist(b[4]),
                                                                                      '; '.join(pop_term(op) for op in hc['ops'])))
        exp.append(sum(impl_history(b, hc['ops']), []))
        hcs.append(dict(hc, what='encodes of one packet object differ from h_run'))
    run_blocks('c18p', terms, exp, lambda bi: hcs[bi], 60)
    dist['packet_history_cases'] = len(hcs)

    # ---- T. TcpDriver end to end (its own connect: router thread + receive thread; send_packet; receive_packet(0, >0, <0); close)
    def dev_term(e):
        if e[0] == 'P':
            return 'DPump'
        if e[0] == 'S':
            return 'DSend (crtp_header %d %d) %s' % (e[1], e[2], coqrun.zlist(e[3]))
        if e[0] == 'R':
            return 'DRecv %s' % coqrun.z(e[1])
        return 'DClose'
    terms, exp, dcs2 = [], [], []
    for i in range(ctx.scale(60, 1000)):
        dc = _driver_case(rng)
        stream = b''.join(_frame_ref(a[0], a[1], a[2], a[3], 0, a[4]) for a in dc['items'])
        chunks = _cut(stream, dc['cuts'])
        early = rng.randrange(0, len(dc['items']) + 1) if i % 4 == 0 else 0
        out, _, info = impl_driver_session(chunks, dc['takes'], dc['events'], early=early)
        terms.append('drv_case %s %s [%s]' % (coqrun.zlist(dc['takes']), _sock_term(chunks),
                                             '; '.join(['DPump'] * early + [dev_term(e) for e in dc['events']])))
        dc['early'] = early
        exp.append(out)
        dcs2.append(dict(dc, what='TcpDriver session differs from d_run', kind='driver'))
        if info['stuck'] or info['errors']:
            dis.append(dict(dcs2[-1], what='TcpDriver session: thread stuck or link error %s' % info['errors'][:1]))
            break
        if _inside_header(dc['cuts'], _bounds(dc['items'])):
            nontriv.add(_h(['drv', dc['items'], dc['cuts'], dc['events']]))
    run_blocks('c18t', terms, exp, lambda bi: dcs2[bi], 30, header=HEADER_D)
    dist['tcp_driver_sessions'] = len(dcs2)

    # ---- W. two or three threads sending on one transport (CPX.sendPacket and TcpDriver.send_packet), scheduled at every
    #         send call: the model must accept the observed order of frames and the stream must be exactly those frames
    def rand_writers():
        ws = []
        for w in range(rng.choice([2, 2, 3])):
            ops = []
            for k in range(rng.randrange(1, 4)):
                body = [w, k] + [rng.randrange(256) for _ in range(rng.choice([0, 1, 3, 8]))]
                if rng.random() < 0.5:
                    ops.append(['crtp', rng.randrange(16), rng.randrange(4), body])
                else:
                    ops.append(['cpx', [rng.choice(TARGETS), rng.choice(TARGETS), rng.choice(FUNCTIONS), rng.randrange(2), body]])
            ws.append(ops)
        return ws
    terms, exp, wcs2 = [], [], []
    for i in range(ctx.scale(150, 2500)):
        ws = rand_writers()
        piece = rng.choice([0, 0, 1, 2, 3, 5])
        sched_ = [rng.randrange(3) for _ in range(rng.randrange(0, 14))]
        stream, order, errs = impl_writers(ws, piece, sched_)
        pss = '[' + '; '.join('[' + '; '.join('mkp %d %d %d %d 0 %d %s' % (e[0], e[1], e[2], e[3], len(e[5]), coqrun.zlist(e[5]))
                                              for e in map(_writer_expected, ops)) + ']' for ops in ws) + ']'
        terms.append('writers_case %s %s %s' % (pss, coqrun.zlist(order), coqrun.zlist(stream)))
        nops = sum(len(o) for o in ws)
        r = impl_read_n([stream], nops)[0] if stream else [0]
        exp.append([1, 1] + _unflat_concat(r))
        wcs2.append({'what': 'stream written by concurrent senders is not an interleaving of whole frames (model rejects the trace)',
                     'kind': 'writers', 'writers': ws, 'piece': piece, 'schedule': sched_, 'stream': list(stream), 'order': order})
        if errs:
            dis.append(dict(wcs2[-1], what='sender threads did not complete: %s' % errs[:2]))
            break
    run_blocks('c18v', terms, exp, lambda bi: wcs2[bi], 40)
    dist['concurrent_writer_cases'] = len(wcs2)

    # ---- G. UARTTransport (serial path): sessions of readPacket / writePacket over a scripted port
    n_u = ctx.scale(250, 4000)
    terms, exp, ucs = [], [], []
    ukinds = {}
    for i in range(n_u):
        items = []
        for _ in range(rng.randrange(0, 6)):
            k = rng.choice(['frame', 'frame', 'frame', 'cts', 'noise', 'badcrc', 'badver', 'badfn', 'ff'])
            ukinds[k] = ukinds.get(k, 0) + 1
            pl = [rng.randrange(256) for _ in range(rng.choice([0, 1, 2, 5, 30, 31, 98, 120, 253]))]
            sdf = (rng.choice(TARGETS), rng.choice(TARGETS), rng.choice(FUNCTIONS), rng.randrange(2))
            if k == 'frame':
                items.append(_uart_frame_ref(*sdf, 0, pl))
            elif k == 'cts':
                items.append(bytes([255, 0]))
            elif k == 'noise':
                items.append(bytes(rng.randrange(255) for _ in range(rng.randrange(1, 4))))
            elif k == 'badcrc':
                items.append(_uart_frame_ref(*sdf, 0, pl, bad_crc=True))
            elif k == 'badver':
                items.append(_uart_frame_ref(*sdf, rng.randrange(1, 4), pl))
            elif k == 'badfn':
                items.append(_uart_frame_ref(sdf[0], sdf[1], rng.choice([0, 6, 33, 63]), sdf[3], 0, pl))
            else:
                items.append(bytes([255]))        # a lone start byte: the next byte is taken as the size
        data = b''.join(items)
        if rng.random() < 0.15 and len(data) > 1:
            data = data[:rng.randrange(1, len(data))]
        ops = []
        for _ in range(rng.randrange(1, len(items) + 4)):
            if rng.random() < 0.6:
                ops.append(['R'])
            else:
                ops.append(['W', rng.choice(TARGETS), rng.choice(TARGETS), rng.choice(FUNCTIONS), rng.randrange(2),
                            [rng.randrange(256) for _ in range(rng.choice([0, 1, 3, 30, 97, 98, 99, 150]))]])
        locked = rng.randrange(2)
        out, _ = impl_uart_run(ops, data, locked)
        ot = '[' + '; '.join('UR' if o[0] == 'R' else 'UW (mkp %d %d %d %d 0 %d %s)' % (o[1], o[2], o[3], o[4], len(o[5]), coqrun.zlist(o[5]))
                             for o in ops) + ']'
        terms.append('uart_case %s %s %d' % (ot, coqrun.zlist(data), locked))
        exp.append(out)
        ucs.append({'what': 'UARTTransport session differs from uart_run', 'ops': ops, 'port_bytes': list(data), 'locked': locked})
    run_blocks('c18u', terms, exp, lambda bi: ucs[bi], 40, header=HEADER_U)
    terms, exp, kcs = [], [], []
    for i in range(ctx.scale(200, 3000)):
        pre = []
        for _ in range(rng.randrange(0, 5)):
            pre += rng.choice([[rng.randrange(255)], [255, rng.randrange(1, 256)], [255, 1], [255, 1, 0], [255, 255, 0], [0], [255, 255], [255, 0]])
        if rng.random() < 0.8:
            pre += [255, 0]
        pre += [rng.randrange(256) for _ in range(rng.randrange(0, 4))]
        t = impl_uart_connect(pre)
        terms.append('match uart_connect %s with Some r => [zlen r; 1] | None => [-1] end' % coqrun.zlist(pre))
        exp.append([-1] if t is None else [len(t._serial.buf) - t._serial.pos, 1 if t._serial.written == [bytes([255, 0])] else 0])
        kcs.append({'what': 'UARTTransport.connect handshake differs from uart_connect', 'port_bytes': pre})
    run_blocks('c18k', terms, exp, lambda bi: kcs[bi], 50, header=HEADER_U)
    dist['uart_connect_cases'] = len(kcs)
    dist['uart_sessions'] = n_u
    dist['uart_item_kinds'] = ukinds

    flush_blocks()
    return {
        'evaluations': n_eval,
        'distinct_nontrivial': len(nontriv),
        'rule': 'non-trivial = a stream case in which some cut falls inside a length prefix or CPX header (bytes 1..3 of '
                'a frame), or any multi-piece fragmentation of the exhaustively cut short streams; counted by hashing '
                '(pieces, script). Exhaustive parts: all 65 536 header byte pairs through _set_wire_data, all attribute '
                'values through _get_wire_data, all 2^(n-1) fragmentations of each short stream (n <= %d)' % max_len,
        'samples': samples + shorts[:2],
        'distribution': dist,
        'exhaustive': False,
        'disagreements': dis,
    }


M64 = (1 << 64) - 1


def _h64(m, l):
    h = 7
    for v in l:
        h = (h * m + v + 1) & M64
    return h


def _hh(l):
    return [len(l), _h64(1000003, l), _h64(6364136223846793005, l)]


def _unflat_concat(r):
    """impl_read_n output [pending, len1, x.., len2, ..] -> concatenation of the encoded results (no length prefixes)"""
    out, i = [], 1
    while i < len(r):
        n = r[i]
        out += r[i + 1:i + 1 + n]
        i += 1 + n
    return out


def _hist(xs):
    h = {}
    for x in xs:
        k = str(x) if x < 8 else ('8-15' if x < 16 else '16+')
        h[k] = h.get(k, 0) + 1
    return h


# ------------------------------------------------------------------------------------------------ oracle
def _key(p):
    return [p.source.value, p.destination.value, p.function.value, bool(p.lastPacket), list(bytes(p.data))]


def _check_roundtrip(s, d, f, last, data):
    cpx, _ = _mods()
    p = make_packet(s, d, f, last, data)
    q = cpx.CPXPacket()
    try:
        with _quiet():
            q.wireData = p.wireData
    except Exception as e:  # noqa
        return {'observed': repr(e)}
    want = [s, d, f, bool(last), list(data)]
    if _key(q) != want or q.length != len(data):
        return {'observed': _key(q), 'expected': want}
    return None


def _check_version(s, d, f, last, ver, data):
    cpx, _ = _mods()
    p = make_packet(s, d, f, last, data, ver=ver)
    q = cpx.CPXPacket()
    try:
        with _quiet():
            q.wireData = p.wireData
    except RuntimeError:
        return None
    except Exception as e:  # noqa
        return {'observed': 'raised %r instead of RuntimeError' % (e,)}
    return {'observed': 'accepted', 'decoded': _key(q)}


def _check_stream(pkts, cuts):
    """pkts: list of [s,d,f,last,data]; real writePacket -> stream -> cut -> real readPacket"""
    stream = b''
    for a in pkts:
        enc, b = impl_write(make_packet(*a))
        if b is None:
            return {'observed': 'writePacket raised', 'enc': enc}
        stream += b
    ref = b''.join(_frame_ref(a[0], a[1], a[2], a[3], 0, a[4]) for a in pkts)
    if stream != ref:
        return {'observed': {'stream': list(stream[:80])}, 'expected': {'stream': list(ref[:80])},
                'detail': 'bytes written are not 16-bit LE length prefix + 2 header bytes + payload'}
    chunks = _cut(stream, cuts)
    t = _transport(chunks)
    got = []
    with _quiet():
        for _ in pkts:
            try:
                got.append(_key(t.readPacket()))
            except Exception as e:  # noqa
                got.append(repr(e))
                break
    want = [[a[0], a[1], a[2], bool(a[3]), list(a[4])] for a in pkts]
    if got != want or t._socket.pending() != 0:
        return {'observed': got[:6], 'expected': want[:6], 'left_over': t._socket.pending()}
    return None


def _valid_frame(a):
    return a[0] in TARGETS and a[1] in TARGETS and a[2] in FUNCTIONS and (a[5] if len(a) > 5 else 0) == 0


def _check_router(pkts, cuts, script):
    """per-function FIFO on the real router fed by the real transport; packets carry a unique tag in data[0:2].
    Entries may be frames the receiver must reject (6th element = version <> 0, unknown target / function code):
    the text then says: the VALID packets of the stream are delivered exactly, in order, per function."""
    stream = b''.join(_frame_ref(a[0], a[1], a[2], a[3], a[5] if len(a) > 5 else 0, a[4]) for a in pkts)
    out, obs, r = impl_system(_cut(stream, cuts), script)
    # expected by the text: for each f, packets of function f arriving after the first receive for f, in order
    opened, exp_q, arrivals = set(), {}, iter(pkts)
    want_obs = []
    for e in script:
        if e < 0:
            a = next(arrivals, None)
            if a is not None and _valid_frame(a) and a[2] in opened:
                exp_q[a[2]].append(a)
        else:
            if e not in opened:
                opened.add(e)
                exp_q[e] = []
            if exp_q[e]:
                a = exp_q[e].pop(0)
                want_obs.append([e, 1, a[0], a[1], a[2], a[3], 0, len(a[4]), len(a[4])] + list(a[4]))
            else:
                want_obs.append([e, 0])
    if obs != want_obs:
        k = next((i for i, (x, y) in enumerate(zip(obs, want_obs)) if x != y), min(len(obs), len(want_obs)))
        return {'observed': obs[k:k + 2], 'expected': want_obs[k:k + 2], 'detail': 'receive no. %d' % k}
    for f, q in exp_q.items():
        have = [_key(p) for p in r._rxQueues[f].queue]
        if have != [[a[0], a[1], a[2], bool(a[3]), list(a[4])] for a in q]:
            return {'observed': have[:4], 'expected': q[:4], 'detail': 'packets left in queue %d' % f}
    return None


def _check_uplink(kind, mode, a, b, data):
    enc = impl_uplink(kind, mode, a, b, data)
    hdr = (a | 12) if mode == 1 else (((a & 15) << 4) | 12 | (b & 3))
    if enc[0] != 0:
        return {'observed': enc}
    try:
        got = _parse_ref(bytes(enc[2:]))
    except Exception as e:  # noqa
        return {'observed': enc[2:40], 'detail': 'not a well-formed frame: %r' % (e,)}
    want = [(3, 1, 3, 0, 0, [hdr] + list(data))]
    if got != want:
        return {'observed': got, 'expected': want}
    return None


def _check_downlink(kind, items, cuts):
    """items: list of (src, dst, last, header, data) CRTP-function frames"""
    stream = b''.join(_frame_ref(s, d, 3, l, 0, [h] + list(dt)) for (s, d, l, h, dt) in items)
    out, errors = impl_downlink(kind, _cut(stream, cuts), len(items))
    want = [[1, h | 12, (h & 0xF0) >> 4, h & 3, len(dt)] + list(dt) for (s, d, l, h, dt) in items]
    if out != want or errors:
        return {'observed': out[:4], 'expected': want[:4], 'errors': [e[:200] for e in errors[:1]]}
    return None


def _check_decode_consistent(tf, fv):
    """a header that decodes must re-encode to the same two bytes (bit 7 of the first byte is unused)"""
    cpx, _ = _mods()
    p = cpx.CPXPacket()
    try:
        with _quiet():
            p.wireData = bytearray([tf, fv, 1])
    except Exception:  # noqa
        if fv < 64 and ((tf >> 3) & 7) in TARGETS and (tf & 7) in TARGETS and (fv & 63) in FUNCTIONS:
            return {'observed': 'valid header rejected'}
        return None
    w = list(p.wireData)
    if w != [tf & 0x7F, fv, 1]:
        return {'observed': w, 'expected': [tf & 0x7F, fv, 1]}
    return None


def _check_uart_roundtrip(s, d, f, last, data):
    """real UART writePacket bytes == reference framing; real readPacket returns the fields and answers clear-to-send"""
    t = _uart(b'')
    with _quiet():
        t.writePacket(make_packet(s, d, f, last, data))
    w = t._serial.written
    ref = _uart_frame_ref(s, d, f, last, 0, data)
    if w != [ref]:
        return {'observed': [list(x) for x in w][:2], 'expected': list(ref)}
    t2 = _uart(bytes([17, 255, 0]) + ref + b'\x01', locked=True)
    buf = io.StringIO()
    with contextlib.redirect_stdout(buf):
        p = t2.readPacket()
    got = _key(p) + [t2._serial.written, len(t2._serial.buf) - t2._serial.pos, t2._lock.locked(), 'CRC error' in buf.getvalue()]
    want = [s, d, f, bool(last), list(data), [bytes([255, 0])], 1, False, False]
    if got != want:
        return {'observed': repr(got), 'expected': repr(want)}
    return None


def _check_uart_tunnel(mode, a, b, data, items):
    """SerialDriver over the real UARTTransport, both directions"""
    hdr = (a | 12) if mode == 1 else (((a & 15) << 4) | 12 | (b & 3))
    t = _uart(b'')
    with _quiet():
        drv, _, _ = _driver('serial', t)
        drv.send_packet(_crtp(mode, a, b, data))
    ref = _uart_frame_ref(3, 1, 3, 0, 0, [hdr] + list(data))
    if t._serial.written != [ref]:
        return {'observed': [list(x) for x in t._serial.written][:2], 'expected': list(ref), 'detail': 'uplink'}
    stream = b''.join(_uart_frame_ref(s, d, 3, l, 0, [h] + list(dt)) for (s, d, l, h, dt) in items)
    out, errors = impl_downlink('serial', None, len(items), real=_uart(stream))
    want = [[1, h | 12, (h & 0xF0) >> 4, h & 3, len(dt)] + list(dt) for (s, d, l, h, dt) in items]
    if out != want or errors:
        return {'observed': out[:4], 'expected': want[:4], 'errors': [e[:200] for e in errors[:1]], 'detail': 'downlink'}
    return None


def _check_short_send(pkts, takes, cuts):
    """the socket's send takes only part of what it is offered: the stream must still carry the whole frames"""
    t = _transport([], takes)
    for a in pkts:
        t._socket.ti = 0
        with _quiet():
            t.writePacket(make_packet(*a))
    stream = t._socket.stream()
    ref = b''.join(_frame_ref(a[0], a[1], a[2], a[3], 0, a[4]) for a in pkts)
    if stream != ref:
        return {'observed': {'stream': list(stream[:80]), 'bytes': len(stream)}, 'expected': {'stream': list(ref[:80]), 'bytes': len(ref)},
                'detail': 'send() took %s bytes per call; the rest of the frame never reached the stream' % takes}
    r = impl_read_n(_cut(stream, cuts), len(pkts))[0]
    want = [0] + coqrun.flat([[0, a[0], a[1], a[2], a[3], 0, len(a[4]), len(a[4])] + list(a[4]) for a in pkts])
    if r != want:
        return {'observed': r[:60], 'expected': want[:60]}
    return None


def _check_stale_length(a, new_data, cuts):
    """packet built, then its data assigned (as one fills in a default-constructed CPXPacket): must still frame"""
    p = make_packet(*a)
    p.data = bytearray(new_data)
    enc, b = impl_write(p)
    ref = _frame_ref(a[0], a[1], a[2], a[3], 0, new_data) + _frame_ref(3, 1, 1, 0, 0, [7])
    if b is None:
        return {'observed': enc}
    _, b2 = impl_write(make_packet(3, 1, 1, 0, [7]))
    stream = b + b2
    r = impl_read_n(_cut(stream, cuts), 2)[0]
    want = [0] + coqrun.flat([[0, a[0], a[1], a[2], a[3], 0, len(new_data), len(new_data)] + list(new_data),
                              [0, 3, 1, 1, 0, 0, 1, 1, 7]])
    if stream != ref or r != want:
        return {'observed': {'stream': list(stream[:60]), 'read': r[:40]}, 'expected': {'stream': list(ref[:60]), 'read': want[:40]},
                'detail': 'length prefix does not describe the data that follows'}
    return None


def _check_uart_oversize(n_big, then):
    """a packet too large for the UART framing is refused; the packets after it must still go out"""
    t = _uart(b'')
    refused = None
    with _quiet():
        try:
            t.writePacket(make_packet(3, 1, 5, 0, [1] * n_big))
        except Exception as e:  # noqa
            refused = type(e).__name__
        if refused is None:
            return None if n_big <= 98 else {'observed': 'oversize packet written: %d bytes' % len(t._serial.written[-1])}
        nw = len(t._serial.written)
        drv, _, _ = _driver('serial', t)
        try:
            drv.send_packet(_crtp(0, then[0], then[1], then[2]))
        except _WouldBlock:
            return {'observed': 'send_packet blocks for ever in lock.acquire(): refused packet (%s) left the flow-control lock held' % refused,
                    'expected': 'CRTP packet written to the port'}
    ref = _uart_frame_ref(3, 1, 3, 0, 0, [((then[0] & 15) << 4) | 12 | (then[1] & 3)] + list(then[2]))
    if t._serial.written[nw:] != [ref]:
        return {'observed': [list(x) for x in t._serial.written[nw:]], 'expected': list(ref)}
    return None


def _check_cpx_facade(pkts, cuts, takes, sends, trans):
    """real CPX object, router thread running: per-function FIFO, whole frames out, transaction reply, clean close"""
    stream = b''.join(_frame_ref(a[0], a[1], a[2], a[3], 0, a[4]) for a in pkts)
    reply = [1, 3, trans[2], 1, [0xEE] + list(trans[4])]
    stream += _frame_ref(reply[0], reply[1], reply[2], reply[3], 0, reply[4])
    fs = sorted(set(a[2] for a in pkts))
    evs = [['R', f] for f in fs] + [['S', a] for a in sends] + [['P']] * len(pkts)
    drain = []
    for f in fs:
        drain += [['R', f]] * (sum(1 for a in pkts if a[2] == f) + 1)
    evs += drain + [['T', trans, 1], ['C'], ['P']]
    out, obs, info = impl_cpx_session(_cut(stream, cuts), takes, evs)
    want = [[20, f, 0] for f in fs]
    want += [[21, 0, len(a[4]) + 4] + list(_frame_ref(a[0], a[1], a[2], a[3], 0, a[4])) for a in sends]
    for f in fs:
        for a in pkts:
            if a[2] == f:
                want.append([20, f, 1, a[0], a[1], a[2], a[3], 0, len(a[4]), len(a[4])] + list(a[4]))
        want.append([20, f, 0])
    tf = _frame_ref(trans[0], trans[1], trans[2], trans[3], 0, trans[4])
    want.append([22, 0, len(tf)] + list(tf) + [1, reply[0], reply[1], reply[2], reply[3], 0, len(reply[4]), len(reply[4])] + reply[4])
    want.append([23, 1])
    if obs != want:
        k = next((i for i, (x, y) in enumerate(zip(obs, want)) if x != y), min(len(obs), len(want)))
        return {'observed': obs[k:k + 2], 'expected': want[k:k + 2], 'detail': 'observation no. %d of the session' % k}
    if info['thread_alive_after']:
        return {'observed': 'router thread alive after close()'}
    return None


def _check_writers(writers, piece, schedule):
    """several threads send on one connection: the peer must see an interleaving of their packet sequences"""
    stream, order, errs = impl_writers(writers, piece, schedule)
    if errs:
        return {'observed': errs[:2]}
    try:
        got = _parse_ref(stream)
    except Exception as e:  # noqa
        return {'observed': {'stream': list(stream[:120])}, 'detail': 'stream is not a sequence of frames: %r' % (e,),
                'expected': 'an interleaving of the senders\' frames'}
    nxt = [0] * len(writers)
    for k, g in enumerate(got):
        for w, ops in enumerate(writers):
            if nxt[w] < len(ops) and _writer_expected(ops[nxt[w]]) == g:
                nxt[w] += 1
                break
        else:
            return {'observed': {'packet_no': k, 'packet': list(g), 'stream': list(stream[:120])},
                    'expected': 'the next packet of one of the senders', 'detail': 'a frame was torn by another sender'}
    if nxt != [len(o) for o in writers]:
        return {'observed': {'delivered_per_sender': nxt}, 'expected': [len(o) for o in writers]}
    return None


_EXC_KINDS = {'eof': EOFError, 'reset': ConnectionResetError, 'oserror': OSError, 'timeout': TimeoutError}


def impl_connections(kind, sessions):
    """ONE transport object, several connections: sessions = [[pieces, nreads, exc_kind], ...]; between sessions the real
    disconnect() and connect() are called.  kind 'tcp' (SocketTransport) or 'uart' (UARTTransport, incl. its connect handshake)."""
    _, tr = _mods()
    outs = []
    t = None
    with _quiet():
        for k, (pieces, nreads, exck) in enumerate(sessions):
            if kind == 'tcp':
                sock = Sock([bytes(c) for c in pieces])
                sock.exc = _EXC_KINDS[exck]
                if t is None:
                    t = _transport([])
                    t._socket = sock
                else:
                    t.disconnect()
                    _FakeSocketModule.next_sock = sock
                    t.connect()
            else:
                data = b''.join(bytes(c) for c in pieces)
                if t is None:
                    t = _uart(data)
                else:
                    t.disconnect()
                    _FakeSerialModule.next_port = FakeSerial(bytes([255, 0]) + data)
                    t.connect()
            res = []
            for _ in range(nreads):
                try:
                    p = t.readPacket()
                    res.append([0] + _enc_pkt(p))
                except Exception as e:  # noqa
                    res.append([1, _exc_code(e)])
            outs.append(res)
    return outs


def _conn_case(rng):
    sessions = []
    for k in range(rng.choice([2, 2, 3])):
        ps = _rand_pkts(rng, rng.choice([1, 2, 3]))
        stream = b''.join(_frame_ref(a[0], a[1], a[2], a[3], 0, a[4]) for a in ps)
        L = len(stream)
        cut_at = L
        if k < 2 and rng.random() < 0.8:
            cut_at = rng.randrange(max(1, L - len(ps[-1][4]) - 4 + 1), L)       # the stream breaks off inside its last frame
        pieces = _cut(stream[:cut_at], _rand_cuts(rng, cut_at, _bounds(ps)))
        sessions.append({'packets': ps, 'cut_at': cut_at, 'pieces': [list(c) for c in pieces], 'reads': len(ps) + rng.randrange(0, 2),
                         'exc': rng.choice(sorted(_EXC_KINDS))})
    return {'kind': 'tcp', 'sessions': sessions}


def _check_connections(kind, sessions):
    """each connection of one transport object is re-assembled into exactly the packets ITS stream carries, whatever an earlier
    connection left unfinished"""
    outs = impl_connections(kind, [[s_['pieces'], s_['reads'], s_['exc']] for s_ in sessions])
    for k, s_ in enumerate(sessions):
        L = 0
        want = []
        for a in s_['packets']:
            L += len(a[4]) + (4 if kind == 'tcp' else 5)
            if L <= s_['cut_at']:
                want.append([0, a[0], a[1], a[2], a[3], 0, len(a[4]), len(a[4])] + list(a[4]))
        want = (want + [[1, 4]] * s_['reads'])[:s_['reads']]
        if outs[k] != want:
            i = next((j for j, (x, y) in enumerate(zip(outs[k], want)) if x != y), 0)
            return {'observed': outs[k][i:i + 2], 'expected': want[i:i + 2],
                    'detail': 'connection no. %d of the same transport object, read no. %d' % (k, i)}
    return None


def impl_history(build, ops):
    """one real CPXPacket object: build = [s, d, f, last, data]; ops: ['enc'] (wireData), ['write'] (SocketTransport.writePacket),
    ['uwrite'] (UARTTransport.writePacket), ['set', field, value], ['decode', bytes].  Returns the encoded outputs."""
    p = make_packet(*build)
    outs = []
    with _quiet():
        for op in ops:
            if op[0] == 'enc':
                b = list(p.wireData)
                outs.append([0, len(b)] + b)
            elif op[0] == 'write':
                outs.append(impl_write(p)[0])
            elif op[0] == 'uwrite':
                t = _uart(b'')
                try:
                    t.writePacket(p)
                    outs.append([0, len(t._serial.written[-1])] + list(t._serial.written[-1]))
                except (TypeError, ValueError):
                    outs.append([1, 12])
            elif op[0] == 'set':
                f, v = op[1], op[2]
                if f == 'source':
                    p.source = _tg_member(v)
                elif f == 'destination':
                    p.destination = _tg_member(v)
                elif f == 'function':
                    p.function = _fn_member(v)
                elif f == 'version':
                    p.version = v
                elif f == 'lastPacket':
                    p.lastPacket = bool(v)
                else:
                    p.data = bytearray(v)
            else:
                p.wireData = bytearray(op[1])
    return outs


def _history_case(rng, simple_field=None):
    build = [rng.choice(TARGETS), rng.choice(TARGETS), rng.choice(FUNCTIONS), rng.randrange(2), [rng.randrange(256) for _ in range(rng.randrange(0, 4))]]
    ops = []
    if rng.random() < 0.25:          # a received packet that is edited and sent on
        ops.append(['decode', list(_frame_ref(rng.choice(TARGETS), rng.choice(TARGETS), rng.choice(FUNCTIONS), rng.randrange(2), 0,
                                              [rng.randrange(256) for _ in range(rng.randrange(0, 4))])[2:])])
    fields = ['source', 'destination', 'function', 'version', 'lastPacket', 'data']
    for _ in range(rng.randrange(2, 5)):
        ops.append([rng.choice(['enc', 'enc', 'write', 'write', 'uwrite'])])
        for f in ([simple_field] if simple_field else rng.sample(fields, rng.randrange(0, 4))):
            v = {'source': rng.choice(TARGETS), 'destination': rng.choice(TARGETS), 'function': rng.choice(FUNCTIONS),
                 'version': rng.choice([0, 0, 0, 1, 2, 3]), 'lastPacket': rng.randrange(2),
                 'data': [rng.randrange(256) for _ in range(rng.randrange(0, 5))]}[f]
            ops.append(['set', f, v])
    ops.append([rng.choice(['enc', 'write', 'uwrite'])])
    return {'build': build, 'ops': ops}


def _check_history(build, ops):
    """every encode of one packet object reflects the CURRENT attribute values"""
    outs = impl_history(build, ops)
    cur = {'source': build[0], 'destination': build[1], 'function': build[2], 'lastPacket': build[3], 'version': 0, 'data': list(build[4])}
    k = 0
    for i, op in enumerate(ops):
        if op[0] == 'set':
            cur[op[1]] = op[2]
        elif op[0] == 'decode':
            b = op[1]
            cur = {'source': (b[0] >> 3) & 7, 'destination': b[0] & 7, 'function': b[1] & 63, 'lastPacket': 1 if b[0] & 0x40 else 0,
                   'version': b[1] >> 6, 'data': list(b[2:])}
        else:
            tcp = _frame_ref(cur['source'], cur['destination'], cur['function'], cur['lastPacket'], cur['version'], cur['data'])
            want = {'enc': list(tcp[2:]), 'write': list(tcp),
                    'uwrite': list(_uart_frame_ref(cur['source'], cur['destination'], cur['function'], cur['lastPacket'], cur['version'], cur['data']))}[op[0]]
            if outs[k] != [0, len(want)] + want:
                return {'observed': outs[k][2:], 'expected': want, 'detail': 'encode no. %d (%s, operation %d) does not carry the current attributes %s'
                                                                             % (k, op[0], i, {f: v for f, v in cur.items() if f != 'data'})}
            k += 1
    return None


def _driver_case(rng):
    nf = rng.choice([1, 2, 3, 4, 6])
    items = []
    for _ in range(nf):
        fn = 3 if rng.random() < 0.75 else rng.choice(FUNCTIONS)
        data = [rng.randrange(256) for _ in range(rng.choice([0, 1, 1, 2, 5, 31, 32]))]
        items.append([rng.choice(TARGETS), rng.choice(TARGETS), fn, rng.randrange(2), data])
    L = sum(len(a[4]) + 4 for a in items)
    events = []
    closing = rng.random() < 0.3
    for _ in range(rng.randrange(2, 2 * nf + 7)):
        k = rng.choice(['P', 'P', 'P', 'R', 'R', 'S'] + (['C'] if closing else []))
        if k == 'P':
            events.append(['P'])
        elif k == 'R':
            events.append(['R', rng.choice([0, 0, 1, -1])])
        elif k == 'S':
            events.append(['S', rng.randrange(16), rng.randrange(4), [rng.randrange(256) for _ in range(rng.choice([0, 1, 2, 15, 30]))]])
        else:
            events.append(['C'])
    return {'items': items, 'cuts': list(_rand_cuts(rng, L, _bounds(items))), 'takes': [rng.choice([1, 2, 3, 50]) for _ in range(rng.randrange(0, 3))],
            'events': events}


def _check_driver(items, cuts, takes, events, early=0):
    """TcpDriver as a whole, both directions: connect announces the bridge, CRTP-function frames come out of
    receive_packet as CRTP packets in order (any wait argument), send_packet writes whole frames, close stops both threads"""
    stream = b''.join(_frame_ref(a[0], a[1], a[2], a[3], 0, a[4]) for a in items)
    out, obs, info = impl_driver_session(_cut(stream, cuts), takes, events, early=early)
    want = [[31, 0, 6, 4, 0, 25, 1, 0x21, 0x01]]
    inq, arrivals, closed = [], iter(items), False
    for e in [['P']] * early + list(events):
        if e[0] == 'P':
            if not closed:
                a = next(arrivals, None)
                if a is not None and a[2] == 3 and a[4]:
                    h = a[4][0]
                    inq.append([1, h | 12, (h & 0xF0) >> 4, h & 3, len(a[4]) - 1] + list(a[4][1:]))
        elif e[0] == 'S':
            if closed:
                want.append([31, 1, 5])
            else:
                fr = _frame_ref(3, 1, 3, 0, 0, [((e[1] & 15) << 4) | 12 | (e[2] & 3)] + list(e[3]))
                want.append([31, 0, len(fr)] + list(fr))
        elif e[0] == 'R':
            want.append([32] + (inq.pop(0) if inq else [0]))
        else:
            want.append([33])
            closed = True
    if info['stuck']:
        return {'observed': 'router / receive thread did not settle after an iteration', 'expected': 'packet handed to in_queue'}
    if obs != want:
        k = next((i for i, (x, y) in enumerate(zip(obs, want)) if x != y), min(len(obs), len(want)))
        return {'observed': obs[k:k + 2], 'expected': want[k:k + 2], 'detail': 'observation no. %d' % k}
    if info['errors']:
        return {'observed': [m_[:200] for m_ in info['errors'][:1]], 'expected': 'no link error'}
    if closed and (info['alive'] != [False, False] or not info['cpx_none']):
        return {'observed': {'router/receive thread alive after close': info['alive'], 'cpx_none': info['cpx_none']}}
    if info['addr'] != ('aideck.local', 5000):
        return {'observed': info['addr'], 'expected': ['aideck.local', 5000]}
    return None


def _check_driver_misc():
    import cflib.crtp.tcpdriver as td
    from cflib.crtp.exceptions import WrongUriType
    drv = td.TcpDriver()
    for uri in ('radio://0/80/2M', 'udp://host:1', 'serial://tty', 'usb://0'):
        try:
            with _quiet():
                drv.connect(uri, None, None)
            return {'observed': 'connect(%r) did not raise' % uri, 'expected': 'WrongUriType'}
        except WrongUriType:
            pass
        except Exception as e:  # noqa
            return {'observed': 'connect(%r) raised %r' % (uri, e), 'expected': 'WrongUriType'}
    if drv.scan_interface(None) != [] or drv.get_name() != 'cpx' or drv.needs_resending is not False:
        return {'observed': [drv.scan_interface(None), drv.get_name(), drv.needs_resending], 'expected': [[], 'cpx', False]}
    return None


def _expected_facade(pkts, events, functions=()):
    """property text for one router: per function, arrival order, from the first receive call on; a transaction is one more
    receiver of its function (it takes the head of the queue after its k router iterations)"""
    opened, exp_q, arrivals, want = set(functions), {f: [] for f in functions}, iter(pkts), []

    def arrive():
        a = next(arrivals, None)
        if a is not None and a[2] in opened:
            exp_q[a[2]].append(a)

    def enc(a):
        return [1, a[0], a[1], a[2], a[3], 0, len(a[4]), len(a[4])] + list(a[4])
    for e in events:
        if e[0] == 'P':
            arrive()
        elif e[0] == 'R':
            fn = e[1]
            if fn not in opened:
                opened.add(fn)
                exp_q[fn] = []
            want.append([20, fn] + (enc(exp_q[fn].pop(0)) if exp_q[fn] else [0]))
        elif e[0] == 'S':
            fr = _frame_ref(e[1][0], e[1][1], e[1][2], e[1][3], 0, e[1][4])
            want.append([21, 0, len(fr)] + list(fr))
        elif e[0] == 'T':
            fn = e[1][2]
            fr = _frame_ref(e[1][0], e[1][1], fn, e[1][3], 0, e[1][4])
            if fn not in opened:
                opened.add(fn)
                exp_q[fn] = []
            for _ in range(e[2]):
                arrive()
            want.append([22, 0, len(fr)] + list(fr) + (enc(exp_q[fn].pop(0)) if exp_q[fn] else [0]))
    return want, exp_q


def _transaction_case(rng):
    fs = rng.sample(FUNCTIONS, rng.choice([1, 2, 2, 3]))
    n = rng.choice([1, 2, 3, 4, 6])
    pkts = [[rng.choice(TARGETS), rng.choice(TARGETS), rng.choice(fs), rng.randrange(2), [k // 256, k % 256] + [rng.randrange(256)] * rng.randrange(0, 3)]
            for k in range(n)]
    events = [['R', f] for f in rng.sample(fs, rng.randrange(0, len(fs) + 1))]
    for _ in range(rng.randrange(2, 2 * n + 5)):
        k = rng.choice(['P', 'P', 'P', 'R', 'T', 'T', 'S'])
        req = [3, rng.choice(TARGETS), rng.choice(fs), 0, [200, rng.randrange(256)]]
        events.append({'P': ['P'], 'R': ['R', rng.choice(fs)], 'T': ['T', req, rng.randrange(0, 3)], 'S': ['S', req]}[k])
    events += [['R', f] for f in fs for _ in range(2)]
    L = sum(len(p[4]) + 4 for p in pkts)
    return {'packets': pkts, 'cuts': list(_rand_cuts(rng, L, _bounds(pkts))), 'events': events}


def _check_transactions(pkts, cuts, events, functions=None):
    """arrivals, receivePacket and makeTransaction mixed on one real CPX (router thread running): every packet that arrived for a
    function after its queue existed is handed out exactly once, in arrival order, to that function's receivers; none is dropped"""
    stream = b''.join(_frame_ref(a[0], a[1], a[2], a[3], 0, a[4]) for a in pkts)
    out, obs, info = impl_cpx_session(_cut(stream, cuts), [], events, functions=functions)
    want, exp_q = _expected_facade(pkts, events, functions or ())
    if info['stuck']:
        return {'observed': 'router thread stuck', 'expected': 'session completes'}
    if obs != want:
        k = next((i for i, (x, y) in enumerate(zip(obs, want)) if x != y), min(len(obs), len(want)))
        return {'observed': obs[k:k + 2], 'expected': want[k:k + 2], 'detail': 'observation no. %d of the session' % k}
    for fn, q in exp_q.items():
        have = [_key(p) for p in info['router']._rxQueues[fn].queue if p is not None]
        if have != [[a[0], a[1], a[2], bool(a[3]), list(a[4])] for a in q]:
            return {'observed': have[:3], 'expected': q[:3], 'detail': 'packets left queued for function %d' % fn}
    return None


def _backlog_case(rng, n, simple=False):
    """one router: n packets of function f arrive and stay unread (or are read slowly) while packets of g (read at once)
    and h (receiver registers late) arrive in between"""
    f, g, h = rng.sample(FUNCTIONS, 3)
    if simple:
        pkts = [[1, 3, f, 0, [k // 256, k % 256]] for k in range(n)] + [[1, 3, g, 1, [255, 0, 7]]]
        events = [['R', f], ['R', g]] + [['P']] * (n + 1) + [['R', g], ['R', f]]
        return {'packets': pkts, 'cuts': [], 'events': events}
    m = rng.randrange(2, 7)
    slots = ['f'] * n + ['g'] * m + ['h'] * rng.randrange(0, 4)
    rng.shuffle(slots)
    slots += ['g']                                   # something of another function after the whole backlog
    pkts, events = [], [['R', f]]
    late_g = rng.random() < 0.3
    if not late_g:
        events.append(['R', g])
    every = rng.choice([0, 0, 7, 25])                # f's receiver: never reads / reads slowly
    reg_h = rng.randrange(0, len(slots))
    for k, sl in enumerate(slots):
        fn = {'f': f, 'g': g, 'h': h}[sl]
        pkts.append([rng.choice(TARGETS), rng.choice(TARGETS), fn, rng.randrange(2), [k // 256, k % 256] + [rng.randrange(256)] * rng.randrange(0, 3)])
        if k == reg_h:
            events.append(['R', h])
        if late_g and k == len(slots) // 3:
            events.append(['R', g])
        events.append(['P'])
        if sl == 'g' or (sl == 'h' and rng.random() < 0.5):
            events.append(['R', fn])
        if sl == 'f' and every and k % every == 0:
            events.append(['R', f])
    events += [['R', g], ['R', h]] + [['R', f]] * rng.choice([1, 3, n + 1])
    L = sum(len(p[4]) + 4 for p in pkts)
    return {'packets': pkts, 'cuts': list(_rand_cuts(rng, L, _bounds(pkts))), 'events': events}


def _check_backlog(pkts, cuts, events):
    """property text on one real router thread with a long unread backlog: every function's receivers get exactly that
    function's packets in arrival order whatever the others have (not) read; the router never stops reading"""
    stream = b''.join(_frame_ref(a[0], a[1], a[2], a[3], 0, a[4]) for a in pkts)
    out, obs, info = impl_cpx_session(_cut(stream, cuts), [], events)
    opened, exp_q, arrivals, want = set(), {}, iter(pkts), []
    for e in events:
        if e[0] == 'P':
            a = next(arrivals, None)
            if a is not None and a[2] in opened:
                exp_q[a[2]].append(a)
        else:
            fn = e[1]
            if fn not in opened:
                opened.add(fn)
                exp_q[fn] = []
            if exp_q[fn]:
                a = exp_q[fn].pop(0)
                want.append([20, fn, 1, a[0], a[1], a[2], a[3], 0, len(a[4]), len(a[4])] + list(a[4]))
            else:
                want.append([20, fn, 0])
    if info['stuck']:
        k = sum(1 for o in obs if o[0] == 20)
        return {'observed': 'router thread stuck handing over a packet: did not come back for its next iteration (%d bytes of the '
                            'stream unread, %d receive calls answered)' % (obs[-1][1], k),
                'expected': want[k:k + 2], 'detail': 'a full per-function queue must not stop the router'}
    if obs != want:
        k = next((i for i, (x, y) in enumerate(zip(obs, want)) if x != y), min(len(obs), len(want)))
        return {'observed': obs[k:k + 2], 'expected': want[k:k + 2], 'detail': 'receive no. %d' % k}
    npump = sum(1 for e in events if e[0] == 'P')
    if npump >= len(pkts) and out[0] != 0:
        return {'observed': '%d bytes left on the transport' % out[0], 'expected': 'stream consumed'}
    for fn, q in exp_q.items():
        have = [_key(p) for p in info['router']._rxQueues[fn].queue]
        if have != [[a[0], a[1], a[2], bool(a[3]), list(a[4])] for a in q]:
            return {'observed': have[:3], 'expected': q[:3], 'detail': 'packets left queued for function %d' % fn}
    return None


_CHECKS = {
    'reconnect_splices_old_bytes': lambda c: _check_connections(c['kind'], c['sessions']),
    'transaction_loses_queued_packets': lambda c: _check_transactions(c['packets'], c['cuts'], c['events']),
    'registered_functions_misrouted': lambda c: _check_transactions(c['packets'], c['cuts'], c['events'], functions=c['functions']),
    'encode_ignores_field_change': lambda c: _check_history(c['build'], c['ops']),
    'tcp_driver_session_violated': lambda c: _check_driver(c['items'], c['cuts'], c['takes'], c['events']),
    'tcp_driver_misc': lambda c: _check_driver_misc(),
    'crtp_lost_at_connect': lambda c: _check_driver(c['items'], c['cuts'], c['takes'], c['events'], early=c['early']),
    'router_blocks_on_backlog': lambda c: _check_backlog(c['packets'], c['cuts'], c['events']),
    'concurrent_writers_tear_frames': lambda c: _check_writers(c['writers'], c['piece'], c['schedule']),
    'short_send_loses_bytes': lambda c: _check_short_send(c['packets'], c['takes'], c['cuts']),
    'stale_length_misframes': lambda c: _check_stale_length(c['packet'], c['new_data'], c['cuts']),
    'uart_oversize_wedges_link': lambda c: _check_uart_oversize(c['big'], c['then']),
    'cpx_facade_violated': lambda c: _check_cpx_facade(c['packets'], c['cuts'], c['takes'], c['sends'], c['trans']),
    'uart_roundtrip_changed': lambda c: _check_uart_roundtrip(*c['args']),
    'uart_tunnel_changed': lambda c: _check_uart_tunnel(c['mode'], c['a'], c['b'], c['data'], [tuple(x) for x in c['items']]),
    'roundtrip_field_changed': lambda c: _check_roundtrip(*c['args']),
    'unsupported_version_not_rejected': lambda c: _check_version(*c['args']),
    'stream_reassembly_mismatch': lambda c: _check_stream(c['packets'], c['cuts']),
    'router_fifo_violated': lambda c: _check_router(c['packets'], c['cuts'], c['script']),
    'rejected_frame_desyncs_stream': lambda c: _check_router(c['packets'], c['cuts'], c['script']),
    'tunnel_uplink_changed': lambda c: _check_uplink(*c['args']),
    'tunnel_downlink_changed': lambda c: _check_downlink(c['driver'], [tuple(x) for x in c['items']], c['cuts']),
    'decode_encode_inconsistent': lambda c: _check_decode_consistent(*c['args']),
}


def _run_check(cls, case):
    try:
        r = _CHECKS[cls](case)
    except Exception as e:  # noqa  harness or implementation crashed: report as failure of that class
        import traceback
        r = {'observed': 'exception %r' % (e,), 'detail': traceback.format_exc()[-600:]}
    if r is None:
        return None
    r = dict(r)
    r.update({'class': cls, 'case': dict(case, cls=cls)})
    r.setdefault('expected', 'property text')
    r.setdefault('detail', '')
    return r


def _rand_pkts(rng, n, tag=False):
    out = []
    for i in range(n):
        data = _rand_payload(rng)
        if tag:
            data = [i // 256, i % 256] + data
        out.append([rng.choice(TARGETS), rng.choice(TARGETS), rng.choice(FUNCTIONS), rng.randrange(2), data])
    return out


def _bounds(pkts):
    return list(itertools.accumulate([0] + [len(p[4]) + 4 for p in pkts]))[:-1]


def oracle(ctx, deep=False):
    rng = ctx.rng
    fails = []
    n = 0
    seen = set()
    nontriv = set()

    def chk(cls, case):
        nonlocal n
        n += 1
        if cls in seen and (not deep or cls in ('cpx_facade_violated', 'concurrent_writers_tear_frames', 'router_blocks_on_backlog', 'tcp_driver_session_violated', 'crtp_lost_at_connect', 'transaction_loses_queued_packets', 'registered_functions_misrouted')):     # (a failing facade session costs join timeouts)
            return
        f = _run_check(cls, case)
        if f is not None:
            if cls not in seen:
                fails.append(_shrink(f))
            seen.add(cls)

    for c in _corpus():
        if c.get('cls') in _CHECKS:
            chk(c['cls'], c)
    # 1. round trip and version rejection for every attribute combination
    for s in TARGETS:
        for d in TARGETS:
            for f in FUNCTIONS:
                for last in (0, 1):
                    for data in ([], [rng.randrange(256)], _pat(7, 3, rng.choice([2, 30, 255, 256, 1000]))):
                        chk('roundtrip_field_changed', {'args': [s, d, f, last, data]})
                    for ver in (1, 2, 3):
                        chk('unsupported_version_not_rejected', {'args': [s, d, f, last, ver, [1, 2, 3]]})
    chk('roundtrip_field_changed', {'args': [3, 1, 3, 1, _pat(5, 1, 65533)]})
    # 2. header consistency on all byte pairs
    for tf in range(256):
        for fv in range(256):
            chk('decode_encode_inconsistent', {'args': [tf, fv]})
    # 3. re-assembly: exhaustive cuts for short streams, random beyond
    shorts = [[[3, 1, 3, 0, []]] * 3, [[1, 3, 2, 1, [65]], [4, 2, 15, 0, [1, 2]]], [[2, 4, 14, 1, [1, 2, 3, 4, 5, 6, 7, 8]]]]
    for _ in range(ctx.scale(2, 12) * (3 if deep else 1)):
        while True:
            ps = [[rng.choice(TARGETS), rng.choice(TARGETS), rng.choice(FUNCTIONS), rng.randrange(2),
                   [rng.randrange(256) for _ in range(rng.randrange(0, 5))]] for _ in range(rng.randrange(1, 4))]
            if sum(len(p[4]) + 4 for p in ps) <= ctx.scale(12, 14):
                break
        shorts.append(ps)
    for ps in shorts:
        L = sum(len(p[4]) + 4 for p in ps)
        for r in range(L):
            for cuts in itertools.combinations(range(1, L), r):
                chk('stream_reassembly_mismatch', {'packets': ps, 'cuts': list(cuts)})
                nontriv.add(_h([ps, cuts]))
    for _ in range(ctx.scale(1500, 30000) * (4 if deep else 1)):
        ps = _rand_pkts(rng, rng.choice([1, 2, 2, 3, 5, 8]))
        L = sum(len(p[4]) + 4 for p in ps)
        cuts = _rand_cuts(rng, L, _bounds(ps))
        chk('stream_reassembly_mismatch', {'packets': ps, 'cuts': list(cuts)})
        if _inside_header(cuts, _bounds(ps)):
            nontriv.add(_h([ps, cuts]))
    for big in (65533, 40000) if ctx.thorough or deep else (65533,):
        ps = [[3, 1, 5, 0, _pat(3, 1, big)], [1, 3, 5, 1, [1]]]
        chk('stream_reassembly_mismatch', {'packets': ps, 'cuts': sorted(rng.sample(range(1, big), 20)) + [big + 4 + 1]})
    # 3b. connection histories on ONE transport object: stream 1 breaks off at EVERY byte offset of a frame, disconnect(), connect(),
    #     stream 2 (smallest first)
    old_p, new_ps = [1, 3, 3, 0, [0x5E, 1, 2]], [[4, 3, 5, 1, [9]], [1, 3, 3, 0, [7, 7]]]
    for kind in ('tcp', 'uart'):
        hdr = 4 if kind == 'tcp' else 5
        ref = (lambda a: _frame_ref(a[0], a[1], a[2], a[3], 0, a[4])) if kind == 'tcp' else (lambda a: _uart_frame_ref(a[0], a[1], a[2], a[3], 0, a[4]))
        for lead in (0, 1):
            ps1 = [new_ps[1]] * lead + [old_p]
            full = b''.join(ref(a) for a in ps1)
            start = len(full) - len(ref(old_p))
            for off in range(start + 1, len(full)):
                for exck in (('eof', 'reset', 'oserror', 'timeout') if kind == 'tcp' else ('eof',)):
                    s2 = b''.join(ref(a) for a in new_ps)
                    chk('reconnect_splices_old_bytes', {'kind': kind, 'sessions': [
                        {'packets': ps1, 'cut_at': off, 'pieces': [list(full[:off])], 'reads': len(ps1), 'exc': exck},
                        {'packets': new_ps, 'cut_at': len(s2), 'pieces': [list(c) for c in _cut(s2, [1, 3, 6])], 'reads': 3, 'exc': 'eof'}]})
    for _ in range(ctx.scale(300, 5000)):
        chk('reconnect_splices_old_bytes', _conn_case(rng))
    # 4. router FIFO
    for _ in range(ctx.scale(600, 10000) * (3 if deep else 1)):
        ps = _rand_pkts(rng, rng.choice([1, 2, 3, 5, 8, 12]), tag=True)
        if rng.random() < 0.5:       # few functions: queues really fill up
            fs = rng.sample(FUNCTIONS, 2)
            for p in ps:
                p[2] = rng.choice(fs)
        L = sum(len(p[4]) + 4 for p in ps)
        cuts = _rand_cuts(rng, L, _bounds(ps))
        fpool = sorted(set(p[2] for p in ps)) + [rng.choice(FUNCTIONS)]
        script = [-1] * (len(ps) + rng.randrange(2)) + [rng.choice(fpool) for _ in range(rng.randrange(0, 2 * len(ps) + 3))]
        rng.shuffle(script)
        if rng.random() < 0.6:
            script = rng.sample(fpool, rng.randrange(1, len(fpool) + 1)) + script
        script += [rng.choice(fpool) for _ in range(rng.randrange(0, 4))]
        chk('router_fifo_violated', {'packets': ps, 'cuts': list(cuts), 'script': script})
    # 4b. one connection carrying frames the receiver must reject (unsupported version, unknown target / function code;
    #     empty and non-empty payloads) between valid ones: the valid packets are still delivered exactly, in order
    def _reject(p):
        k = rng.randrange(4)
        if k == 0:
            p.append(rng.randrange(1, 4))                    # version
        elif k == 1:
            p[0] = rng.choice([0, 5, 6, 7])
        elif k == 2:
            p[1] = rng.choice([0, 5, 6, 7])
        else:
            p[2] = rng.choice([0, 6, 7, 13, 16, 33, 63])
    chk('rejected_frame_desyncs_stream', {'packets': [[3, 1, 3, 0, [0, 0]], [3, 1, 3, 0, [0, 1, 9], 1], [3, 1, 3, 0, [0, 2]]],
                                          'cuts': [], 'script': [3, -1, -1, -1, 3, 3]})
    for _ in range(ctx.scale(500, 8000) * (3 if deep else 1)):
        ps = _rand_pkts(rng, rng.choice([2, 3, 4, 6, 9]), tag=True)
        fs = rng.sample(FUNCTIONS, rng.choice([1, 2, 3]))
        for p in ps:
            p[2] = rng.choice(fs)
            if rng.random() < 0.5:
                p[4] = p[4][:2] + [rng.randrange(256) for _ in range(rng.choice([0, 0, 1, 2, 4, 9]))]
        for p in rng.sample(ps[:-1], rng.randrange(1, max(2, len(ps) // 2))):
            _reject(p)
        L = sum(len(p[4]) + 4 for p in ps)
        cuts = _rand_cuts(rng, L, _bounds(ps))
        script = list(fs)                                   # queues exist before anything arrives
        body = [-1] * len(ps) + [rng.choice(fs) for _ in range(rng.randrange(0, len(ps) + 2))]
        if rng.random() < 0.5:
            rng.shuffle(body)
        script += body + [f for f in fs for _ in range(len(ps) + 1)][:3 * len(ps)]
        chk('rejected_frame_desyncs_stream', {'packets': ps, 'cuts': list(cuts), 'script': script})
    # 5. tunnel
    for i in range(ctx.scale(300, 5000)):
        kind = ('tcp', 'serial')[i % 2]
        mode = rng.randrange(3)
        a = rng.randrange(256) if mode == 1 else rng.randrange(16)
        data = [rng.randrange(256) for _ in range(rng.choice([0, 1, 2, 15, 29, 30, 31, 64]))]
        chk('tunnel_uplink_changed', {'args': [kind, mode, a, rng.randrange(4), data]})
        items = [[rng.choice(TARGETS), rng.choice(TARGETS), rng.randrange(2), rng.randrange(256),
                  [rng.randrange(256) for _ in range(rng.choice([0, 1, 2, 15, 30, 31, 32, 64]))]] for _ in range(rng.randrange(1, 5))]
        L = sum(len(it[4]) + 5 for it in items)
        bounds = list(itertools.accumulate([0] + [len(it[4]) + 5 for it in items]))[:-1]
        chk('tunnel_downlink_changed', {'driver': kind, 'items': items, 'cuts': list(_rand_cuts(rng, L, bounds))})
    # 5b. sending side: short writes, data assigned after construction; the facade with its thread
    chk('short_send_loses_bytes', {'packets': [[3, 1, 3, 0, []]], 'takes': [3], 'cuts': []})
    chk('stale_length_misframes', {'packet': [3, 1, 3, 0, []], 'new_data': [1], 'cuts': []})
    for _ in range(ctx.scale(200, 3000)):
        ps = _rand_pkts(rng, rng.choice([1, 2, 3]))
        L = sum(len(p[4]) + 4 for p in ps)
        chk('short_send_loses_bytes', {'packets': ps, 'takes': [rng.choice([1, 2, 3, 4, 5, 50]) for _ in range(rng.randrange(1, 5))],
                                       'cuts': list(_rand_cuts(rng, L, _bounds(ps)))})
        a = _rand_pkts(rng, 1)[0]
        nd = _rand_payload(rng)
        chk('stale_length_misframes', {'packet': a, 'new_data': nd, 'cuts': list(_rand_cuts(rng, len(nd) + 9, [0, len(nd) + 4]))})
    chk('cpx_facade_violated', {'packets': [[1, 3, 3, 0, [0, 0]], [1, 3, 3, 1, [0, 1]]], 'cuts': [], 'takes': [], 'sends': [[3, 1, 1, 0, [33, 1]]],
                                'trans': [3, 1, 5, 0, [4]]})
    for _ in range(ctx.scale(60, 1000)):
        ps = _rand_pkts(rng, rng.choice([1, 2, 3, 5]), tag=True)
        fs = rng.sample(FUNCTIONS, 2)
        for p in ps:
            p[2] = rng.choice(fs)
        L = sum(len(p[4]) + 4 for p in ps)
        chk('cpx_facade_violated', {'packets': ps, 'cuts': list(_rand_cuts(rng, L, _bounds(ps))),
                                    'takes': [rng.choice([1, 2, 3, 9]) for _ in range(rng.randrange(0, 4))],
                                    'sends': _rand_pkts(rng, rng.randrange(0, 3)),
                                    'trans': [3, 1, rng.choice([f for f in FUNCTIONS if f not in fs]), 0, [rng.randrange(256)]]})
    for n_big in (99, 150, 98):
        chk('uart_oversize_wedges_link', {'big': n_big, 'then': [5, 2, [1, 2, 3]]})
    # 1b. one packet object encoded several times with attribute assignments in between (smallest first: one field at a time)
    for f_ in ('source', 'destination', 'function', 'version', 'lastPacket', 'data'):
        for kind in ('enc', 'write', 'uwrite'):
            for v in ({'source': [2, 4], 'destination': [2, 4], 'function': [2, 15], 'version': [1, 0], 'lastPacket': [1, 0],
                       'data': [[9], []]}[f_]):
                chk('encode_ignores_field_change', {'build': [3, 1, 5, 0, [1]], 'ops': [[kind], ['set', f_, v], [kind]]})
                chk('encode_ignores_field_change', {'build': [3, 1, 5, 1, [1]], 'ops': [[kind], ['set', f_, v], [kind]]})
    for _ in range(ctx.scale(600, 10000)):
        chk('encode_ignores_field_change', _history_case(rng))
    # 5e. TcpDriver as a whole (own connect(), both threads running)
    chk('tcp_driver_misc', {})
    chk('tcp_driver_session_violated', {'items': [[1, 3, 3, 0, [0x5E, 1, 2]]], 'cuts': [], 'takes': [],
                                        'events': [['P'], ['R', 0], ['S', 5, 2, [7]], ['C']]})
    for _ in range(ctx.scale(40, 700)):
        chk('tcp_driver_session_violated', _driver_case(rng))
    # the router thread is started by CPX() inside connect(): it may read packets before the receive thread exists
    chk('crtp_lost_at_connect', {'items': [[1, 3, 3, 0, [0x5E, 1, 2]]], 'cuts': [], 'takes': [], 'early': 1, 'events': [['R', 0]]})
    for _ in range(ctx.scale(12, 200)):
        dc = _driver_case(rng)
        chk('crtp_lost_at_connect', dict(dc, early=rng.randrange(1, len(dc['items']) + 1)))
    # 5g. CPX(transport, functions): queues registered at construction, for EVERY subset of the functions, mixed with lazy registration
    chk('registered_functions_misrouted', {'functions': [2, 5], 'packets': [[1, 3, 2, 0, [0, 0]]], 'cuts': [], 'events': [['P'], ['R', 5], ['R', 2]]})
    for mask in range(128):
        fsub = [f for k, f in enumerate(FUNCTIONS) if mask >> k & 1]
        order = list(FUNCTIONS)
        rng.shuffle(order)
        ps = [[rng.choice(TARGETS), rng.choice(TARGETS), f, rng.randrange(2), [k, f]] for k, f in enumerate(order + order[:3])]
        lazy = rng.sample(FUNCTIONS, 2)
        evs = [['R', f] for f in lazy] + [['P']] * len(ps) + [['R', f] for f in FUNCTIONS for _ in range(3)]
        chk('registered_functions_misrouted', {'functions': fsub, 'packets': ps, 'cuts': [], 'events': evs})
    for _ in range(ctx.scale(60, 1000)):
        tc = _transaction_case(rng)
        chk('registered_functions_misrouted', dict(tc, functions=rng.sample(FUNCTIONS, rng.randrange(0, 8))))
    # 5f. transactions are receivers of their function: histories mixing arrivals, receivePacket and makeTransaction (smallest first)
    a_, b_, c_ = [1, 3, 5, 0, [0, 0]], [1, 3, 5, 1, [0, 1]], [1, 3, 2, 0, [0, 2]]
    req_ = [3, 1, 5, 0, [200, 1]]
    chk('transaction_loses_queued_packets', {'packets': [a_, b_], 'cuts': [], 'events': [['R', 5], ['P'], ['T', req_, 1], ['R', 5]]})
    chk('transaction_loses_queued_packets', {'packets': [a_, b_], 'cuts': [], 'events': [['R', 5], ['P'], ['P'], ['T', req_, 0], ['R', 5], ['R', 5]]})
    chk('transaction_loses_queued_packets', {'packets': [a_, c_, b_], 'cuts': [3], 'events': [['R', 5], ['R', 2], ['P'], ['P'], ['T', req_, 1], ['R', 2], ['R', 5]]})
    for _ in range(ctx.scale(120, 2000)):
        chk('transaction_loses_queued_packets', _transaction_case(rng))
    # 5d. long unread backlog of one function on one router thread (smallest first)
    for n_b in (0, 10, 49, 50, 51, 52, 64, 100, 128, 200):
        chk('router_blocks_on_backlog', _backlog_case(rng, n_b, simple=True))
    for _ in range(ctx.scale(10, 150)):
        chk('router_blocks_on_backlog', _backlog_case(rng, rng.choice([0, 5, 30, 49, 50, 51, 70, 101, 130, 200])))
    # 5c. several sender threads on one transport; smallest cases first (all schedules of length <= 4 for two one-packet senders)
    two = [[['crtp', 5, 2, [0, 0]]], [['cpx', [3, 4, 5, 0, [1, 0]]]]]
    for piece in (0, 2):
        for n_s in range(0, 5):
            for sc in itertools.product(range(2), repeat=n_s):
                chk('concurrent_writers_tear_frames', {'writers': two, 'piece': piece, 'schedule': list(sc)})
    for _ in range(ctx.scale(250, 4000)):
        ws = []
        for w in range(rng.choice([2, 2, 3])):
            ops = []
            for k in range(rng.randrange(1, 4)):
                body = [w, k] + [rng.randrange(256) for _ in range(rng.choice([0, 1, 3, 8]))]
                ops.append(['crtp', rng.randrange(16), rng.randrange(4), body] if rng.random() < 0.5 else
                           ['cpx', [rng.choice(TARGETS), rng.choice(TARGETS), rng.choice(FUNCTIONS), rng.randrange(2), body]])
            ws.append(ops)
        chk('concurrent_writers_tear_frames', {'writers': ws, 'piece': rng.choice([0, 0, 1, 2, 3, 5]),
                                               'schedule': [rng.randrange(3) for _ in range(rng.randrange(0, 14))]})
    # 6. serial path: UART framing and the tunnel over it (smallest cases first: they become the witness)
    chk('uart_roundtrip_changed', {'args': [3, 1, 3, 0, []]})
    chk('uart_roundtrip_changed', {'args': [4, 2, 15, 1, [255]]})
    chk('uart_tunnel_changed', {'mode': 0, 'a': 5, 'b': 2, 'data': [], 'items': [[1, 3, 0, 0x52, []]]})
    chk('uart_tunnel_changed', {'mode': 0, 'a': 5, 'b': 2, 'data': [7], 'items': [[1, 3, 0, 0x52, [9]], [1, 3, 1, 0xFF, [255, 0]]]})
    for s_ in TARGETS:
        for f_ in FUNCTIONS:
            chk('uart_roundtrip_changed', {'args': [s_, rng.choice(TARGETS), f_, rng.randrange(2),
                                                    [rng.randrange(256) for _ in range(rng.choice([0, 1, 2, 30, 97, 98]))]]})
    for i in range(ctx.scale(200, 3000)):
        mode = rng.randrange(3)
        a = rng.randrange(256) if mode == 1 else rng.randrange(16)
        items = [[rng.choice(TARGETS), rng.choice(TARGETS), rng.randrange(2), rng.randrange(256),
                  [rng.randrange(256) for _ in range(rng.choice([0, 1, 2, 15, 30, 31, 64]))]] for _ in range(rng.randrange(1, 5))]
        chk('uart_tunnel_changed', {'mode': mode, 'a': a, 'b': rng.randrange(4),
                                    'data': [rng.randrange(256) for _ in range(rng.choice([0, 1, 2, 15, 29, 30]))], 'items': items})
    return {'evaluations': n, 'failures': fails, 'distinct_nontrivial': 0,
            'rule': 'property text on the real code: field-wise round trip (all 4x4x7x2 combinations), versions 1..3 rejected, '
                    'all 65 536 header pairs decode consistently, real writePacket bytes == reference wire format and are '
                    're-assembled under every cut set of short streams and random cuts of longer ones (%d distinct stream '
                    'cases), router per-function FIFO, CRTP tunnel both ways through both drivers' % len(nontriv)}


def _shrink_history(f):
    """drop events (and trailing packets) one at a time while the history still fails"""
    cls, case = f['class'], dict(f['case'])
    best, changed, budget = f, True, 200
    while changed and budget > 0:
        changed = False
        cands = []
        evs, ps = case['events'], case['packets']
        for i in range(len(evs)):
            cands.append(dict(case, events=evs[:i] + evs[i + 1:], cuts=[]))
        if len(ps) > 1:
            cands.append(dict(case, packets=ps[:-1], cuts=[]))
        if case.get('cuts'):
            cands.append(dict(case, cuts=[]))
        for i in range(len(case.get('functions') or [])):
            cands.append(dict(case, functions=case['functions'][:i] + case['functions'][i + 1:]))
        for c in cands:
            budget -= 1
            r = _run_check(cls, c)
            if r is not None:
                case, best, changed = dict(r['case']), r, True
                break
    return best


def _shrink(f):
    if f['class'] in ('transaction_loses_queued_packets', 'router_blocks_on_backlog', 'registered_functions_misrouted') and len(f['case'].get('events', [])) < 60:
        return _shrink_history(f)
    """greedy minimisation (fewer packets, shorter payloads, fewer cuts, shorter script)"""
    cls, case = f['class'], dict(f['case'])
    if cls not in ('stream_reassembly_mismatch', 'router_fifo_violated', 'rejected_frame_desyncs_stream', 'tunnel_downlink_changed'):
        return f
    best = f
    changed = True
    budget = 400
    while changed and budget > 0:
        changed = False
        cands = []
        cuts = case['cuts']
        if cls == 'tunnel_downlink_changed':
            items = case['items']
            if cuts:
                cands.append(dict(case, cuts=[]))
            for i in range(len(items)):
                if len(items) > 1:
                    cands.append(dict(case, items=items[:i] + items[i + 1:], cuts=[]))
                if items[i][4]:
                    it = items[i][:4] + [items[i][4][:len(items[i][4]) - 1]]
                    cands.append(dict(case, items=items[:i] + [it] + items[i + 1:], cuts=[]))
        else:
            ps = case['packets']
            if len(ps) > 1:
                for i in range(len(ps)):
                    c = dict(case, packets=ps[:i] + ps[i + 1:], cuts=[])
                    if 'script' in case and -1 in case['script']:
                        sc = list(case['script'])
                        sc.reverse()
                        sc.remove(-1)
                        sc.reverse()
                        c['script'] = sc
                    cands.append(c)
            for i in range(len(cuts)):
                cands.append(dict(case, cuts=cuts[:i] + cuts[i + 1:]))
            for i, p in enumerate(ps):
                keep = 2 if cls != 'stream_reassembly_mismatch' else 0      # router packets carry a 2-byte tag
                if len(p[4]) > keep:
                    q = [p[0], p[1], p[2], p[3], p[4][:max(keep, len(p[4]) // 2)]] + list(p[5:])
                    L = sum(len(x[4]) + 4 for x in ps[:i] + [q] + ps[i + 1:])
                    cands.append(dict(case, packets=ps[:i] + [q] + ps[i + 1:], cuts=[c for c in cuts if c < L]))
            if 'script' in case:
                sc = case['script']
                for i in range(len(sc)):
                    if sc[i] >= 0:
                        cands.append(dict(case, script=sc[:i] + sc[i + 1:]))
        for c in cands:
            budget -= 1
            r = _run_check(cls, c)
            if r is not None:
                case, best, changed = dict(r['case']), r, True
                break
    return best


def replay(payload, ctx):
    c = payload['case']
    cls = c.get('cls') or payload.get('class')
    if cls not in _CHECKS:
        return None
    return _run_check(cls, c)
