"""C20 — link URIs select the right driver and parse to the right radio settings.

Tie (V): RadioDriver.parse_uri, RadioDriver.connect (settings applied to a fake shared radio),
RadioDriver.scan_interface (fake radio answering on scripted channels), every driver's connect (scheme test),
cflib.crtp.get_link_driver and Crazyflie.open_link are run on generated URIs / serial lists / driver lists and
compared with coq/C20/Model.v evaluated by vm_compute on the same inputs.
Oracle: the property text on the real code, computed from the *values* a URI was built from (no model)."""
import binascii
import contextlib
import struct

from core import coqrun

ID = 'C20'
PROPERTY_FILE = 'C20/Property.v'
LEVEL = 'proof'
ALLOWED_AXIOMS = ()
TRUSTED_BASE = [
    'C20/Model.v is hand-written from cflib/crtp/radiodriver.py (parse_uri, connect, scan_interface), the scheme tests '
    'of the six drivers, cflib/crtp/__init__.py (get_link_driver, init_drivers), Crazyflie.open_link and '
    'uri_helper.address_from_env (radio:// URIs); '
    'tied on every run by differential evaluation on generated URIs (well-formed, mutated and foreign-scheme)',
    'CPython 3.12 urllib.parse.urlparse/parse_qs, str.format, int(), binascii.unhexlify and struct.unpack are re-modelled '
    'for printable ASCII (Model.in_scope) and validated by the same differential runs',
    'USB, sockets, serial ports and the radio dongle are replaced by fakes in the harness process (RadioManager.open, '
    'CfUsb, socket, SocketTransport/CPX, SerialDriver.get_devices, crazyradio.get_serials); /repo is not modified',
]
ASSUMPTIONS = [
    'URIs consist of printable ASCII (0x20..0x7E); percent escapes in the query decode to printable ASCII; netloc without a matched [..] pair',
    'USE_CFLINK=cpp (CfLinkCppDriver, needs the native cflinkcpp module, not installed) is not modelled',
    'whether a claimed URI can actually be opened (device present, host reachable) is an environment parameter of the '
    'dispatch theorems; in the correspondence runs it is measured per driver and URI',
]
PROVED = ('parse_uri returns dongle id, channel, data rate, MSB-first 5-byte address and rate limit for every well-formed '
          'radio URI (all dongle numbers below 10^9, serial-number dongles, every channel, the three rates, 1..10 hex '
          'digits in either case zero-padded on the left, omitted trailing fields with defaults channel 2 / 2M / '
          'E7E7E7E7E7, optional rate_limit); every URI produced by scan_interface parses back to the scanned channel, '
          'rate and address and the address given to the radio during the scan is the same; the six scheme tests are '
          'pairwise exclusive, get_link_driver returns the unique claiming driver or None, unknown schemes give None; '
          'open_link never lets an exception escape and calls connection_failed exactly once when there is no link; '
          'uri_helper.address_from_env returns the same address as parse_uri for every well-formed URI; scan_selected '
          'probes every well-formed link on the channel and rate parse_uri returns and its reports parse back to the '
          'probed channel, rate and address; after any history of init_drivers calls an enabled scheme is claimed by '
          'exactly its driver class and the other schemes are unaffected.')
NOT_PROVED = ('CfLinkCppDriver; prrt fields; IPv6 literals in brackets; behaviour on non-ASCII URIs or escapes >= %80; what happens after a driver was '
              'selected (connection setup is C02).')

HEADER = ('From CF Require Import Common.Bytes C20.Model.\nOpen Scope Z_scope.\n'
          'Definition U (s : string) : str := s2l s.\n')

DRIVERS = ['DrvRadio', 'DrvUsb', 'DrvSerial', 'DrvUdp', 'DrvPrrt', 'DrvTcp']
HEX = '0123456789abcdefABCDEF'
RATES = ['250K', '1M', '2M']
PRINTABLE = ''.join(chr(c) for c in range(32, 127))


# ------------------------------------------------------------------------------------------ fakes
class _FakeRadio:
    """Stands for a _SharedRadioInstance."""
    version = 0.5

    def __init__(self, found=None):
        self.calls = []
        self.probes = []
        self.air = []
        self.found = found or {}
        self.rate = None
        self.closed = False

    def set_channel(self, c):
        self.calls.append(['RSetChannel', c])

    def set_data_rate(self, r):
        self.rate = r
        self.calls.append(['RSetDataRate', r])

    def set_address(self, a):
        self.calls.append(['RSetAddress', list(a)])

    def set_arc(self, n):
        self.calls.append(['RSetArc', n])

    def scan_channels(self, start, stop, packet):
        return tuple(self.found.get(self.rate, ()))

    def scan_selected(self, selected, packet):
        # what _SharedRadio + Crazyradio.scan_selected do: every entry is probed on its channel and data rate with
        # the address this radio instance currently has; the entries that are acknowledged come back
        addr = [c[1] for c in self.calls if c[0] == 'RSetAddress'][-1:] or [[0xE7] * 5]
        out = ()
        for sel in selected:
            self.probes.append([sel['channel'], sel['datarate'], list(addr[0])])
            if [sel['channel'], sel['datarate'], list(addr[0])] in self.air:
                out += (sel,)
        return out

    def close(self):
        self.closed = True


class _DummyThread:
    def __init__(self, *a, **k):
        pass

    def start(self):
        pass

    def stop(self):
        pass


class _World:
    """What exists outside the process: dongles (by serial), USB Crazyflies, serial devices, reachable hosts."""

    def __init__(self, serials=('E7E7E7E7E7',), radio_ok=True, usb_ok=True, serial_devs=('ttyUSB0',), net_ok=True):
        self.serials = tuple(serials)
        self.radio_ok = radio_ok
        self.usb_ok = usb_ok
        self.serial_devs = tuple(serial_devs)
        self.net_ok = net_ok
        self.radios = []
        self.fields = {}


@contextlib.contextmanager
def _patched(world):
    import cflib.crtp.radiodriver as rd
    import cflib.crtp.usbdriver as ud
    import cflib.crtp.udpdriver as udp
    import cflib.crtp.tcpdriver as tcp
    import cflib.crtp.serialdriver as ser
    import cflib.drivers.crazyradio as cr
    saved = []

    def put(obj, name, val):
        saved.append((obj, name, obj.__dict__.get(name, _MISSING) if hasattr(obj, '__dict__') else _MISSING))
        setattr(obj, name, val)

    def open_radio(devid):
        if not world.radio_ok or not (0 <= devid < max(1, len(world.serials))):
            raise Exception('Cannot find a Crazyradio Dongle')
        r = _FakeRadio(getattr(world, 'found', None))
        r.devid = devid
        world.radios.append(r)
        return r

    class FakeCfUsb:
        def __init__(self, devid=0):
            world.fields['DrvUsb'] = ['UOk', devid]
            self.dev = object() if world.usb_ok else None

        def set_crtp_to_usb(self, v):
            pass

    class FakeSock:
        def __init__(self, *a, **k):
            pass

        def connect(self, addr):
            world.fields['DrvUdp'] = ['NOk', addr[0], addr[1]]
            if not world.net_ok:
                raise OSError('unreachable')

        def sendto(self, data, addr):
            pass

    class FakeSocketModule:
        AF_INET = 2
        SOCK_DGRAM = 2
        socket = FakeSock

    class FakeTransport:
        def __init__(self, host, port):
            world.fields['DrvTcp'] = ['NOk', host, port]
            if not world.net_ok:
                raise OSError('unreachable')

    class FakeCPX:
        def __init__(self, transport, *a, **k):
            pass

        def close(self):
            pass

        def sendPacket(self, p):
            pass

    put(cr, 'get_serials', lambda: world.serials)
    put(rd.RadioManager, 'open', staticmethod(open_radio))
    put(rd, '_RadioDriverThread', _DummyThread)
    put(ud, 'CfUsb', FakeCfUsb)
    put(ud, '_UsbReceiveThread', _DummyThread)
    put(udp, 'socket', FakeSocketModule)
    put(tcp, 'SocketTransport', FakeTransport)
    put(tcp, 'CPX', FakeCPX)
    put(tcp, '_CPXReceiveThread', _DummyThread)
    put(ser, 'UARTTransport', lambda dev, baud: world.fields.__setitem__('DrvSerial', ['SDev', dev, baud]))
    put(ser, 'CPX', FakeCPX)
    put(ser, '_CPXReceiveThread', _DummyThread)
    put(ser.SerialDriver, 'get_devices', lambda self: {d: '/dev/' + d for d in world.serial_devs})
    try:
        yield
    finally:
        for obj, name, old in reversed(saved):
            if old is _MISSING:
                try:
                    delattr(obj, name)
                except AttributeError:
                    pass
            else:
                setattr(obj, name, old)


_MISSING = object()


def _driver_classes():
    import cflib.crtp as crtp
    return {'DrvRadio': crtp.RadioDriver, 'DrvUsb': crtp.UsbDriver, 'DrvSerial': crtp.SerialDriver,
            'DrvUdp': crtp.UdpDriver, 'DrvPrrt': crtp.PrrtDriver, 'DrvTcp': crtp.TcpDriver}


def _class_list(enable_serial):
    """What init_drivers(enable_serial_driver=...) puts into CLASSES, computed by the real function."""
    import os
    import cflib.crtp as crtp
    old = list(crtp.CLASSES)
    env = os.environ.pop('USE_CFLINK', None)
    try:
        del crtp.CLASSES[:]
        crtp.init_drivers(enable_serial_driver=enable_serial)
        return list(crtp.CLASSES)
    finally:
        crtp.CLASSES[:] = old
        if env is not None:
            os.environ['USE_CFLINK'] = env


# ------------------------------------------------------------------------------------------ implementation runs
def _exn_kind(e):
    from cflib.crtp.exceptions import WrongUriType
    if isinstance(e, WrongUriType):
        return ['PWrong']
    if isinstance(e, struct.error):
        return ['PRaise', 'EStruct']
    if isinstance(e, ValueError):            # int(), binascii.Error, urlparse
        return ['PRaise', 'EValue']
    if type(e) is Exception and str(e).startswith('Cannot find radio with serial'):
        return ['PRaise', 'ENoSerial']
    return ['PRaise', 'unexpected:' + type(e).__name__ + ':' + str(e)[:80]]


def impl_parse(uri, serials):
    from cflib.crtp.radiodriver import RadioDriver
    with _patched(_World(serials=serials)):
        try:
            r = RadioDriver.parse_uri(uri)
        except Exception as e:  # noqa
            return _exn_kind(e)
    devid, ch, rate, addr, lim = r
    ok = (type(devid) is int and type(ch) is int and type(rate) is int and (lim is None or type(lim) is int)
          and all(type(b) is int for b in addr))
    if not ok:
        return ['badtypes', repr(r)]
    return ['POk', devid, ch, rate, list(addr), lim]


def impl_env_address(uri):
    """uri_helper.address_from_env() with CFLIB_URI=uri: ['EnvAddr', n] | ['EnvNone'] | ['EnvRaise', type]."""
    import contextlib as _c
    import io
    import os
    from cflib.utils import uri_helper
    old = os.environ.get('CFLIB_URI')
    os.environ['CFLIB_URI'] = uri
    try:
        with _c.redirect_stderr(io.StringIO()):
            try:
                r = uri_helper.address_from_env()
            except Exception as e:  # noqa
                return ['EnvRaise']
    finally:
        if old is None:
            del os.environ['CFLIB_URI']
        else:
            os.environ['CFLIB_URI'] = old
    if r is None:
        return ['EnvNone']
    if type(r) is int:
        return ['EnvAddr', r]
    return ['badtype', repr(r)]


def impl_connect_calls(uri, serials):
    """RadioDriver().connect on a fake shared radio: (devid opened, calls made on it) or None when it raises."""
    from cflib.crtp.radiodriver import RadioDriver
    w = _World(serials=serials if serials else ('X',) * 4)
    w.serials = tuple(serials)
    w.radio_ok = True
    with _patched(w):
        import cflib.crtp.radiodriver as rd
        rd.RadioManager.open = staticmethod(lambda devid: _open_any(w, devid))
        d = RadioDriver()
        try:
            d.connect(uri, None, None)
        except Exception:  # noqa
            return None
    r = w.radios[-1]
    return [r.devid, r.calls]


def _open_any(w, devid):
    r = _FakeRadio()
    r.devid = devid
    w.radios.append(r)
    return r


def impl_scan(address, found):
    """RadioDriver().scan_interface(address) with a fake radio that answers on found[rate] channels."""
    from cflib.crtp.radiodriver import RadioDriver
    w = _World()
    w.found = found
    with _patched(w):
        d = RadioDriver()
        with contextlib.redirect_stdout(None):
            res = d.scan_interface(address)
    r = w.radios[-1]
    addr_calls = [c[1] for c in r.calls if c[0] == 'RSetAddress']
    return [u for u, _ in res], addr_calls, r.closed


def impl_connect_each(uri, world):
    """For each driver class: 'CWrong' | 'CRaise' | 'COk' of driverClass().connect(uri, None, None)."""
    from cflib.crtp.exceptions import WrongUriType
    out = {}
    for name, cls in _driver_classes().items():
        with _patched(world):
            try:
                cls().connect(uri, None, None)
                out[name] = 'COk'
            except WrongUriType:
                out[name] = 'CWrong'
            except Exception:  # noqa
                out[name] = 'CRaise'
    return out


def impl_get_link_driver(uri, world, classes):
    import cflib.crtp as crtp
    names = {v: k for k, v in _driver_classes().items()}
    old = list(crtp.CLASSES)
    crtp.CLASSES[:] = classes
    try:
        with _patched(world):
            try:
                inst = crtp.get_link_driver(uri, None, None)
            except Exception:  # noqa
                return ['GRaise']
    finally:
        crtp.CLASSES[:] = old
    if inst is None:
        return ['GNone']
    return ['GDriver', names[type(inst)]]


def impl_open_link(uri, world, classes):
    """Real Crazyflie.open_link for URIs that do not lead to a link (a link would start the connection setup,
    which is C02's subject): returns callbacks seen, whether an exception escaped, and cf.link."""
    import logging
    import cflib.crtp as crtp
    from cflib.crazyflie import Crazyflie
    names = {v: k for k, v in _driver_classes().items()}
    old = list(crtp.CLASSES)
    crtp.CLASSES[:] = classes
    cbs = []
    logging.disable(logging.CRITICAL)
    try:
        with _patched(world):
            cf = Crazyflie(rw_cache=None)
            cf.connection_requested.add_callback(lambda u: cbs.append('CbRequested'))
            cf.connection_failed.add_callback(lambda u, m: cbs.append('CbFailed'))
            cf.connected.add_callback(lambda u: cbs.append('CbConnected'))
            cf._start_connection_setup = lambda: cbs.append('setup')
            cf.incoming.start = lambda: None
            cf.incoming.is_alive = lambda: True
            try:
                cf.open_link(uri)
            except BaseException as e:  # noqa
                return ['OEscapes', type(e).__name__]
            link = cf.link
    finally:
        logging.disable(logging.NOTSET)
        crtp.CLASSES[:] = old
    if link is None:
        return ['ONoLink', cbs]
    return ['OLinked', names.get(type(link), '?'), [c for c in cbs if c != 'setup']]


# ------------------------------------------------------------------------------------------ model runs
def _cs(s):
    """Coq term of type str for the text s; long runs of one character are built with `repeat` (long string
    literals are very slow to elaborate)."""
    import re
    parts = []
    pos = 0
    for m in re.finditer(r'(.)\1{63,}', s):
        if m.start() > pos:
            parts.append('U ' + coqrun.coq_string(s[pos:m.start()]))
        parts.append('repeat (%s)%%char (Z.to_nat %d)' % (coqrun.coq_string(m.group(1)), len(m.group(0))))
        pos = m.end()
    if pos < len(s) or not parts:
        parts.append('U ' + coqrun.coq_string(s[pos:]))
    return parts[0] if len(parts) == 1 else '(' + ' ++ '.join(parts) + ')'


def _serials_term(serials):
    return '[' + '; '.join(_cs(s) for s in serials) + ']'


def _norm(v):
    """Parsed Coq value -> the list form used for implementation results."""
    if isinstance(v, tuple):
        if v and v[0] == 'Some':
            return _norm(v[1])
        return [_norm(x) for x in v]
    if isinstance(v, list):
        return [_norm(x) for x in v]
    if isinstance(v, str):
        return [v] if v in ('PWrong', 'GNone', 'OEscapes') else v
    return v


def _env_term(env):
    return '(fun d => match d with ' + ' | '.join('%s => %s' % (d, coqrun.coq_bool(env[d])) for d in DRIVERS) + ' end)'


def _cls_term(names):
    return '[' + '; '.join(names) + ']'


# ------------------------------------------------------------------------------------------ generators
def _rand_case(rng, s):
    return ''.join(c.upper() if rng.random() < 0.5 else c.lower() for c in s)


def _pct(rng, text):
    return ''.join(('%%%02X' % ord(c) if rng.random() < 0.5 else '%%%02x' % ord(c)) if rng.random() < 0.4 else c for c in text)


def gen_wellformed(rng, serials, ch=None):
    """Returns (uri, expected values dict)."""
    k = rng.random()
    if serials and k < 0.25:
        i = rng.randrange(len(serials))
        # the first index of that serial is what index() finds
        dongle, devid = _rand_case(rng, serials[i]), serials.index(serials[i])
    elif k < 0.8:
        devid = rng.choice([0, 0, 0, 1, 2, 3, 7, 10, 15])
        dongle = str(devid)
    else:
        nd = rng.randrange(1, 10)
        dongle = ''.join(rng.choice('0123456789') for _ in range(nd))
        devid = int(dongle)
    form = rng.choice(['none', 'slash', 'ch', 'ch', 'rate', 'rate', 'addr', 'addr', 'addr', 'addr'])
    exp = {'devid': devid, 'channel': 2, 'rate': 2, 'address': 0xE7E7E7E7E7, 'limit': None, 'form': form}
    uri = 'radio://' + dongle
    if form == 'slash':
        uri += '/'
    if form in ('ch', 'rate', 'addr'):
        c = rng.randrange(0, 126) if ch is None else ch
        exp['channel'] = c
        uri += '/%d' % c
    if form in ('rate', 'addr'):
        r = rng.randrange(3)
        exp['rate'] = r
        uri += '/' + RATES[r]
    if form == 'addr':
        n = rng.randrange(1, 11)
        a = ''.join(rng.choice(HEX) for _ in range(n))
        if rng.random() < 0.15:
            a = rng.choice(['E7E7E7E7E7', 'e7e7e7e7e7', '0', 'FFFFFFFFFF', '1', 'E7E7E7E701', '00000000E7', 'aBcDeF'])
        exp['address'] = int(a, 16)
        uri += '/' + a
        if rng.random() < 0.1:
            uri += '/'
    q = rng.random()
    if q < 0.35:
        lim = rng.choice([0, 1, 10, 100, 500, 1000, rng.randrange(0, 10 ** rng.randrange(1, 12))])
        exp['limit'] = lim
        key, val = 'rate_limit', '%d' % lim
        if rng.random() < 0.12:                                   # leading zeros (long numeric field)
            val = '0' * rng.choice([1, 3, 40]) + val
        if rng.random() < 0.15:                                   # percent escapes that decode to the same text
            key = _pct(rng, key)
        if rng.random() < 0.15:
            val = _pct(rng, val) if len(val) < 50 else val
        opts = [key + '=' + val]
        if rng.random() < 0.3:
            opts.insert(rng.randrange(2), rng.choice(['safelink=1', 'autoping=0', 'ackfilter=1', 'foo=bar', 'x=', 'flag', 'a=b=c',
                                                      'rate%5Flimi=7', 'RATE_LIMIT=9', 'rate_limit', '%72=1', 'a%20b=c+d', '=5']))
        if rng.random() < 0.1:
            opts.append('rate_limit=%d' % rng.randrange(1000))      # the first one wins
        uri += '?' + '&'.join(opts)
    elif q < 0.42:
        uri += '?' + rng.choice(['safelink=1', 'foo=bar&baz=1', '', 'rate_limit=', 'ratelimit=5'])
    if rng.random() < 0.05:
        uri += '#' + rng.choice(['', 'frag', '/1/2', '?rate_limit=3'])
    return uri, exp


def mutate(rng, uri):
    if len(uri) < 9:
        return uri + rng.choice(PRINTABLE)
    k = rng.randrange(9)
    if k == 0 and len(uri) > 1:
        i = rng.randrange(len(uri))
        return uri[:i] + uri[i + 1:]
    if k == 1:
        i = rng.randrange(len(uri) + 1)
        return uri[:i] + rng.choice(PRINTABLE) + uri[i:]
    if k == 2:
        i = rng.randrange(len(uri))
        return uri[:i] + rng.choice(PRINTABLE) + uri[i + 1:]
    if k == 3:
        i = rng.randrange(8, len(uri) + 1)
        return uri[:i] + rng.choice(['/', '//', '?', '#', '&', '=', '_', ' ', '+', '-', '0', 'g', '[', ']', ';', ':', '@']) + uri[i:]
    if k == 4:
        parts = uri.split('/')
        i = rng.randrange(len(parts))
        parts[i] = rng.choice(['', ' ', '1_0', '+7', '-3', ' 12 ', '1__0', '_1', '1_', '0x10', '3M', '250k', '2m',
                               'E7E7E7E7E7E7', 'E7E7E7E7E7E', 'E7E7E7E7G7', '00000000000', '12345678901',
                               '0123456789', '١', '1.0', '1e3', '++1', '+', '-', ' + 1'])
        return '/'.join(parts)
    if k == 5:
        return uri + rng.choice(['/', '//', '/x', '?', '?rate_limit=x', '?rate_limit=1_0', '?rate_limit=+4', '?rate_limit= 5',
                                 '&rate_limit=9', '?rate+limit=1', '?rate_limit=1&rate_limit=x', '#', ' ', '?=5', '?rate_limit=-2', '?rate_limit=%31%30', '?rate_limit=%zz',
                                 '?rate_limit=%2B7', '?rate_limit=1%20', '?rate%5flimit=3', '?rate_limit=%', '?rate_limit=1%', '?%3D=1',
                                 '&&', '?&rate_limit=2&', '?rate_limit=2;x=1'])
    if k == 6:
        return rng.choice(['Radio', 'RADIO', 'radio:', 'radio:/', ' radio://', 'radios://', 'adio://', '']) + uri[8:]
    if k == 7:
        i = rng.randrange(len(uri))
        j = rng.randrange(i, len(uri))
        return uri[:i] + uri[j:]
    return uri[:8] + rng.choice(['', ' ', 'abc', 'E7E7E7E7E7', 'e7e7e7e7e7', '0123456789', '012345678', '00', 'a b', '[', ']', '0]', 'x:1', 'u@h', '-1']) \
        + (uri[8:][uri[8:].find('/'):] if '/' in uri[8:] else '')


OTHER_URIS = [
    'usb://0', 'usb://1', 'usb://12', 'usb://', 'usb://a', 'usb://0/', 'usb://0 ', 'usb:/0', 'USB://0', 'usb://-1', 'usb://0?x=1',
    'serial://ttyUSB0', 'serial://ttyACM1', 'serial://', 'serial://tty USB0', 'serial://dev/ttyUSB0', 'serial://COM3', 'serial://tty$',
    'tcp://aideck.local:5000', 'tcp://192.168.4.1:5000', 'tcp://', 'tcp://host', 'tcp://host:port', 'tcp://h:1 extra', 'tcp:/h:1',
    'udp://127.0.0.1:7777', 'udp://localhost:1', 'udp://', 'udp://host', 'udp://h:99999999', 'udp:/x',
    'prrt://10.0.0.1:5000', 'prrt://10.0.0.1:5000/100', 'prrt://', 'prrt://host:1', 'prrt://1.2.3.4',
    'debug://0/0', 'bluetooth://x', 'http://example.com', 'ftp://x', '', 'radio', 'radio:/0/80', '://', 'usb', 'unknown://0/80/2M',
    'xradio://0/80', 'radio//0', 'rad', 'tcp', 'udp:', 'serial:/x', ' usb://0', 'radio://0/80/2M', 'radio://0', 'radio://9/1/1M/AB',
]


def gen_other(rng):
    u = rng.choice(OTHER_URIS)
    r = rng.random()
    if r < 0.3:
        return mutate(rng, u) if len(u) > 8 else u + rng.choice(PRINTABLE)
    if r < 0.4:
        return ''.join(rng.choice('abcdrstu') for _ in range(rng.randrange(1, 7))) + '://' + \
            ''.join(rng.choice('0123456789abc/:.') for _ in range(rng.randrange(0, 9)))
    return u


def gen_serials(rng):
    k = rng.random()
    if k < 0.15:
        return []
    pool = ['E7E7E7E7E7', 'ABCDEF0123', '0123456789', 'CR2-00A1', 'DEADBEEF99', '9999999999', 'E7E7E7E7E7', 'X1']
    return [rng.choice(pool) for _ in range(rng.randrange(1, 4))]



# ------------------------------------------------------------------------------------------ the other drivers' parsers
def impl_driver_fields(uri, serial_devs=('ttyUSB0', 'ttyACM1', 'dev/ttyS0', 'COM3')):
    """For usb/serial/udp/tcp: what the driver's connect() extracts from the URI, seen at the fake device layer:
    'wrong' (WrongUriType) | ['raise', type] (before anything was opened) | the recorded fields."""
    from cflib.crtp.exceptions import WrongUriType
    out = {}
    for name, cls in _driver_classes().items():
        if name in ('DrvRadio', 'DrvPrrt'):
            continue
        w = _World(serial_devs=serial_devs)
        with _patched(w):
            try:
                cls().connect(uri, None, None)
                res = w.fields.get(name, ['ok-no-fields'])
            except WrongUriType:
                res = 'wrong'
            except Exception as e:  # noqa
                res = w.fields.get(name) or ['raise', 'ValueError' if isinstance(e, ValueError) else 'Exception:' + str(e)[:40]]
        out[name] = res
    return out


HOSTS = ['aideck.local', '192.168.4.1', 'localhost', 'AI-Deck.Local', 'h', 'a.b-c.d', 'EXAMPLE.com', '10.0.0.1', 'cf2', 'x_y']


def gen_driver_uri(rng):
    """Grammar based: mostly well-formed URIs of usb/serial/tcp/udp, then a malformed stream."""
    sch = rng.choice(['usb', 'serial', 'tcp', 'udp'])
    k = rng.random()
    if sch == 'usb':
        body = str(rng.choice([0, 1, 2, 7, 10, rng.randrange(10 ** rng.randrange(1, 12))]))
        if k < 0.15:
            body = '0' * rng.randrange(1, 4) + body
        bad = ['', 'a', '-1', '+1', '1 ', ' 1', '1/', '1_0', '0x1', '1?x=1', '1#f', '１']
    elif sch == 'serial':
        body = rng.choice(['ttyUSB0', 'ttyACM1', 'dev/ttyS0', 'COM3', 'tty.usbserial-A1', 'cu.x', 'nosuchdev', 'a-b/c.d', 'TTYusb0'])
        bad = ['', 'tty USB0', 'tty$', 'tty_1', 'a:b', 'x?y', 'x#y', 'x y', 'ü', 'a\\b']
    else:
        host = rng.choice(HOSTS)
        port = rng.choice([0, 1, 80, 5000, 7777, 65535, rng.randrange(65536)])
        body = '%s:%d' % (host, port)
        r = rng.random()
        if r < 0.1:
            body = host
        elif r < 0.2:
            body = 'user@' + body
        elif r < 0.3:
            body += rng.choice(['/', '/path', '?q=1', '#f', '/a?b#c'])
        elif r < 0.35:
            body = body + ' trailing words'
        bad = ['', ':', ':80', 'h:', 'h:port', 'h:65536', 'h:99999', 'h:-1', 'h:8 0', 'h: 80', 'h:80:90', 'a@b@h:1', 'h:' + '0' * 4301,
               'H%ZONE:1', '[::1', '::1]', 'h:+1', 'h:1_0', 'h:１', 'a:b@h:7', 'h :1', '@:1', 'h:000080']
    if k > 0.72:
        body = rng.choice(bad)
    uri = sch + '://' + body
    if rng.random() < 0.06:
        uri = mutate(rng, uri)
    if rng.random() < 0.03:
        uri = rng.choice([sch.upper(), sch.capitalize(), ' ' + sch, sch + 's']) + '://' + body
    return uri


HEADER_D = HEADER + '''Inductive nshow := NWrongS | NRaiseS | NOkS (h : option string) (p : option Z).
Definition nsh (r : nres) := match r with NWrong => NWrongS | NRaise => NRaiseS | NOk h p => NOkS (option_map l2s h) p end.
Inductive sshow := SWrongS | SInvalidS | SNameS (s : string).
Definition ssh (r : sres) := match r with SWrong => SWrongS | SInvalid => SInvalidS | SName n => SNameS (l2s n) end.
'''


def _driver_fields_term(u):
    return ('(net_in_scope (%s), usb_parse (%s), ssh (serial_parse (%s)), nsh (net_parse DrvUdp (%s)), nsh (net_parse DrvTcp (%s)), '
            'map (fun d => claims d (%s)) [DrvUsb; DrvSerial; DrvUdp; DrvTcp])' % ((_cs(u),) * 6))


def _model_fields(mv, serial_devs):
    """Model results in the vocabulary of impl_driver_fields."""
    usb, ser, udp, tcp = (_norm(x) for x in mv[1:5])

    def strz(x):
        return None if x is None else x
    out = {}
    out['DrvUsb'] = 'wrong' if usb == 'UWrong' else (['raise', 'ValueError'] if usb == 'URaise' else ['UOk', usb[1]])
    if ser == 'SWrongS':
        out['DrvSerial'] = 'wrong'
    elif ser == 'SInvalidS':
        out['DrvSerial'] = ['raise', 'Exception:Invalid serial URI']
    else:
        name = ser[1]
        out['DrvSerial'] = ['SDev', '/dev/' + name, 576000] if name in serial_devs else ['raise', 'Exception:Could not identify device']
    for key, v in (('DrvUdp', udp), ('DrvTcp', tcp)):
        if v == 'NWrongS':
            out[key] = 'wrong'
        elif v == 'NRaiseS':
            out[key] = ['raise', 'ValueError']
        else:
            out[key] = ['NOk', v[1], v[2]]
    return out



# ------------------------------------------------------------------------------------------ scan_selected
def impl_scan_selected(conn_uri, links, air):
    """A RadioDriver connected to conn_uri (fake shared radio) is asked to probe `links`; Crazyflies answer on the
    (channel, rate, address) triples in `air`.  Returns ['ok', reported uris, probes] or ['raise', type]."""
    from cflib.crtp.radiodriver import RadioDriver
    w = _World()
    with _patched(w):
        import cflib.crtp.radiodriver as rd
        rd.RadioManager.open = staticmethod(lambda devid: _open_any(w, devid))
        d = RadioDriver()
        try:
            d.connect(conn_uri, None, None)
        except Exception as e:  # noqa
            return ['raise-connect', type(e).__name__ + ':' + str(e)[:60]]
        w.radios[-1].air = [list(a[:2]) + [list(a[2])] for a in air]
        try:
            res = d.scan_selected(list(links))
        except Exception as e:  # noqa
            return ['raise', type(e).__name__]
    return ['ok', list(res), w.radios[-1].probes]


def gen_scan_selected(rng):
    """Links over the three rates / omitted rate / with address / odd ones, an air with Crazyflies on some of the
    probed (channel, rate) pairs plus decoys on the same channel at another rate or another address."""
    conn_addr = rng.choice([0xE7E7E7E7E7] * 3 + [0xE7E7E7E701, rng.randrange(1 << 40)])
    conn = 'radio://%d/%d/%s' % (rng.choice([0, 0, 1]), rng.randrange(126), rng.choice(RATES))
    if conn_addr != 0xE7E7E7E7E7 or rng.random() < 0.3:
        conn += '/%010X' % conn_addr
    links, want = [], []
    for _ in range(rng.randrange(0, 6)):
        ch = rng.randrange(126)
        r = rng.randrange(3)
        k = rng.random()
        if k < 0.55:
            link, rate = 'radio://0/%d/%s' % (ch, RATES[r]), r
        elif k < 0.7:
            link, rate = 'radio://0/%d' % ch, 2
        elif k < 0.85:
            link, rate = 'radio://%d/%d/%s/%s' % (rng.choice([0, 3]), ch, RATES[r], rng.choice(['E7E7E7E7E7', 'E7E7E7E701', 'e7'])), r
        else:
            link, rate = 'radio://0/%d/%s%s' % (ch, RATES[r], rng.choice(['?rate_limit=5', '/', 'x', '#f'])), r
        links.append(link)
        want.append((ch, rate))
    bad = rng.random()
    if bad < 0.08:
        links.insert(rng.randrange(len(links) + 1), rng.choice(['radio://0', 'radio://0/', 'usb://0', 'radio://x/1/2M', '', 'radio://0/1_0/2M',
                                                                 'radio://0/ 5/1M', 'radio://0/80/3M', 'radio://0/80/250k', 'radio://0/80/250']))
    addr = list(conn_addr.to_bytes(5, 'big'))
    air = []
    for (ch, rate) in want:
        k = rng.random()
        if k < 0.5:
            air.append([ch, rate, addr])
        if rng.random() < 0.5:
            air.append([ch, (rate + rng.randrange(1, 3)) % 3, addr])            # decoy: same channel, other rate
        if rng.random() < 0.2:
            air.append([ch, rate, [1, 2, 3, 4, 5]])                             # decoy: other address
    return {'fn': 'scan_selected', 'conn': conn, 'links': links, 'air': air}


def _scan_selected_term(c):
    air = '[' + '; '.join('(%d, %d, %s)' % (a[0], a[1], coqrun.zlist(a[2])) for a in c['air']) + ']'
    links = '[' + '; '.join(_cs(l) for l in c['links']) + ']'
    return ('(forallb in_scope %s, match parse_uri [] (%s) with POk _ _ _ a _ => '
            'option_map (map l2s) (scan_selected %s a %s) | _ => None end, scan_selected_settings %s)' % (
                links, _cs(c['conn']), air, links, links))


def _check_scan_selected(c):
    """Property text: the URIs reported are exactly the selected links' (channel, rate) on which a Crazyflie answers
    at the address that was probed, and each parses back to that channel and rate."""
    conn = impl_parse(c['conn'], [])
    if conn[0] != 'POk':
        return {'class': 'wellformed_uri_raises', 'case': {'fn': 'parse_uri', 'uri': c['conn'], 'serials': []},
                'expected': 'POk', 'observed': conn, 'detail': 'the link the driver is connected to is a well-formed radio URI'}
    addr = conn[4]
    want_pairs = []
    import re
    for l in c['links']:
        m = re.match(r'^radio://[0-9]+/([0-9]+)(?:/(250K|1M|2M))?', l)
        if not m:
            return None                                   # a link scan_selected cannot read: nothing to judge
        want_pairs.append([int(m.group(1)), {'250K': 0, '1M': 1, '2M': 2, None: 2}[m.group(2)]])
    got = impl_scan_selected(c['conn'], c['links'], c['air'])
    answering = [p for p in want_pairs if [p[0], p[1], addr] in c['air']]
    if got[0] != 'ok':
        return {'class': 'scan_selected_raises', 'case': c, 'expected': answering, 'observed': got}
    back = [impl_parse(u, []) for u in got[1]]
    back_pairs = [[b[2], b[3]] if b[0] == 'POk' else b for b in back]
    if back_pairs != answering:
        return {'class': 'scan_selected_wrong_rate_or_channel', 'case': c, 'expected': answering, 'observed': [got[1], back_pairs],
                'detail': 'URIs reported by scanning must parse back to the scanned channel and rate, one per answering selected link'}
    if [p[:2] for p in got[2]] != want_pairs:
        return {'class': 'scan_selected_wrong_rate_or_channel', 'case': c, 'expected': want_pairs, 'observed': got[2],
                'detail': 'every selected link is probed on its own channel and data rate (250K is data rate 0)'}
    if any(b[0] == 'POk' and b[4] != addr for b in back):
        return {'class': 'scan_selected_uri_without_probed_address', 'case': c, 'expected': addr,
                'observed': [got[1], [b[4] for b in back if b[0] == 'POk']],
                'detail': 'the probes used the address of the connected link, the reported URIs parse back to the default address'}
    return None



# ------------------------------------------------------------------------------------------ histories of init_drivers calls
HISTORIES = [
    [{'serial': False}], [{'serial': True}],
    [{'serial': False}, {'serial': True}], [{'serial': True}, {'serial': False}],
    [{'serial': False}, {'serial': False}], [{'serial': True}, {'serial': True}],
    [{'serial': False}, {'serial': False}, {'serial': True}], [{'serial': False}, {'serial': True}, {'serial': False}],
    [{'serial': True}, {'serial': False}, {'serial': False}],
    [{'serial': False, 'debug': True}, {'serial': True, 'debug': True}],
    [{'serial': False, 'env': 'python'}, {'serial': True, 'env': 'python'}],
    [{'serial': False, 'debug': True, 'env': ''}],
]


def _class_history(calls):
    """CLASSES after the given sequence of real init_drivers calls on the module-level list (emptied once, before
    the first call — the state of a fresh process)."""
    import logging
    import os
    import warnings
    import cflib.crtp as crtp
    old = list(crtp.CLASSES)
    env0 = os.environ.pop('USE_CFLINK', None)
    logging.disable(logging.CRITICAL)
    try:
        del crtp.CLASSES[:]
        for c in calls:
            if c.get('env') is not None:
                os.environ['USE_CFLINK'] = c['env']
            else:
                os.environ.pop('USE_CFLINK', None)
            with warnings.catch_warnings():
                warnings.simplefilter('ignore')
                crtp.init_drivers(enable_debug_driver=bool(c.get('debug')), enable_serial_driver=bool(c.get('serial')))
        return list(crtp.CLASSES)
    finally:
        logging.disable(logging.NOTSET)
        crtp.CLASSES[:] = old
        os.environ.pop('USE_CFLINK', None)
        if env0 is not None:
            os.environ['USE_CFLINK'] = env0


def gen_history_case(rng, i):
    calls = HISTORIES[i] if i < len(HISTORIES) else \
        [{'serial': rng.random() < 0.4, 'debug': rng.random() < 0.2} for _ in range(rng.randrange(1, 5))]
    drv = rng.choice(list(SCHEME_SAMPLES)) if i >= 2 * len(HISTORIES) else \
        ['DrvSerial', 'DrvRadio', 'DrvUsb', 'DrvTcp', 'DrvUdp', 'DrvPrrt'][(i // len(HISTORIES)) % 6] if i >= len(HISTORIES) else 'DrvSerial'
    uri = rng.choice(SCHEME_SAMPLES[drv] + (UNKNOWN[:4] if rng.random() < 0.1 else []))
    return {'fn': 'init_history', 'calls': calls, 'uri': uri}


def _history_observe(c):
    names = {v: k for k, v in _driver_classes().items()}
    world = _World(serial_devs=('ttyUSB0', 'ttyACM1'))
    lst = _class_history(c['calls'])
    each = impl_connect_each(c['uri'], world)
    present = []
    for cl in lst:
        n = names.get(cl, cl.__name__)
        if n not in present:
            present.append(n)
    claim = [d for d in present if each.get(d, 'CWrong') != 'CWrong']
    return {'classes': [names.get(cl, cl.__name__) for cl in lst], 'each': each, 'claimants': claim,
            'gld': impl_get_link_driver(c['uri'], world, lst), 'open': impl_open_link(c['uri'], world, lst), 'world': world}


def _history_term(c, env):
    calls = '[' + '; '.join(coqrun.coq_bool(bool(x.get('serial'))) for x in c['calls']) + ']'
    st = _serials_term(['E7E7E7E7E7'])
    return '(in_scope (%s), init_history %s, claimants (init_history %s) (%s), get_link_driver %s %s (init_history %s) (%s), open_link %s %s (init_history %s) (%s))' % (
        _cs(c['uri']), calls, calls, _cs(c['uri']), st, _env_term(env), calls, _cs(c['uri']), st, _env_term(env), calls, _cs(c['uri']))


def _check_history(c, ob=None):
    """Property text over driver lists built by any sequence of init_drivers calls: each scheme whose driver was
    enabled is claimed by exactly that one driver class, the optional one by none when it was never enabled."""
    ob = ob or _history_observe(c)
    exp = None
    for d, us in SCHEME_SAMPLES.items():
        if c['uri'] in us:
            exp = d
    enabled = exp is not None and (exp != 'DrvSerial' or any(x.get('serial') for x in c['calls']))
    case = {k: c[k] for k in ('fn', 'calls', 'uri')}
    if enabled and not ob['claimants']:
        return {'class': 'enabled_scheme_has_no_driver', 'case': case, 'expected': [exp], 'observed': {'claimants': [], 'CLASSES': ob['classes']},
                'detail': 'a scheme whose driver was enabled by an init_drivers call must be claimed by that driver'}
    if len(ob['claimants']) > 1 or (enabled and ob['claimants'] != [exp]) or (not enabled and ob['claimants']):
        return {'class': 'scheme_claimed_by_wrong_or_two_classes', 'case': case, 'expected': [exp] if enabled else [],
                'observed': {'claimants': ob['claimants'], 'CLASSES': ob['classes']}}
    ok = enabled and ob['each'][exp] == 'COk'
    want_g = ['GDriver', exp] if ok else (['GNone'] if not enabled else None)
    if want_g is not None and ob['gld'] != want_g:
        return {'class': 'history_wrong_driver', 'case': case, 'expected': want_g, 'observed': ob['gld']}
    want_o = ['OLinked', exp, ['CbRequested']] if ok else ['ONoLink', ['CbRequested', 'CbFailed']]
    if ob['open'] != want_o:
        return {'class': 'open_link_exception_escapes' if ob['open'][0] == 'OEscapes' else 'history_open_link_wrong', 'case': case,
                'expected': want_o, 'observed': ob['open']}
    return None



# ------------------------------------------------------------------------------------------ histories of open_link calls on one Crazyflie
OPEN_URIS = {
    'KUnclaimed': ['bogus://0/80/2M', 'usb://zero', 'radio:/0/80', '', 'debug://0', 'RADIO://0/80/2M', 'serial://ttyUSB0'],
    'KDriverRaises': ['radio://0/x/2M', 'radio://0/80/2M/E7E7E7E7E7E7', 'radio://nosuchserial/1', 'tcp://h:99999', 'radio://0/80?rate_limit=fast'],
    'KGood': ['radio://0/80/2M', 'radio://0/10/250K/E7E7E7E701', 'usb://0'],
}


def gen_open_history(rng, i=99):
    fixed = [[('KUnclaimed', 0), ('KUnclaimed', 1)], [('KUnclaimed', 1), ('KDriverRaises', 0)], [('KUnclaimed', 2), ('KGood', 0)],
             [('KDriverRaises', 0), ('KUnclaimed', 0)], [('KGood', 0), ('KUnclaimed', 0), ('KDriverRaises', 1)]]
    if i < len(fixed):
        steps = [[k, OPEN_URIS[k][j], k == 'KGood'] for k, j in fixed[i]]
    else:
        steps = []
        for _ in range(rng.randrange(2, 5)):
            k = rng.choice(['KUnclaimed', 'KUnclaimed', 'KDriverRaises', 'KGood'])
            steps.append([k, rng.choice(OPEN_URIS[k]), k == 'KGood' and rng.random() < 0.8])
    return {'fn': 'open_history', 'steps': steps}


def impl_open_history(c):
    """2-4 open_link calls on ONE Crazyflie object (close_link after a call where asked); per call: the callbacks fired
    during the call and whether an exception escaped."""
    import logging
    import cflib.crtp as crtp
    from cflib.crazyflie import Crazyflie
    world = _World()
    old = list(crtp.CLASSES)
    crtp.CLASSES[:] = _class_list(False)
    cbs = []
    out = []
    logging.disable(logging.CRITICAL)
    try:
        with _patched(world):
            cf = Crazyflie(rw_cache=None)
            cf.connection_requested.add_callback(lambda u: cbs.append('CbRequested'))
            cf.connection_failed.add_callback(lambda u, m: cbs.append('CbFailed'))
            cf._start_connection_setup = lambda: None
            cf.incoming.start = lambda: None
            cf.incoming.is_alive = lambda: True
            for kind, uri, close in c['steps']:
                del cbs[:]
                try:
                    cf.open_link(uri)
                    esc = None
                except BaseException as e:  # noqa
                    esc = type(e).__name__
                out.append({'cbs': list(cbs), 'escaped': esc, 'linked': cf.link is not None})
                if close:
                    try:
                        cf.commander.send_setpoint = lambda *a, **k: None
                        cf.close_link()
                    except Exception as e:  # noqa
                        out[-1]['close_error'] = type(e).__name__
    finally:
        logging.disable(logging.NOTSET)
        crtp.CLASSES[:] = old
    return out


def _open_history_term(c):
    return 'open_history open_step CDisconnected [%s]' % '; '.join('(%s, %s)' % (k, coqrun.coq_bool(cl)) for k, _, cl in c['steps'])


def _check_open_history(c, ob=None):
    """Property text, per call of a history on one Crazyflie object: a URI that no driver claims, or that its driver
    cannot parse, yields connection_requested + exactly one connection_failed and no escaping exception."""
    ob = ob or impl_open_history(c)
    for i, ((kind, uri, close), r) in enumerate(zip(c['steps'], ob)):
        if r['escaped']:
            return {'class': 'open_link_exception_escapes', 'case': c, 'expected': {'call': i, 'cbs': ['CbRequested', 'CbFailed']}, 'observed': r}
        if kind != 'KGood' and r['cbs'] != ['CbRequested', 'CbFailed']:
            return {'class': 'bad_uri_not_notified_after_earlier_open', 'case': c,
                    'expected': {'call': i, 'uri': uri, 'cbs': ['CbRequested', 'CbFailed']}, 'observed': {'call': i, 'cbs': r['cbs']},
                    'detail': 'every open_link with an unknown scheme / malformed URI must notify connection_failed, whatever '
                              'was opened on this Crazyflie object before'}
        if kind == 'KGood' and (r['cbs'] != ['CbRequested'] or not r['linked']):
            return {'class': 'good_uri_not_opened_after_earlier_open', 'case': c, 'expected': {'call': i, 'cbs': ['CbRequested'], 'linked': True},
                    'observed': {'call': i, 'cbs': r['cbs'], 'linked': r['linked']}}
    return None


# ------------------------------------------------------------------------------------------ tie
def _in_scope_py(uri):
    return all(32 <= ord(c) <= 126 for c in uri)


def tie(ctx):
    rng = ctx.rng
    dis = []
    dist = {'parse_wellformed': 0, 'parse_mutated': 0, 'parse_other_scheme': 0, 'out_of_scope_skipped': 0,
            'result_kinds': {}, 'connect_calls': 0, 'scan': 0, 'dispatch': 0, 'open_link': 0}
    seen = set()
    samples = []

    # ---- 1. parse_uri
    cases = []
    for c in _corpus_cases():
        if c.get('fn') == 'parse_uri':
            cases.append((c['uri'], list(c.get('serials', [])), 'corpus'))
    for u in ('radio://0/80?rate_limit=' + '1' * 4301, 'radio://0/80?rate_limit=' + '0' * 4299 + '7', 'radio://0/' + '0' * 4298 + '80/2M',
              'radio://0/' + '0' * 4299 + '80/2M', 'radio://0/0_' + '0' * 4298 + '5/2M', 'radio://0/80?rate_limit=%30' + '0' * 4298 + '9',
              'radio://0/80?rate_limit=%30' + '0' * 4299 + '9'):
        cases.append((u, [], 'parse_wellformed'))
    n_wf = ctx.scale(900, 12000)
    for i in range(n_wf):
        serials = gen_serials(rng)
        uri, _ = gen_wellformed(rng, serials, ch=(i % 126) if i < 504 else None)
        cases.append((uri, serials, 'parse_wellformed'))
    for i in range(ctx.scale(1500, 24000)):
        serials = gen_serials(rng)
        uri, _ = gen_wellformed(rng, serials)
        for _ in range(rng.randrange(1, 3)):
            uri = mutate(rng, uri)
        cases.append((uri, serials, 'parse_mutated'))
    for i in range(ctx.scale(200, 2000)):
        cases.append((gen_other(rng), gen_serials(rng), 'parse_other_scheme'))
    cases = [c for c in cases if _in_scope_py(c[0]) or dist.__setitem__('out_of_scope_skipped', dist['out_of_scope_skipped'] + 1)]
    terms = ['(in_scope (%s), parse_uri %s (%s))' % (_cs(u), _serials_term(s), _cs(u)) for u, s, _ in cases]
    model = coqrun.eval_terms(HEADER, terms, tag='c20p', shard=250)
    nontriv = 0
    for (u, s, kind), mv in zip(cases, model):
        scope, mres = mv[0], _norm(mv[1])
        if not scope:
            dist['out_of_scope_skipped'] += 1
            continue
        got = impl_parse(u, s)
        dist[kind] = dist.get(kind, 0) + 1
        rk = got[0] if got[0] != 'PRaise' else got[1]
        dist['result_kinds'][rk] = dist['result_kinds'].get(rk, 0) + 1
        key = (u, tuple(s))
        if key not in seen:
            seen.add(key)
            if got[0] != 'PWrong':
                nontriv += 1
        if got != mres:
            if len(dis) < 12:
                dis.append({'what': 'parse_uri: model and implementation differ', 'uri': u, 'serials': s,
                            'model': mres, 'impl': got})
        elif len(samples) < 3 and got[0] == 'POk' and got[5] is not None:
            samples.append({'uri': u, 'serials': s, 'impl': got})

    # ---- 1b. uri_helper.address_from_env on the same URIs (radio:// ones; the model covers that grammar)
    ecases = [u for u, _, _ in cases if u.startswith('radio://')]
    ecases = list(dict.fromkeys(ecases))[:ctx.scale(1200, 12000)]
    emodel = coqrun.eval_terms(HEADER, ['(in_scope (%s), address_from_env (%s))' % (_cs(u), _cs(u)) for u in ecases],
                               tag='c20e', shard=250)
    dist['env_address'] = 0
    for u, mv in zip(ecases, emodel):
        if not mv[0]:
            continue
        got = impl_env_address(u)
        m = _norm(mv[1])
        m = m if isinstance(m, list) else [m]
        dist['env_address'] += 1
        if got != m:
            if len(dis) < 14:
                dis.append({'what': 'address_from_env: model and implementation differ', 'uri': u, 'model': m, 'impl': got})
        elif got[0] == 'EnvAddr' and got[1] != 0xE7E7E7E7E7:
            nontriv += 1

    # ---- 2. RadioDriver.connect applies exactly the parsed settings to the shared radio
    ccases = []
    for i in range(ctx.scale(150, 1500)):
        serials = gen_serials(rng)
        uri, _ = gen_wellformed(rng, serials)
        if rng.random() < 0.2:
            uri = mutate(rng, uri)
        if _in_scope_py(uri):
            ccases.append((uri, serials))
    terms = ['(in_scope (%s), radio_connect_calls %s (%s))' % (_cs(u), _serials_term(s), _cs(u)) for u, s in ccases]
    model = coqrun.eval_terms(HEADER, terms, tag='c20c', shard=100)
    for (u, s), mv in zip(ccases, model):
        if not mv[0]:
            continue
        got = impl_connect_calls(u, s)
        m = _norm(mv[1])
        dist['connect_calls'] += 1
        if got != m:
            if len(dis) < 16:
                dis.append({'what': 'RadioDriver.connect: settings applied to the radio differ', 'uri': u, 'serials': s,
                            'model': m, 'impl': got})
        elif got is not None:
            nontriv += 1

    # ---- 3. scan_interface
    scases = []
    for i in range(ctx.scale(120, 1500)):
        k = rng.random()
        if k < 0.2:
            addr = None
        elif k < 0.3:
            addr = 0xE7E7E7E7E7
        elif k < 0.4:
            addr = rng.choice([0, 1, 0xFF, 0xE7E7E7E701, 0xFFFFFFFFFF, 0x0100000000, 0xE7])
        else:
            addr = rng.randrange(0, 1 << rng.choice([4, 8, 12, 20, 32, 36, 40, 40, 40]))
        found = {r: sorted(rng.sample(range(126), rng.randrange(0, 4))) for r in range(3)}
        if i < 42:
            found = {r: [3 * i + r] for r in range(3)}        # every channel once
        scases.append((addr, found))
    terms = ['(scan_interface %s %s %s %s, scan_radio_address %s)' % (
        _opt(a), coqrun.zlist(f[0]), coqrun.zlist(f[1]), coqrun.zlist(f[2]), _opt(a)) for a, f in scases]
    terms = ['(map l2s (fst x), snd x)'.replace('x', '(' + t + ')') for t in terms]
    model = coqrun.eval_terms(HEADER, terms, tag='c20s', shard=60)
    for (a, f), mv in zip(scases, model):
        uris, addr_calls, closed = impl_scan(a, f)
        m_uris = list(mv[0])
        m_addr = _norm(mv[1])
        m_calls = [] if m_addr is None else ([m_addr[1]] if m_addr[0] == 'AOk' else ['raise'])
        dist['scan'] += 1
        if uris != m_uris or addr_calls != m_calls:
            if len(dis) < 20:
                dis.append({'what': 'scan_interface: reported URIs / radio address differ', 'address': a, 'found': f,
                            'model': [m_uris, m_calls], 'impl': [uris, addr_calls]})
        elif uris:
            nontriv += 1

    # ---- 4. scheme tests, get_link_driver, open_link
    dcases = []
    for i in range(ctx.scale(260, 2600)):
        if i < len(OTHER_URIS):
            uri = OTHER_URIS[i]
        elif rng.random() < 0.3:
            uri, _ = gen_wellformed(rng, ['E7E7E7E7E7'])
            if rng.random() < 0.3:
                uri = mutate(rng, uri)
        else:
            uri = gen_other(rng)
        if not _in_scope_py(uri):
            continue
        world = _World(serials=['E7E7E7E7E7'] if rng.random() < 0.85 else [], radio_ok=rng.random() < 0.8,
                       usb_ok=rng.random() < 0.7, net_ok=rng.random() < 0.7,
                       serial_devs=('ttyUSB0', 'ttyACM1') if rng.random() < 0.7 else ())
        dcases.append((uri, world, rng.random() < 0.5))
    each = [impl_connect_each(u, w) for u, w, _ in dcases]
    envs = [{d: e[d] == 'COk' for d in DRIVERS} for e in each]
    lists = {False: _class_list(False), True: _class_list(True)}
    names = {v: k for k, v in _driver_classes().items()}
    terms = []
    for (u, w, es), env in zip(dcases, envs):
        st = _serials_term(list(w.serials))
        terms.append('(in_scope (%s), map (fun d => claims d (%s)) %s, map (fun d => connect %s %s d (%s)) %s, '
                     'get_link_driver %s %s (classes %s) (%s), open_link %s %s (classes %s) (%s), classes %s)' % (
                         _cs(u), _cs(u), _cls_term(DRIVERS), st, _env_term(env), _cs(u), _cls_term(DRIVERS),
                         st, _env_term(env), coqrun.coq_bool(es), _cs(u),
                         st, _env_term(env), coqrun.coq_bool(es), _cs(u), coqrun.coq_bool(es)))
    model = coqrun.eval_terms(HEADER, terms, tag='c20d', shard=60)
    for (u, w, es), e, mv in zip(dcases, each, model):
        if not mv[0]:
            dist['out_of_scope_skipped'] += 1
            continue
        dist['dispatch'] += 1
        m_claims = list(mv[1])
        m_conn = [_norm(x) for x in mv[2]]
        i_claims = [e[d] != 'CWrong' for d in DRIVERS]
        i_conn = [e[d] for d in DRIVERS]
        m_classes = list(mv[5])
        i_classes = [names[c] for c in lists[es]]
        g = impl_get_link_driver(u, w, lists[es])
        mg = _norm(mv[3])
        mg = mg if isinstance(mg, list) else [mg]
        bad = None
        if m_classes != i_classes:
            bad = ('init_drivers: driver list differs', m_classes, i_classes)
        elif m_claims != i_claims or m_conn != i_conn:
            bad = ('driver scheme tests / connect outcome differ', [m_claims, m_conn], [i_claims, i_conn])
        elif g != mg:
            bad = ('get_link_driver differs', mg, g)
        else:
            mo = _norm(mv[4])
            mo = mo if isinstance(mo, list) else [mo]
            o = impl_open_link(u, w, lists[es])
            dist['open_link'] += 1
            if o != mo:
                bad = ('open_link differs', mo, o)
        if bad:
            if len(dis) < 26:
                dis.append({'what': bad[0], 'uri': u, 'enable_serial': es, 'world': _world_json(w), 'model': bad[1], 'impl': bad[2]})
        elif sum(i_claims) == 1:
            nontriv += 1
    # ---- 5. the other drivers' URI parsers (grammar based generator: mostly well-formed, then a malformed stream)
    fcases = list(dict.fromkeys(
        ['usb://' + '0' * 4299 + '7', 'usb://' + '1' * 4301, 'tcp://h:' + '0' * 4295 + '65535', 'udp://h:' + '0' * 4296 + '65535',
         'tcp://H.Example:80 udp://x:1', 'udp://a@b:c@Host:7/x?y#z'] +
        [u for u in (gen_driver_uri(rng) for _ in range(ctx.scale(700, 9000))) if _in_scope_py(u)]))
    devs = ('ttyUSB0', 'ttyACM1', 'dev/ttyS0', 'COM3')
    fmodel = coqrun.eval_terms(HEADER_D, [_driver_fields_term(u) for u in fcases], tag='c20f', shard=120)
    dist['driver_fields'] = 0
    dist['driver_field_kinds'] = {}
    for u, mv in zip(fcases, fmodel):
        if not mv[0]:
            dist['out_of_scope_skipped'] += 1
            continue
        want = _model_fields(mv, devs)
        got = impl_driver_fields(u, devs)
        dist['driver_fields'] += 1
        for d, v in want.items():
            k = d + ':' + (v if isinstance(v, str) else v[0])
            dist['driver_field_kinds'][k] = dist['driver_field_kinds'].get(k, 0) + 1
        m_claims = dict(zip(['DrvUsb', 'DrvSerial', 'DrvUdp', 'DrvTcp'], mv[5]))
        if want != got or any((want[d] != 'wrong') != m_claims[d] for d in want):
            if len(dis) < 30:
                dis.append({'what': 'driver URI parser: fields seen by the device layer differ', 'uri': u, 'model': want, 'impl': got})
        elif any(isinstance(v, list) and v[0] in ('UOk', 'NOk', 'SDev') for v in got.values()):
            nontriv += 1
    # ---- 6. scan_selected on a connected RadioDriver (fake air with Crazyflies and decoys)
    scases = [c for c in _corpus_cases() if c.get('fn') == 'scan_selected'] + [gen_scan_selected(rng) for _ in range(ctx.scale(300, 4000))]
    smodel = coqrun.eval_terms(HEADER, [_scan_selected_term(c) for c in scases], tag='c20g', shard=100)
    dist['scan_selected'] = 0
    dist['scan_selected_kinds'] = {'reports': 0, 'raises': 0, '250K_links': 0, 'non_default_address': 0}
    for c, mv in zip(scases, smodel):
        if not mv[0]:
            dist['out_of_scope_skipped'] += 1
            continue
        got = impl_scan_selected(c['conn'], c['links'], c['air'])
        mm, ms = _norm(mv[1]), _norm(mv[2])
        want = ['raise'] if mm is None else ['ok', list(mm), [list(x) for x in ms]]
        g = [got[0]] if got[0] != 'ok' else ['ok', got[1], [p[:2] for p in got[2]]]
        dist['scan_selected'] += 1
        k = dist['scan_selected_kinds']
        k['raises' if g[0] == 'raise' else 'reports'] += 1 if g[0] == 'raise' else len(g[1])
        k['250K_links'] += sum(1 for l in c['links'] if '250K' in l)
        k['non_default_address'] += 1 if c['conn'].count('/') >= 5 and not c['conn'].upper().endswith('E7E7E7E7E7') else 0
        if want != g:
            if len(dis) < 34:
                dis.append({'what': 'scan_selected: probes / reported URIs differ', 'case': c, 'model': want, 'impl': g})
        elif g[0] == 'ok' and g[1]:
            nontriv += 1
    # ---- 7. histories of init_drivers calls on the module-level list
    hcases = [c for c in _corpus_cases() if c.get('fn') == 'init_history'] + [gen_history_case(rng, i) for i in range(ctx.scale(120, 1500))]
    hobs = [_history_observe(c) for c in hcases]
    hmodel = coqrun.eval_terms(HEADER, [_history_term(c, {d: o['each'][d] == 'COk' for d in DRIVERS}) for c, o in zip(hcases, hobs)],
                               tag='c20h', shard=60)
    dist['init_history'] = 0
    dist['init_history_lengths'] = {}
    for c, o, mv in zip(hcases, hobs, hmodel):
        if not mv[0]:
            continue
        dist['init_history'] += 1
        dist['init_history_lengths'][len(c['calls'])] = dist['init_history_lengths'].get(len(c['calls']), 0) + 1
        mg, mo = _norm(mv[3]), _norm(mv[4])
        want = [list(mv[1]), list(mv[2]), mg if isinstance(mg, list) else [mg], mo if isinstance(mo, list) else [mo]]
        got = [o['classes'], o['claimants'], o['gld'], o['open']]
        if want != got:
            if len(dis) < 40:
                dis.append({'what': 'init_drivers history: CLASSES / claimants / get_link_driver / open_link differ',
                            'case': {k: c[k] for k in ('fn', 'calls', 'uri')}, 'model': want, 'impl': got})
        elif len(c['calls']) >= 2:
            nontriv += 1
    # ---- 8. histories of open_link calls on one Crazyflie object
    ocases = [c for c in _corpus_cases() if c.get('fn') == 'open_history'] + [gen_open_history(rng, i) for i in range(ctx.scale(150, 2000))]
    omodel = coqrun.eval_terms(HEADER, [_open_history_term(c) for c in ocases], tag='c20o', shard=100)
    dist['open_history'] = 0
    for c, mv in zip(ocases, omodel):
        ob = impl_open_history(c)
        dist['open_history'] += 1
        want = [list(x) for x in mv]
        got = [r['cbs'] if not r['escaped'] else ['escaped', r['escaped']] for r in ob]
        if want != got:
            if len(dis) < 44:
                dis.append({'what': 'open_link history on one Crazyflie: callbacks per call differ', 'case': c, 'model': want, 'impl': got})
        else:
            nontriv += 1
    return {
        'evaluations': sum(dist[k] for k in ('open_history', 'init_history', 'scan_selected', 'driver_fields', 'parse_wellformed', 'parse_mutated', 'parse_other_scheme', 'env_address', 'connect_calls', 'scan', 'dispatch')),
        'distinct_nontrivial': nontriv,
        'rule': 'parse_uri on well-formed URIs (every channel 0..125, 3 rates, 1..10 hex digits in random case, numeric and '
                'serial-number dongles with random serial lists, omitted suffixes, query options), 1-2 random edits of '
                'such URIs, and foreign schemes; RadioDriver.connect on a fake shared radio; scan_interface with a fake '
                'radio; per-driver connect + get_link_driver + open_link with and without the serial driver in random '
                'environments.  Non-trivial = distinct (uri, serials) not rejected as WrongUriType / a scan that found '
                'something / a URI claimed by exactly one driver',
        'samples': samples,
        'distribution': dist,
        'exhaustive': False,
        'disagreements': dis,
    }


def _opt(a):
    return 'None' if a is None else '(Some %s)' % coqrun.z(a)


def _world_json(w):
    return {'serials': list(w.serials), 'radio_ok': w.radio_ok, 'usb_ok': w.usb_ok, 'net_ok': w.net_ok,
            'serial_devs': list(w.serial_devs)}


def _corpus_cases():
    import glob
    import json
    import os
    out = []
    for p in sorted(glob.glob(os.path.join(coqrun.VERIF, 'corpus', 'C20', '*.json'))):
        try:
            out.append(json.load(open(p))['case'])
        except Exception:  # noqa
            pass
    return out


# ------------------------------------------------------------------------------------------ oracle
def _check_wellformed(uri, serials, exp):
    """The property text for one well-formed URI: parse_uri returns exactly the values it was built from."""
    got = impl_parse(uri, serials)
    want = ['POk', exp['devid'], exp['channel'], exp['rate'], list(exp['address'].to_bytes(5, 'big')), exp['limit']]
    if got == ['PRaise', 'EValue'] and exp.get('form') in ('none', 'slash'):
        return {'class': 'radio_uri_without_channel_raises',
                'case': {'fn': 'parse_uri', 'uri': uri, 'serials': serials, 'expect': exp}, 'expected': want, 'observed': got,
                'detail': 'a radio URI with the channel omitted must parse with channel 2, 2M, E7E7E7E7E7'}
    if got == want:
        env = impl_env_address(uri)
        if env != ['EnvAddr', exp['address']]:
            return {'class': 'env_address_differs_from_uri_address',
                    'case': {'fn': 'parse_uri', 'uri': uri, 'serials': serials, 'expect': exp},
                    'expected': ['EnvAddr', exp['address']], 'observed': env,
                    'detail': 'uri_helper.address_from_env must return the address the URI names (default when omitted, '
                              'also with query options)'}
        return None
    cls = 'wellformed_uri_raises' if got[0] != 'POk' else (
        'wrong_address' if got[4] != want[4] else 'wrong_channel' if got[2] != want[2] else
        'wrong_rate' if got[3] != want[3] else 'wrong_dongle' if got[1] != want[1] else 'wrong_rate_limit')
    return {'class': cls, 'case': {'fn': 'parse_uri', 'uri': uri, 'serials': serials, 'expect': exp},
            'expected': want, 'observed': got, 'detail': 'parse_uri must return the values the URI names'}


def _check_scan(addr, found):
    uris, addr_calls, closed = impl_scan(addr, found)
    want_addr = 0xE7E7E7E7E7 if addr is None else addr
    exp = []
    for r in range(3):
        for c in found[r]:
            exp.append(['POk', 0, c, r, list(want_addr.to_bytes(5, 'big')), None])
    got = [impl_parse(u, ['X']) for u in uris]
    case = {'fn': 'scan', 'address': addr, 'found': {str(k): v for k, v in found.items()}}
    if got != exp:
        return {'class': 'scan_uri_does_not_parse_back', 'case': case, 'expected': exp, 'observed': [uris, got],
                'detail': 'URIs reported by scan_interface must parse back to the scanned channel, rate, address'}
    if addr is not None and addr_calls != [list(addr.to_bytes(5, 'big'))]:
        return {'class': 'scan_address_wrong', 'case': case, 'expected': list(addr.to_bytes(5, 'big')), 'observed': addr_calls}
    return None


SCHEME_SAMPLES = {
    'DrvRadio': ['radio://0/80/2M', 'radio://0/80/2M/E7E7E7E7E7', 'radio://1/1/250K/1?rate_limit=10'],
    'DrvUsb': ['usb://0', 'usb://3'],
    'DrvSerial': ['serial://ttyUSB0', 'serial://ttyACM1'],
    'DrvUdp': ['udp://127.0.0.1:7777'],
    'DrvPrrt': ['prrt://10.0.0.1:5000', 'prrt://10.0.0.1:5000/100'],
    'DrvTcp': ['tcp://aideck.local:5000', 'tcp://192.168.4.1:5000'],
}
UNKNOWN = ['debug://0/0', 'bluetooth://x', 'http://example.com/', '', 'radio', 'radio:/0/80', 'xradio://0/80', 'usb://', 'usb://x',
           'Usb://0', 'RADIO://0/80/2M', 'cpx://h:1', 'tcp:/h', 'serial', 'foo']
MALFORMED = ['radio://0/x/2M', 'radio://0/80/2M/E7E7E7E7E7E7', 'radio://0/80/2M/GG', 'radio://nosuchserial/80/2M',
             'radio://0/80?rate_limit=fast', 'radio://[/80', 'serial://tty$', 'serial://', 'prrt://host:1', 'tcp://h:notaport',
             'radio://0/8 0', 'radio://0//2M']


def _check_dispatch(uri, es, world, expect):
    """expect: driver name that must be the one and only claimant, or None."""
    each = impl_connect_each(uri, world)
    claim = [d for d in DRIVERS if each[d] != 'CWrong']
    case = {'fn': 'dispatch', 'uri': uri, 'enable_serial': es, 'world': _world_json(world)}
    if expect is not None and claim != [expect]:
        return {'class': 'scheme_not_claimed_by_exactly_one_driver', 'case': case, 'expected': [expect], 'observed': claim}
    if expect is None and claim:
        return {'class': 'unknown_scheme_claimed', 'case': case, 'expected': [], 'observed': claim}
    lst = _class_list(es)
    names = {v: k for k, v in _driver_classes().items()}
    g = impl_get_link_driver(uri, world, lst)
    avail = expect is not None and expect in [names[c] for c in lst]
    if not avail and g != ['GNone']:
        return {'class': 'driver_for_unclaimed_uri', 'case': case, 'expected': ['GNone'], 'observed': g}
    if avail and each[expect] == 'COk' and g != ['GDriver', expect]:
        return {'class': 'wrong_driver_selected', 'case': case, 'expected': ['GDriver', expect], 'observed': g}
    o = impl_open_link(uri, world, lst)
    if o[0] == 'OEscapes':
        return {'class': 'open_link_exception_escapes', 'case': case, 'expected': 'connection_failed', 'observed': o}
    if not (avail and each[expect] == 'COk'):
        if o != ['ONoLink', ['CbRequested', 'CbFailed']]:
            return {'class': 'open_link_no_single_connection_failed', 'case': case,
                    'expected': ['ONoLink', ['CbRequested', 'CbFailed']], 'observed': o}
    elif o != ['OLinked', expect, ['CbRequested']]:
        return {'class': 'open_link_wrong_link', 'case': case, 'expected': ['OLinked', expect, ['CbRequested']], 'observed': o}
    return None



MALFORMED_CLASSES = {
    'usb_not_a_number': ['usb://', 'usb://a', 'usb://-1', 'usb://+1', 'usb://1_0', 'usb://0x1', 'usb://1.0'],
    'usb_trailing_text': ['usb://0/', 'usb://0 ', 'usb:// 0', 'usb://0?x=1', 'usb://0#f', 'usb://0/80/2M'],
    'usb_too_long_number': ['usb://' + '1' * 4301],
    'serial_bad_name': ['serial://', 'serial://tty USB0', 'serial://tty$', 'serial://tty_1', 'serial://a:b', 'serial://x?y'],
    'serial_unknown_device': ['serial://nosuchdev', 'serial://TTYusb0'],
    'net_port_not_a_number': ['tcp://h:port', 'udp://h:port', 'tcp://h:8x', 'udp://h: 80', 'tcp://h:+1', 'udp://h:1_0', 'tcp://h:80:90'],
    'net_port_out_of_range': ['tcp://h:65536', 'udp://h:99999', 'tcp://h:' + '0' * 4300 + '1'],
    'net_unmatched_bracket': ['tcp://[::1:80', 'udp://::1]:80'],
    'scheme_case_or_space': ['RADIO://0/80/2M', 'Radio://0/80', 'USB://0', 'Tcp://h:1', ' radio://0/80', ' usb://0', 'radio ://0', 'radio:/0/80', 'radio//0'],
    'radio_bad_field': ['radio://0/x/2M', 'radio://0/80/2M/E7E7E7E7E7E7', 'radio://0/80/2M/GG', 'radio://nosuchserial/80/2M',
                        'radio://0/80?rate_limit=fast', 'radio://[/80', 'radio://0/8 0', 'radio://0//2M', 'radio://0/80?rate_limit=%zz',
                        'radio://0/80?rate_limit=1%', 'radio://0/80?rate_limit=' + '1' * 4301, 'radio://0/' + '7' * 4301,
                        'radio://0/80?rate%5Flimit=x', 'radio://0/80?a=1&rate_limit=&rate_limit=z'],
}


def _check_other_wellformed(rng):
    """usb / serial / tcp / udp URIs built from values: the device layer must see exactly those values."""
    devs = ('ttyUSB0', 'ttyACM1', 'dev/ttyS0', 'COM3')
    k = rng.randrange(4)
    if k == 0:
        n = rng.choice([0, 1, 2, 9, 10, rng.randrange(10 ** rng.randrange(1, 15))])
        z = rng.choice(['', '', '0', '000'])
        uri, drv, want = 'usb://%s%d' % (z, n), 'DrvUsb', ['UOk', n]
    elif k == 1:
        name = rng.choice(devs)
        uri, drv, want = 'serial://' + name, 'DrvSerial', ['SDev', '/dev/' + name, 576000]
    else:
        host = rng.choice(HOSTS)
        port = rng.choice([0, 1, 80, 5000, 65535, rng.randrange(65536)])
        sch, drv = ('tcp', 'DrvTcp') if k == 2 else ('udp', 'DrvUdp')
        uri = '%s://%s:%d' % (sch, host, port)
        if rng.random() < 0.3:
            uri += rng.choice(['/', '/x/y', '?a=b', '#f'])
        want = ['NOk', host.lower(), port]
    got = impl_driver_fields(uri, devs)
    exp = {d: 'wrong' for d in got}
    exp[drv] = want
    if got != exp:
        return {'class': 'driver_uri_fields_wrong', 'case': {'fn': 'driver_fields', 'uri': uri, 'driver': drv, 'want': want},
                'expected': exp, 'observed': got, 'detail': 'every well-formed URI parses to exactly its fields, in its own driver only'}
    return None


def _check_malformed(cls, uri, es=True):
    """A malformed URI: no driver link, exactly one connection_failed from open_link, no exception."""
    world = _World(serial_devs=('ttyUSB0', 'ttyACM1', 'dev/ttyS0', 'COM3'))
    o = impl_open_link(uri, world, _class_list(es))
    if o != ['ONoLink', ['CbRequested', 'CbFailed']]:
        return {'class': 'open_link_exception_escapes' if o[0] == 'OEscapes' else 'malformed_accepted_' + cls,
                'case': {'fn': 'malformed', 'cls': cls, 'uri': uri, 'enable_serial': es},
                'expected': ['ONoLink', ['CbRequested', 'CbFailed']], 'observed': o,
                'detail': 'a malformed URI must yield no driver and one connection_failed, never an escaping exception or a link'}
    return None


def oracle(ctx, deep=False):
    import random
    rng = random.Random(ctx.seed * 7919 + 13)
    fails = []
    n = 0

    def add(f):
        if f and sum(1 for x in fails if x['class'] == f['class']) < 3:
            fails.append(f)

    for c in _corpus_cases():
        f = replay({'case': c}, ctx)
        n += 1
        if f:
            f.setdefault('case', c)
            add(f)
    # every channel 0..125 x every rate x address forms (none, full, short, lower case), built from the values
    for ch in range(126):
        for r in range(3):
            for a in (None, 'E7E7E7E7E7', '1', 'e7e7e7e701'):
                uri = 'radio://0/%d/%s' % (ch, RATES[r]) + ('' if a is None else '/' + a)
                n += 1
                f = _check_wellformed(uri, [], {'devid': 0, 'channel': ch, 'rate': r, 'address': 0xE7E7E7E7E7 if a is None else int(a, 16),
                                                'limit': None, 'form': 'rate' if a is None else 'addr'})
                if f:
                    f['class'] = 'channel_in_0_125_not_parsed' if f['observed'][0] != 'POk' else f['class']
                    add(f)
    for ch in (0, 1, 124, 125):
        for addr in (None, 0xE7E7E7E701):
            n += 1
            add(_check_scan(addr, {0: [ch], 1: [ch], 2: [ch]}))
    # well-formed URIs: every channel x every omitted-suffix form, then random
    for i in range(ctx.scale(1500, 20000) * (3 if deep else 1)):
        serials = gen_serials(rng)
        uri, exp = gen_wellformed(rng, serials, ch=(i % 126) if i < 630 else None)
        n += 1
        add(_check_wellformed(uri, serials, exp))
    for i in range(ctx.scale(150, 2000)):
        addr = rng.choice([None, 0xE7E7E7E7E7, 0, 1, 0xE7E7E7E701, rng.randrange(1 << 40), rng.randrange(1 << 40),
                           rng.randrange(1 << rng.randrange(1, 41))])
        found = {r: sorted(rng.sample(range(126), rng.randrange(0, 5))) for r in range(3)}
        if i < 42:
            found = {r: [3 * i + r] for r in range(3)}
        n += 1
        add(_check_scan(addr, found))
    for i in range(ctx.scale(150, 2000)):
        n += 1
        add(_check_open_history(gen_open_history(rng, i)))
    for i in range(ctx.scale(150, 2000)):
        n += 1
        add(_check_history(gen_history_case(rng, i)))
    for c in [c for c in _corpus_cases() if c.get('fn') == 'scan_selected'] + \
            [gen_scan_selected(rng) for _ in range(ctx.scale(300, 4000) * (3 if deep else 1))]:
        n += 1
        add(_check_scan_selected(c))
    for _ in range(ctx.scale(300, 4000)):
        n += 1
        add(_check_other_wellformed(rng))
    for cls, us in MALFORMED_CLASSES.items():
        for u in us:
            for es in (False, True):
                n += 1
                add(_check_malformed(cls, u, es))
    for es in (False, True):
        for k in range(ctx.scale(2, 12)):
            world = _World(radio_ok=rng.random() < 0.7, usb_ok=rng.random() < 0.7, net_ok=rng.random() < 0.7,
                           serial_devs=('ttyUSB0', 'ttyACM1') if rng.random() < 0.7 else ())
            if k == 0:
                world = _World(serial_devs=('ttyUSB0', 'ttyACM1'))
            for d, uris in SCHEME_SAMPLES.items():
                for u in uris:
                    n += 1
                    add(_check_dispatch(u, es, world, d))
            for u in UNKNOWN:
                n += 1
                add(_check_dispatch(u, es, world, None))
            for u in MALFORMED:
                n += 1
                o = impl_open_link(u, world, _class_list(es))
                if o != ['ONoLink', ['CbRequested', 'CbFailed']]:
                    add({'class': 'open_link_exception_escapes' if o[0] == 'OEscapes' else 'malformed_uri_not_refused',
                         'case': {'fn': 'open_link', 'uri': u, 'enable_serial': es, 'world': _world_json(world)},
                         'expected': ['ONoLink', ['CbRequested', 'CbFailed']], 'observed': o})
            for _ in range(ctx.scale(20, 200)):
                uri, _e = gen_wellformed(rng, ['E7E7E7E7E7'])
                u = mutate(rng, mutate(rng, uri))
                n += 1
                o = impl_open_link(u, world, _class_list(es))
                if o[0] == 'OEscapes' or (o[0] == 'ONoLink' and o[1] != ['CbRequested', 'CbFailed']):
                    add({'class': 'open_link_exception_escapes' if o[0] == 'OEscapes' else 'open_link_no_single_connection_failed',
                         'case': {'fn': 'open_link', 'uri': u, 'enable_serial': es, 'world': _world_json(world)},
                         'expected': 'no exception; connection_failed once if no link', 'observed': o})
    return {'evaluations': n, 'failures': fails,
            'rule': 'parse_uri(uri built from values) == those values (address int.to_bytes(5,"big")); scan results parse back; '
                    'one claimant per known scheme, none for unknown; open_link never raises and reports connection_failed once'}


def replay(payload, ctx):
    c = payload['case']
    fn = c.get('fn')
    if fn == 'parse_uri':
        if 'expect' in c:
            return _check_wellformed(c['uri'], c.get('serials', []), c['expect'])
        return None
    if fn == 'open_history':
        return _check_open_history(c)
    if fn == 'init_history':
        return _check_history(c)
    if fn == 'scan_selected':
        return _check_scan_selected(c)
    if fn == 'malformed':
        return _check_malformed(c['cls'], c['uri'], c.get('enable_serial', True))
    if fn == 'driver_fields':
        got = impl_driver_fields(c['uri'])
        exp = {d: 'wrong' for d in got}
        exp[c['driver']] = c['want']
        return None if got == exp else {'class': 'driver_uri_fields_wrong', 'expected': exp, 'observed': got}
    if fn == 'scan':
        return _check_scan(c['address'], {int(k): v for k, v in c['found'].items()})
    w = c.get('world', {})
    world = _World(serials=w.get('serials', ('E7E7E7E7E7',)), radio_ok=w.get('radio_ok', True), usb_ok=w.get('usb_ok', True),
                   serial_devs=w.get('serial_devs', ('ttyUSB0',)), net_ok=w.get('net_ok', True))
    if fn == 'dispatch':
        exp = None
        for d, us in SCHEME_SAMPLES.items():
            if c['uri'] in us:
                exp = d
        return _check_dispatch(c['uri'], c.get('enable_serial', False), world, exp)
    if fn == 'open_link':
        o = impl_open_link(c['uri'], world, _class_list(c.get('enable_serial', False)))
        if o[0] == 'OEscapes' or (o[0] == 'ONoLink' and o[1] != ['CbRequested', 'CbFailed']):
            return {'class': 'open_link_exception_escapes', 'expected': 'no exception', 'observed': o}
    return None
