"""C02 adapter: run a real Crazyflie (+ SyncCrazyflie) against the scripted fake device under DetSched and
record what the application observes.  One run = (device config, user script, schedule seed)."""
import detsched
from fakes import c02_device as dev

CALLERS = ['connection_requested', 'connection_failed', 'link_established', 'connected', 'fully_connected',
           'disconnected', 'connection_lost', 'disconnected_link_error']

IDLE_OK = (('ParamUpdater', 'Queue.get'),)     # parameter thread idle on its request queue: normal


def lock_edges(locklog):
    """nested acquisitions observed in a run: sorted list of [held lock, wanted lock] pairs (lock = module that
    created it).  Locks that are released by another thread than the one that acquired them are used as signals
    (the parameter updater's wait_lock) and are left out."""
    locklog = [(th, op, site.split(':')[0]) for th, op, site in locklog]
    owner = {}
    signal = set()
    for th, op, site in locklog:
        if op == 'got':
            owner[site] = th
        elif op == 'rel':
            if owner.get(site) not in (None, th):
                signal.add(site)
            owner[site] = None
    locklog = [x for x in locklog if x[2] not in signal]
    held = {}
    edges = set()
    for th, op, site in locklog:
        h = held.setdefault(th, [])
        if op == 'want':
            for x in h:
                if x != site:
                    edges.add((x, site))
                else:
                    edges.add((x, site))          # re-acquiring a non-reentrant lock it already holds
        elif op == 'got':
            h.append(site)
        elif op == 'rel':
            if site in h:
                h.remove(site)
            else:
                for other in held.values():      # released by another thread than the one that took it
                    if site in other:
                        other.remove(site)
                        break
    return sorted([list(e) for e in edges])


def run_case(case):
    """case = {'cfg': {...Config kwargs}, 'script': [[op, arg?], ...], 'seed': int, 'choices': optional list}
    ops: open, close, sync_open, sync_close, wait_packets k, sleep dt, reconnect (sync_open on a fault-free device,
    wait for fully connected, sync_close)."""
    cfgkw = dict(case.get('cfg', {}))
    S = detsched.install(case.get('seed', 0), case.get('choices'), horizon=case.get('horizon', 200.0),
                         line_yield=case.get('line_yield', ()))
    log = []          # merged, in order: ['cb', name, thread, attempt] callbacks seen by the application and
                      # ['ev', name, thread] entries into the library's transition functions / user calls
    res = []
    attempt = [0]
    fired = {}
    restore = []
    try:
        dev.install(dev.Config(**cfgkw))
        dev.FakeLink.hook = lambda kind: log.append(['rx', kind, S.name()])
        if case.get('no_driver'):
            import cflib.crtp
            cflib.crtp.CLASSES[:] = []
        from cflib.crazyflie import Crazyflie
        from cflib.crazyflie.syncCrazyflie import SyncCrazyflie
        cf = Crazyflie(rw_cache=None)
        if case.get('connect_raises'):
            dev.FakeLink.connect_raises = case['connect_raises']

        def completeness():
            """what the property requires at connected / fully_connected, read off the library's own tables"""
            try:
                n_log = sum(len(g) for g in cf.log.toc.toc.values())
                n_par = sum(len(g) for g in cf.param.toc.toc.values())
                missing = [g + '.' + n for g in cf.param.toc.toc for n in cf.param.toc.toc[g]
                           if n not in cf.param.values.get(g, {})]
            except Exception as e:          # noqa
                return {'error': repr(e)}
            return {'n_log': n_log, 'n_param': n_par, 'params_without_value': missing}

        def rec(name):
            def f(*a):
                if name == 'connection_requested':
                    attempt[0] += 1
                e = ['cb', name, S.name(), attempt[0]]
                if name in ('connected', 'fully_connected'):
                    e.append(completeness())
                log.append(e)
                # the application acts from inside its callback (case['cb_actions'] = [[callback, 'close'|'open', nth]])
                for act in case.get('cb_actions', ()):
                    if act[0] == name and fired.get(name, 0) == (act[2] if len(act) > 2 else 0):
                        fired[name] = fired.get(name, 0) + 1
                        log.append(['act', act[1], S.name()])
                        try:
                            if act[1] == 'close':
                                cf.close_link()
                            elif act[1] == 'sleep':
                                # the application's callback takes its time: other threads run meanwhile
                                detsched.d_sleep(act[3] if len(act) > 3 else 0.05)
                            elif act[1] == 'open':
                                log.append(['ev', 'open', S.name()])
                                cf.open_link('fake://0')
                        except Exception as ex:      # noqa
                            log.append(['ev', 'cb_action_raised:' + type(ex).__name__, S.name()])
                        log.append(['act_end', act[1], S.name()])
                        break
                else:
                    if any(act[0] == name for act in case.get('cb_actions', ())):
                        fired[name] = fired.get(name, 0) + 1
            return f
        for n in CALLERS:
            getattr(cf, n).add_callback(rec(n))
        # the application may also act from inside a parameter-value callback (pseudo callback name 'param_update';
        # it is not a lifecycle callback and is not logged as one)
        if any(a[0] == 'param_update' for a in case.get('cb_actions', ())):
            pcount = [0]

            def on_param(name_, value_):
                for act in case['cb_actions']:
                    if act[0] == 'param_update' and pcount[0] == (act[2] if len(act) > 2 else 0):
                        log.append(['act', act[1], S.name()])
                        try:
                            if act[1] == 'close':
                                cf.close_link()
                        except Exception as ex:      # noqa
                            log.append(['ev', 'cb_action_raised:' + type(ex).__name__, S.name()])
                        log.append(['act_end', act[1], S.name()])
                pcount[0] += 1
            cf.param.all_update_callback.add_callback(on_param)

        # model events: entry into the library's own transition functions
        def wrap(obj, attr, ev):
            orig = getattr(obj, attr)

            def w(*a, **k):
                log.append(['ev', ev, S.name()])
                return orig(*a, **k)
            setattr(obj, attr, w)
        wrap(cf, '_link_error_cb', 'err')
        wrap(cf, 'close_link', 'close')
        # the moment get_link_driver returns inside open_link (driver installed / none / raised)
        import cflib.crtp as _crtp
        _orig_gld = _crtp.get_link_driver

        def gld(*a, **k):
            try:
                d = _orig_gld(*a, **k)
            except Exception:
                log.append(['ev', 'open_end_fail', S.name()])
                raise
            log.append(['ev', 'open_end_ok' if d else 'open_end_fail', S.name()])
            return d
        _crtp.get_link_driver = gld
        restore.append(lambda: setattr(_crtp, 'get_link_driver', _orig_gld))
        scf = SyncCrazyflie('fake://0', cf=cf)
        status = 'ok'
        for op in case['script']:
            name = op[0]
            if name in ('open', 'sync_open'):
                log.append(['ev', 'open', S.name()])
            try:
                if name == 'open':
                    cf.open_link('fake://0')
                elif name == 'close':
                    cf.close_link()
                elif name == 'sync_open':
                    scf.open_link()
                    # returned normally: at this instant (no hand-over since its own check) it must believe the link open
                    log.append(['ev', 'sync_open_ok:' + ('open' if scf._is_link_open else 'not_open'), S.name()])
                elif name == 'sync_close':
                    scf.close_link()
                elif name == 'sleep':
                    detsched.d_sleep(op[1])
                elif name == 'wait_packets':
                    k = op[1]
                    S.block(lambda: bool(dev.FakeLink.instances) and dev.FakeLink.instances[-1].count >= k, 30.0,
                            'wait_packets')
                elif name == 'bg_close':
                    # a second user thread closes the link once k packets have been exchanged
                    import threading
                    k = op[1]
                    n0 = len(dev.FakeLink.instances)

                    def closer(k=k, n0=n0):
                        # bound to the session opened next: gives up if that session ends first
                        def due():
                            ins = dev.FakeLink.instances
                            return len(ins) > n0 and (ins[n0].count >= k or ins[n0].closed)
                        if S.block(due, 30.0, 'wait_packets') and not dev.FakeLink.instances[n0].closed \
                                and len(dev.FakeLink.instances) == n0 + 1:
                            cf.close_link()
                    threading.Thread(target=closer).start()
                elif name == 'request':
                    # the application sends a request the device never answers, with an expected reply (retry timer)
                    from cflib.crtp.crtpstack import CRTPPacket
                    pk = CRTPPacket()
                    pk.set_header(14, 1)
                    pk.data = bytes([op[1] if len(op) > 1 else 7])
                    cf.send_packet(pk, expected_reply=(pk.data[0],), timeout=op[2] if len(op) > 2 else 0.2)
                elif name == 'bg_slow_send':
                    # a second user thread sends a packet on the slow port after op[1] seconds (it holds the send
                    # lock while the driver's send_packet blocks)
                    import threading
                    from cflib.crtp.crtpstack import CRTPPacket

                    def slow(dt=op[1]):
                        detsched.d_sleep(dt)
                        pk = CRTPPacket()
                        pk.set_header(cfgkw['slow_send'][0], 0)
                        pk.data = b'\x01'
                        log.append(['ev', 'slow_send', S.name()])
                        try:
                            cf.send_packet(pk)
                        except Exception as e:      # noqa
                            log.append(['ev', 'slow_send_raised:' + type(e).__name__, S.name()])
                    threading.Thread(target=slow).start()
                elif name == 'wait_line':
                    # wait until some other thread is about to execute a source line of function op[1] (in
                    # cflib/crazyflie/__init__.py) that contains the text op[2], after at least op[3] packets
                    # (needs case['line_yield'] for that function: byte-code-level preemption point)
                    import inspect
                    import cflib.crazyflie as _cfm
                    fn = (_cfm._IncomingPacketHandler.run if op[1] == 'run' else getattr(_cfm.Crazyflie, op[1]))
                    src, start = inspect.getsourcelines(fn)
                    whats = set('line %d' % (start + i) for i, l in enumerate(src) if op[2] in l)
                    me = detsched._real_current()

                    def at_line():
                        if not dev.FakeLink.instances or dev.FakeLink.instances[-1].count < op[3]:
                            return False
                        return any(t is not me and i['what'] in whats for t, i in S.threads.items())
                    S.block(at_line, 20.0, 'wait_line')
                elif name == 'bg_mem_write':
                    # a second user thread writes to a memory once k packets have been exchanged (the device does
                    # not answer memory traffic: only the library's locking is exercised)
                    import threading
                    from cflib.crazyflie.mem import MemoryElement
                    k = op[1]
                    n0 = len(dev.FakeLink.instances)
                    fake_mem = MemoryElement(id=0, type=MemoryElement.TYPE_I2C, size=64, mem_handler=cf.mem)

                    def writer(k=k, n0=n0):
                        def due():
                            ins = dev.FakeLink.instances
                            return len(ins) > n0 and (ins[n0].count >= k or ins[n0].closed)
                        if S.block(due, 30.0, 'wait_packets') and cf.link is not None:
                            log.append(['ev', 'mem_write', S.name()])
                            try:
                                cf.mem.write(fake_mem, 0, bytes(range(40)))
                                log.append(['ev', 'mem_write_done', S.name()])
                            except Exception as e:      # the application's own thread: it sees the exception
                                log.append(['ev', 'mem_write_raised:' + type(e).__name__, S.name()])
                    threading.Thread(target=writer).start()
                elif name == 'reconnect':
                    dev.FakeLink.cfg = dev.Config(n_log=cfgkw.get('n_log', 3), n_param=cfgkw.get('n_param', 2),
                                                 mems=cfgkw.get('mems', ()))
                    dev.FakeLink.connect_raises = None
                    if case.get('no_driver'):
                        import cflib.crtp
                        cflib.crtp.CLASSES[:] = [dev.FakeLink]
                    if scf.is_link_open():
                        scf.close_link()
                    elif cf.link is not None:
                        cf.close_link()
                    log.append(['ev', 'open', S.name()])
                    scf.open_link()
                    scf.wait_for_params()
                    scf.close_link()
                res.append([name, 'ok'])
            except detsched.Deadlock as e:
                res.append([name, 'hang', [list(x) for x in e.args[0]]])
                status = 'hang'
                break
            except Exception as e:
                res.append([name, 'raised', type(e).__name__])
        if status != 'hang':
            try:
                detsched.d_sleep(5.0)
            except detsched.Deadlock as e:
                res.append(['settle', 'hang', [list(x) for x in e.args[0]]])
        stuck = []
        for r in S.blocked_report():
            if r['deadline'] or r['satisfied']:
                continue
            if (r['thread'].split('#')[0], r['what']) in IDLE_OK:
                continue
            stuck.append([r['thread'], r['what']])
        return {'log': log, 'results': res, 'stuck': sorted(stuck),
                'dead': [list(d) for d in S.dead], 'choices': list(S.choices),
                'sent_after_close': sum(l.sent_after_close for l in dev.FakeLink.instances),
                'sessions': len(dev.FakeLink.instances), 'state': cf.state, 'link_none': cf.link is None,
                'notes': [list(x) for x in S.log], 'lock_edges': lock_edges(S.locklog),
                # SyncCrazyflie's bookkeeping at the end of the run (the invariant of C02/SyncModel.v)
                'sync': {'is_open': bool(scf._is_link_open), 'link': cf.link is not None,
                         'registered': scf._disconnected in cf.disconnected.callbacks,
                         'disconnect_event_armed': scf._disconnect_event is not None}}
    finally:
        for f in restore:
            f()
        detsched.uninstall()
