"""C07 — received packets reach exactly the matching callbacks, once, in order.

Tie (V): the real `_IncomingPacketHandler.run` of a real `Crazyflie` is executed synchronously on
generated cases (registrations, all-packet callbacks, header bytes, per-invocation scripts of registry
operations / exceptions, issued through the public wrappers) and the invocation log + liveness is
compared with `C07.Model.run` evaluated by Coq on the same case.
Oracle: the property text on the implementation's invocation log, against a registry kept by the
harness with plain set semantics (no model involved)."""
import glob
import itertools
import json
import os

from core import coqrun, runner
from fakes import c07_dispatch as drv

ID = 'C07'
PROPERTY_FILE = 'C07/Property.v'
LEVEL = 'proof'
ALLOWED_AXIOMS = ()
TRUSTED_BASE = [
    'C07/Model.v is hand-written from cflib/crazyflie/__init__.py (_IncomingPacketHandler) and cflib/utils/callbacks.py '
    '(Caller); tied on every run by differential execution of the real run() loop against the model on generated '
    'registration tables, header bytes and mutation scripts (invocation log and dispatcher liveness compared)',
    'Python list semantics assumed: list.append/remove/`in`, a for loop over a live list advances an index and reads the '
    'current list (modelled explicitly in rem_loop and call_ports_live), list(...)/list comprehension take a snapshot',
    'harness/fakes/c07_dispatch.py: scripted link + instrumented callbacks; run() is called in the harness thread',
]
ASSUMPTIONS = [
    'callbacks are deterministic functions of what they can observe (the invocation log); they act on the dispatcher only '
    'through add/remove_header_callback, add/remove_port_callback, packet_received.add/remove_callback, or by raising',
    'registrations are made and removed from the dispatcher thread (inside callbacks) or while it is not dispatching; '
    'byte-code-level races between another thread mutating the table and the dispatcher are outside the model',
    'a callback does not raise BaseException subclasses outside Exception (KeyboardInterrupt, SystemExit)',
]
PROVED = ('Over the model of the dispatcher (with fix F07): for every header byte, table, packet sequence and every behaviour '
          'of the callbacks (arbitrary add/remove operations, on themselves or others, and exceptions at any position): the '
          'port/header callbacks invoked for a packet are exactly the registrations of the table (as it stands when the '
          'all-packet callbacks have run) whose masked port and channel equal the header fields, once per registration, in '
          'registration order; registrations untouched by the operations executed so far in the dispatch keep their '
          'multiplicity and relative order; an exception in a port callback changes neither the deliveries nor liveness '
          '(only an exception escaping a packet_received callback ends the loop); a removal affects only entries equal to '
          'the removed registration (and removes it completely when registrations are distinct); packets are handled in '
          'arrival order, all of them while the loop is alive.')
NOT_PROVED = ('Exceptions raised by packet_received (all-packet) callbacks are not isolated by the code: they end the '
              'dispatcher thread (modelled and stated, outside the property text which speaks of port callbacks). With '
              'duplicate (non-distinct) registrations remove_header_callback may leave copies behind (modelled; outside the '
              'quantifier of the property). Thread-level races on the table are not modelled.')

HEADER = ('From CF Require Import Common.Bytes C07.Model.\nOpen Scope Z_scope.\n')

ALL_BASE = 100      # oracle cases: ids >= ALL_BASE are packet_received callbacks, below are port callbacks


# ------------------------------------------------------------------ case -> Coq
def _reg(r):
    return '(mkReg %s %s %s %s %s)' % tuple(coqrun.z(x) for x in r[:5])


def _op(o):
    k = o[0]
    if k == 'raise':
        return 'Raise'
    if k == 'addall':
        return 'AddAll %s' % coqrun.z(o[1])
    if k == 'remall':
        return 'RemAll %s' % coqrun.z(o[1])
    return '%s %s' % ('AddH' if k == 'addh' else 'RemH', _reg(o[1:6]))


_PT = {'S': 0, 'A0': 1, 'A': 2, 'P0': 3, 'P': 4}


def _ext_term(case, fired):
    """The schedule of the other thread as the model sees it: only the hand-over points that were reached."""
    items = []
    for key in fired:
        parts = key.split(':')
        kind, n, k = _PT[parts[0]], int(parts[1]), int(parts[2]) if len(parts) > 2 else 0
        items.append('(%d, %d, %d, [%s])' % (kind, n, k, '; '.join(_op(o) for o in case['ext'][key])))
    return 'table_ext [%s]' % '; '.join(items)


def case_term(case, fired=None):
    tbl = '[' + '; '.join(
        '(%s, [%s])' % (coqrun.z(int(c)), '; '.join('[' + '; '.join(_op(o) for o in sc) + ']' for sc in scs))
        for c, scs in sorted(case['beh'].items(), key=lambda kv: int(kv[0]))) + ']'
    regs = '[' + '; '.join(_reg(r) for r in case['regs']) + ']'
    if case.get('ext'):
        return 'obs_of (run_x (table_beh %s) (%s) 0 %s (mkSt %s %s) [])' % (
            tbl, _ext_term(case, fired or []), coqrun.zlist(case['pkts']), regs, coqrun.zlist(case['alls']))
    if case.get('reads') is not None:
        rs, i = [], 0
        for w in case['reads']:
            if w == 'p':
                if i < len(case['pkts']):
                    rs.append('RPacket %d' % case['pkts'][i])
                    i += 1
            else:
                rs.append('RNone' if w == 'n' else 'RRaise')
        return 'obs_of (run_stream (table_beh %s) 0 [%s] (mkSt %s %s) [])' % (
            tbl, '; '.join(rs), regs, coqrun.zlist(case['alls']))
    return 'obs_of (run (table_beh %s) 0 %s (mkSt %s %s) [])' % (
        tbl, coqrun.zlist(case['pkts']), regs, coqrun.zlist(case['alls']))


def impl_obs(res):
    out = [1 if res['alive'] else (2 if res['diverged'] else 0)]
    for c, n in res['log']:
        out += [c, n]
    return out


# ------------------------------------------------------------------ generators
def _rand_reg(rng, focus_port, cbs):
    port = rng.choice([focus_port, focus_port, focus_port, (focus_port + 1) & 15, 0, 255, rng.randrange(16)])
    pmask = rng.choice([255, 255, 255, 15, 14, 0, 0xF0])
    chan = rng.choice([0, 0, 1, 2, 3])
    cmask = rng.choice([0, 0, 255, 3, 1, 2])
    via = 'hdr'
    if rng.random() < 0.4:
        pmask, chan, cmask, via = 255, 0, 0, 'port'
    elif rng.random() < 0.2:
        pmask, cmask, via = 255, 255, 'def'
    return [port, pmask, chan, cmask, rng.choice(cbs), via]


def _with_plens(rng, case):
    """Half of the random cases carry payloads of length 0 / 1 / 2 / 30 and headers biased to the ends of the range."""
    if rng.random() < 0.5:
        case['plens'] = [rng.choice([0, 0, 1, 2, 30]) for _ in case['pkts']]
        case['pkts'] = [(h | 0xF0 | rng.choice([0, 3])) if rng.random() < 0.1 else h for h in case['pkts']]
    return case


def gen_case(rng, oracle=False):
    """Random case.  oracle=True: separate id spaces for port and all-packet callbacks, all-packet scripts never
    raise (the property text isolates port-callback exceptions only)."""
    ncb = rng.randint(2, 6)
    pcbs = list(range(1, ncb + 1))
    acbs = [ALL_BASE + i for i in range(rng.randint(0, 3))] if oracle else pcbs + [ALL_BASE]
    focus = rng.randrange(16)
    pool = []
    for _ in range(rng.randint(2, 7)):
        r = _rand_reg(rng, focus, pcbs)
        if oracle and any(r[:5] == q[:5] for q in pool):
            continue
        pool.append(r)
    nreg = rng.randint(1, len(pool))
    regs = [r[:5] for r in pool[:nreg]]
    if not oracle and rng.random() < 0.15 and regs:
        regs.append(list(rng.choice(regs)))          # duplicate registration
    alls = []
    for c in acbs:
        if rng.random() < (0.6 if oracle else 0.3) and c not in alls:
            alls.append(c)
    pkts = []
    for _ in range(rng.randint(1, 5)):
        if rng.random() < 0.7:
            pkts.append((focus << 4) | (rng.randrange(4) << 2) | rng.randrange(4))
        else:
            pkts.append(rng.randrange(256))

    def rand_op(c, is_all):
        x = rng.random()
        if x < 0.45:
            r = rng.choice(pool)
            if rng.random() < 0.5:
                own = [q for q in pool if q[4] == c]
                if own:
                    r = rng.choice(own)
            return ['remh'] + list(r)
        if x < 0.75:
            return ['addh'] + list(rng.choice(pool))
        if x < 0.83 and acbs:
            return ['addall', rng.choice(acbs)]
        if x < 0.91 and acbs:
            return ['remall', rng.choice(acbs)]
        if is_all and oracle:
            return ['addh'] + list(rng.choice(pool))
        return ['raise']

    beh = {}
    for c in sorted(set(pcbs + acbs)):
        scs = []
        for _ in range(rng.randint(0, 3)):
            scs.append([rand_op(c, c >= ALL_BASE) for _ in range(rng.choice([0, 1, 1, 2, 3]))])
        if scs:
            beh[str(c)] = scs
    return _with_plens(rng, {'regs': regs, 'alls': alls, 'pkts': pkts, 'beh': beh})


def gen_long_case(rng, oracle=False):
    """Long history: 12-40 packets, a few registrations on one port, the same callbacks raising many times (far more often
    than any small error budget), interleaved with successful calls and occasional registry operations."""
    focus = rng.randrange(16)
    ncb = rng.randint(1, 4)
    pcbs = list(range(1, ncb + 1))
    pool = []
    for c in pcbs:
        r = [focus, 255, 0, 0, c, 'port'] if rng.random() < 0.7 else _rand_reg(rng, focus, [c])
        if not any(r[:5] == q[:5] for q in pool):
            pool.append(r)
    regs = [r[:5] for r in pool]
    alls = [ALL_BASE] if rng.random() < 0.3 else []
    npk = rng.randint(12, 40)
    pkts = [((focus << 4) | (rng.randrange(4) << 2) | rng.randrange(4)) if rng.random() < 0.9 else rng.randrange(256)
            for _ in range(npk)]
    beh = {}
    for c in pcbs:
        p_raise = rng.choice([1.0, 0.5, 0.5, 0.3, 0.15, 0.0])
        scs = []
        for _ in range(npk + 2):
            sc = []
            if rng.random() < 0.06:
                r = rng.choice(pool)
                sc.append([rng.choice(['addh', 'remh'])] + list(r))
            if rng.random() < p_raise:
                sc.append(['raise'])
            scs.append(sc)
        beh[str(c)] = scs
    return _with_plens(rng, {'regs': regs, 'alls': alls, 'pkts': pkts, 'beh': beh})


def long_fixed_cases():
    """Deterministic long histories: one registration raising on every / every other / every third packet for 40 packets,
    next to one that never raises."""
    out = []
    for period in (1, 2, 3):
        scs = [[['raise']] if k % period == 0 else [] for k in range(42)]
        out.append({'regs': [[2, 255, 0, 0, 1], [2, 255, 0, 0, 2]], 'alls': [], 'pkts': [0x2C] * 40, 'beh': {'1': scs}})
    out.append({'regs': [[2, 255, 0, 0, 1], [2, 14, 1, 1, 2]], 'alls': [ALL_BASE], 'pkts': [0x2D, 0x3D] * 15,
                'beh': {'1': [[['raise']]] * 32, '2': [[['raise']]] * 32}})
    return out


def header_sweep_cases():
    """All 256 header bytes x payload lengths {0, 1, 2, 30} against every kind of registration: one port callback per
    port, exact header callbacks (default masks) for the link-control and one other header, wildcard (all masks 0),
    channel-only, port-only-by-mask, high-bit port masks.  One case per payload length."""
    regs = [[p, 255, 0, 0, p + 1] for p in range(16)]                       # add_port_callback(p)
    regs += [[0, 0, 0, 0, 20]]                                               # wildcard
    regs += [[0, 0, ch, 3, 21 + ch] for ch in range(4)]                      # channel only
    regs += [[15, 255, 3, 255, 30], [2, 255, 1, 255, 31]]                    # exact header (default masks)
    regs += [[15, 15, 0, 0, 32], [12, 12, 3, 3, 33], [15, 255, 2, 2, 34]]    # masked port / channel
    out = []
    for plen in (0, 1, 2, 30):
        out.append({'regs': [list(r) for r in regs], 'alls': [ALL_BASE], 'pkts': list(range(256)), 'plens': [plen] * 256,
                    'beh': {}})
    # the same headers with mixed payload lengths next to each other, and a raising link-control callback
    hs = [0xF3, 0xF7, 0xFB, 0xFF, 0xF0, 0x0F, 0x00, 0xFC]
    out.append({'regs': [list(r) for r in regs], 'alls': [], 'pkts': [h for h in hs for _ in range(4)],
                'plens': [0, 1, 2, 30] * len(hs), 'beh': {'16': [[['raise']]] * 40}})
    return out


def _ext_ops(rng, pool, acbs, oracle):
    ops = []
    for _ in range(rng.choice([1, 1, 2])):
        x = rng.random()
        if x < 0.45:
            ops.append(['remh'] + list(rng.choice(pool)))
        elif x < 0.8:
            ops.append(['addh'] + list(rng.choice(pool)))
        elif acbs:
            ops.append([rng.choice(['addall', 'remall']), rng.choice(acbs)])
    return ops


def gen_ext_case(rng, oracle=False):
    """A random case plus operations by ANOTHER THREAD at the hand-over points of the dispatches."""
    case = gen_case(rng, oracle=oracle)
    pool = [list(r) + ['hdr'] for r in case['regs']]
    focus = case['regs'][0][0] if case['regs'] else 1
    for c in range(1, 5):
        pool.append([focus, 255, 0, 0, c, 'port'])
    acbs = [ALL_BASE + i for i in range(3)] if oracle else [1, 2, ALL_BASE]
    ext = {}
    for n in range(len(case['pkts'])):
        keys = ['S:%d' % n, 'A0:%d' % n, 'P0:%d' % n] + ['A:%d:%d' % (n, k) for k in (1, 2)] + ['P:%d:%d' % (n, k) for k in (1, 2, 3)]
        for key in keys:
            if rng.random() < 0.35:
                ext[key] = _ext_ops(rng, pool, acbs, oracle)
    case['ext'] = {k: v for k, v in ext.items() if v}
    return case


def ext_enum_cases():
    """Small scope: registrations a, b, c on one port (+ one all-packet callback); the other thread performs one or two
    operations at the hand-over points of the first dispatch / between the dispatches."""
    P = 5
    regs = [[P, 255, 0, 0, i] for i in (1, 2, 3)]
    ops = [['remh'] + regs[0] + ['port'], ['remh'] + regs[1] + ['port'], ['remh'] + regs[2] + ['port'],
           ['addh', P, 255, 0, 0, 4, 'port'], ['remall', ALL_BASE], ['addall', ALL_BASE + 1]]
    points = ['S:0', 'A0:0', 'A:0:1', 'P0:0', 'P:0:1', 'P:0:2', 'P:0:3', 'S:1']
    single = [(pt, op) for pt in points for op in ops]
    for pt, op in single:
        yield {'regs': [list(r) for r in regs], 'alls': [ALL_BASE], 'pkts': [0x5C, 0x51], 'beh': {}, 'ext': {pt: [op]}}
    for i, (p1, o1) in enumerate(single):
        for (p2, o2) in single[i + 1::7]:
            if p1 != p2:
                yield {'regs': [list(r) for r in regs], 'alls': [ALL_BASE], 'pkts': [0x5C, 0x51], 'beh': {},
                       'ext': {p1: [o1], p2: [o2]}}


def _with_reads(rng, case):
    """Outcomes of the link's receive_packet calls: timeouts and failing reads (OSError / Exception) at random places —
    first call, after a packet, after a timeout, several in a row."""
    reads = []
    p_fault = rng.choice([0.05, 0.15, 0.3])
    for _ in case['pkts']:
        while rng.random() < 0.25:
            reads.append('n')
        while rng.random() < p_fault:
            reads.append(rng.choice(['e', 'x']))
        reads.append('p')
    while rng.random() < 0.4:
        reads.append(rng.choice(['n', 'e', 'x']))
    case['reads'] = reads
    return case


def read_fault_cases():
    """Fixed streams: a failing read as first call, after one packet, after a timeout, twice in a row, between packets, at
    the end; two registrations on the port, one other; with and without an all-packet callback."""
    regs = [[2, 255, 0, 0, 1], [2, 255, 0, 0, 2], [3, 255, 0, 0, 3]]
    out = []
    for reads in (['e', 'p', 'p'], ['p', 'e', 'p'], ['p', 'x', 'p'], ['p', 'n', 'e', 'p'], ['p', 'e', 'e', 'p'],
                  ['p', 'p', 'x', 'x', 'x', 'p'], ['n', 'x', 'p'], ['p', 'p', 'p', 'e'], ['p', 'n', 'p', 'n', 'e', 'n', 'p']):
        npk = reads.count('p')
        for alls in ([], [ALL_BASE]):
            out.append({'regs': [list(r) for r in regs], 'alls': list(alls), 'pkts': [0x2C, 0x3C, 0x21][:npk] + [0x2C] * max(0, npk - 3),
                        'beh': {}, 'reads': list(reads)})
    return out


def answer_check_cases(rng=None, n_random=0):
    """The library's own packet_received listener Crazyflie._check_for_answers with pending answer patterns, and another
    thread sending a request with an expected reply (a new pattern) / firing a retry timer at every line-level preemption
    point inside it, for packets that match a pending pattern and packets that do not."""
    regs = [[2, 255, 0, 0, 1], [2, 255, 0, 0, 2], [3, 255, 0, 0, 3]]
    out = []
    for pending in ([[0x20, [1], [0]]], [[0x20, [1], [0]], [0x20, [2], [0, 0]], [0x30, [3], [5]]]):
        for k in range(1, 16):
            for op in (['sendexp', 0x20, [k], [9, k]], ['retry', 0]):
                out.append({'regs': [list(r) for r in regs], 'alls': [ALL_BASE], 'pkts': [0x2C, 0x3C, 0x2C], 'plens': [2, 1, 0],
                            'beh': {}, 'answers': {'pending': pending, 'inloop': {'%d:%d' % (n, k): [op] for n in (0, 1)}}})
    for _ in range(n_random):
        c = gen_case(rng, oracle=True)
        c.pop('ext', None)
        c['answers'] = {'pending': [[rng.choice(c['pkts']) & 0xF3, [i], [rng.randrange(3)]] for i in range(rng.randint(1, 3))],
                        'inloop': {'%d:%d' % (rng.randrange(len(c['pkts'])), rng.randint(1, 14)):
                                   [['sendexp', 0x20, [j], [50 + j, rng.randrange(256)]]] for j in range(rng.randint(1, 4))}}
        out.append(c)
    return out


def enum_cases(depth):
    """Small-scope enumeration: registrations a,b,c(,d) on one port, each callback's first script drawn from an
    alphabet of registry operations; one or two packets."""
    P = 5
    regs = [[P, 255, 0, 0, i] for i in (1, 2, 3)]
    extra = [P, 255, 0, 0, 4]
    alphabet = [[]] + [[['remh'] + r + ['port']] for r in regs] + [[['addh'] + extra + ['port']], [['raise']],
                                                                    [['remh'] + regs[0] + ['port'], ['raise']],
                                                                    [['addh'] + extra + ['port'], ['remh'] + regs[2] + ['port']]]
    for combo in itertools.product(alphabet, repeat=3):
        beh = {str(i + 1): [combo[i]] for i in range(3) if combo[i]}
        yield {'regs': [list(r) for r in regs], 'alls': [], 'pkts': [0x5C, 0x51], 'beh': beh}
    if depth:
        # an all-packet callback mutating the port table before the port phase, and self-removal there
        for sc in alphabet[1:6]:
            for combo in itertools.product(alphabet[:6], repeat=2):
                beh = {str(ALL_BASE): [[o for o in sc if o[0] != 'raise'],
                                       [['remall', ALL_BASE]]]}
                for i in range(2):
                    if combo[i]:
                        beh[str(i + 1)] = [combo[i]]
                yield {'regs': [list(r) for r in regs], 'alls': [ALL_BASE, ALL_BASE + 1], 'pkts': [0x50, 0x53, 0x5F],
                       'beh': beh}


# ------------------------------------------------------------------ tie
def _unflat(vals):
    out, i = [], 0
    while i < len(vals):
        k = vals[i]
        out.append(list(vals[i + 1:i + 1 + k]))
        i += 1 + k
    return out


def _nontrivial(case, res):
    """>= 2 port invocations for some packet and >= 1 registry operation executed during a dispatch."""
    per = {}
    for c, n in res['log']:
        per[n] = per.get(n, 0) + 1
    has_mut = any(len(sc) > 0 for c, n in res['log'] for sc in case['beh'].get(str(c), []))
    return max(per.values() or [0]) >= 2 and has_mut


def _max_raises(case, res):
    """Largest number of invocations of one callback whose script raises, in this run."""
    cnt, raises = {}, {}
    for c, n in res['log']:
        k = cnt.get(c, 0)
        cnt[c] = k + 1
        scs = case['beh'].get(str(c), [])
        if k < len(scs) and any(o[0] == 'raise' for o in scs[k]):
            raises[c] = raises.get(c, 0) + 1
    return max(raises.values() or [0])


def corpus_cases():
    out = []
    for p in sorted(glob.glob(os.path.join(runner.VERIF, 'corpus', 'C07', '*.json'))):
        out.append(json.load(open(p))['case'])
    return out


def tie(ctx):
    cases = corpus_cases() + header_sweep_cases() + long_fixed_cases() + list(enum_cases(0))
    for _ in range(ctx.scale(1200, 30000)):
        cases.append(gen_case(ctx.rng, oracle=ctx.rng.random() < 0.3))
    for _ in range(ctx.scale(40, 600)):
        cases.append(gen_long_case(ctx.rng))
    cases += list(ext_enum_cases())
    for _ in range(ctx.scale(300, 6000)):
        cases.append(gen_ext_case(ctx.rng, oracle=ctx.rng.random() < 0.3))
    cases += read_fault_cases()
    for _ in range(ctx.scale(200, 4000)):
        cases.append(_with_reads(ctx.rng, gen_case(ctx.rng, oracle=ctx.rng.random() < 0.3)))
    cases += answer_check_cases(ctx.rng, ctx.scale(60, 1200))
    terms, exp, ress = [], [], []
    for c in cases:
        res = drv.run_case(c)
        ress.append(res)
        terms.append(case_term(c, res.get('fired')))
        exp.append(impl_obs(res))
    dis = []
    nd = 0
    B = 32      # cases per evaluated term (the per-term overhead of coqc dominates otherwise)
    starts = list(range(0, len(cases), B))
    bterms = ['flat [%s]' % '; '.join(terms[a:a + B]) for a in starts]
    bexp = [coqrun.flat(exp[a:a + B]) for a in starts]
    for bi, mv in coqrun.compare_blocks(HEADER, bterms, bexp, tag='c07', shard=max(2, len(bterms) // 16 + 1)):
        a = starts[bi]
        per = _unflat(mv) if mv is not None else None
        for k in range(len(cases[a:a + B])):
            m = per[k] if per is not None and k < len(per) else None
            if m == exp[a + k]:
                continue
            nd += 1
            if len(dis) < 6:
                dis.append({'what': 'dispatcher: invocation log/liveness of model and implementation differ',
                            'case': cases[a + k], 'model': m, 'impl': exp[a + k]})
    if nd:
        dis.append({'what': 'total disagreements', 'count': nd})
    seen = set()
    nontriv = 0
    dist = {'cases': len(cases), 'cases_with_another_thread_inside_the_answer_check': sum(1 for c in cases if c.get('answers')), 'cases_with_failing_reads': 0, 'loops_ended_by_a_failing_read': 0, 'cases_with_other_thread_operations': 0, 'other_thread_hand_overs': 0, 'max_raises_by_one_callback': 0, 'cases_with_10_or_more_raises_by_one_callback': 0, 'dispatcher_died': 0, 'with_raise': 0, 'with_dup_regs': 0, 'invocations': 0,
            'by_regs': {}, 'by_packets': {}}
    for c, r in zip(cases, ress):
        h = runner.sha(c)
        if h in seen:
            continue
        seen.add(h)
        if _nontrivial(c, r):
            nontriv += 1
        dist['dispatcher_died'] += 0 if r['alive'] else 1
        dist['with_raise'] += 1 if any(o[0] == 'raise' for scs in c['beh'].values() for sc in scs for o in sc) else 0
        dist['with_dup_regs'] += 1 if len({tuple(x) for x in c['regs']}) < len(c['regs']) else 0
        dist['invocations'] += len(r['log'])
        dist['cases_with_failing_reads'] += 1 if any(w in ('e', 'x') for w in (c.get('reads') or [])) else 0
        dist['loops_ended_by_a_failing_read'] += 1 if r.get('read_fault_death') else 0
        dist['cases_with_other_thread_operations'] += 1 if r.get('fired') else 0
        dist['other_thread_hand_overs'] += len(r.get('fired') or [])
        mr = _max_raises(c, r)
        dist['max_raises_by_one_callback'] = max(dist['max_raises_by_one_callback'], mr)
        dist['cases_with_10_or_more_raises_by_one_callback'] += 1 if mr >= 10 else 0
        dist['by_regs'][len(c['regs'])] = dist['by_regs'].get(len(c['regs']), 0) + 1
        dist['by_packets'][len(c['pkts'])] = dist['by_packets'].get(len(c['pkts']), 0) + 1
    return {
        'evaluations': len(cases),
        'distinct_nontrivial': nontriv,
        'rule': 'a case = initial port/header registrations + packet_received callbacks + header bytes + per-invocation '
                'scripts (add/remove header/port/all-packet callbacks incl. self, duplicates, raise); non-trivial: some '
                'packet reaches >= 2 callbacks and an invoked callback has a non-empty script; compared: liveness and the '
                'ordered (callback, packet no) invocation log of the real run() loop vs C07.Model.run (digest in Coq, '
                'differing cases re-evaluated in full)',
        'samples': [{'case': cases[i], 'impl': exp[i]} for i in (0, len(cases) // 2, len(cases) - 1)],
        'distribution': dist,
        'exhaustive': False,
        'disagreements': dis,
    }


# ------------------------------------------------------------------ oracle (property text, no model)
class Spec:
    """Registry kept with plain set semantics from the operations the callbacks actually execute."""

    def __init__(self, case):
        self.table = [tuple(r) for r in case['regs']]
        self.alls = list(case['alls'])
        self.recs = []
        self.cur = None
        self.n_pk = len(case['pkts'])
        self.in_all_cb = False
        self.mutations = 0

    def packet_boundary(self, i):
        self.cur = None
        if i < self.n_pk:
            self.cur = {'T': list(self.table), 'A': list(self.alls), 'rem': set(), 'add': set(), 'arem': set(),
                        'aadd': set()}
            self.recs.append(self.cur)

    def dispatch_over(self):
        self.cur = None             # operations between two dispatches change the table only

    def invoked(self, c, n):
        self.in_all_cb = c >= ALL_BASE

    def before_op(self, op):
        k = op[0]
        if k in ('sendexp', 'retry'):
            return True                 # not a registry operation
        cur = self.cur if self.cur is not None else {'rem': set(), 'add': set(), 'arem': set(), 'aadd': set()}
        if k == 'raise':
            return not self.in_all_cb
        self.mutations += 1
        if k == 'addh':
            r = tuple(op[1:6])
            if r in self.table:
                return False            # the property quantifies over sets of distinct registrations
            self.table.append(r)
            cur['add'].add(r)
        elif k == 'remh':
            r = tuple(op[1:6])
            if r in self.table:
                self.table.remove(r)
                cur['rem'].add(r)
        elif k == 'addall':
            if op[1] not in self.alls:
                self.alls.append(op[1])
                cur['aadd'].add(op[1])
        elif k == 'remall':
            if op[1] not in self.alls:
                return False            # would raise ValueError: not a registry operation the text speaks about
            self.alls.remove(op[1])
            cur['arem'].add(op[1])
        return True


def _match(r, h):
    port, chan = (h >> 4) & 0xF, h & 0x3
    return r[0] == (port & r[1]) and r[2] == (chan & r[3])


def _subseq(a, b):
    it = iter(b)
    return all(any(x == y for y in it) for x in a)


def check_case(case):
    """Returns a failure dict or None."""
    spec = Spec(case)
    res = drv.run_case(case, observer=spec)
    log = res['log']

    def fail(cls, detail, expected=None, observed=None):
        return {'class': cls, 'case': case, 'expected': expected, 'observed': observed if observed is not None else log,
                'detail': detail}
    if res['diverged']:
        return fail('dispatch_does_not_terminate', 'more than %d callback invocations' % (drv.MAX_CALLS + 40 * len(case['pkts'])))
    # an exception of link.receive_packet that ends the loop is an OBSERVATION (the text isolates exceptions of port
    # callbacks only): the packets handed out so far are still judged, each exactly once
    if (res['died'] is not None and not res.get('read_fault_death')) or \
            (res['died'] is None and res['consumed'] != len(case['pkts'])):
        return fail('dispatcher_loop_ended_by_exception', 'run() left by %s after %d packets' % (res['died'], res['consumed']))
    pks = [n for _, n in log]
    if pks != sorted(pks) or any(n < 0 for n in pks):
        return fail('packets_not_in_arrival_order', 'packet numbers in the invocation log are not non-decreasing')
    for n, h in enumerate(case['pkts'][:res['consumed']]):
        rec = spec.recs[n]
        ents = [c for c, m in log if m == n]
        pe = [c for c in ents if c < ALL_BASE]
        ae = [c for c in ents if c >= ALL_BASE]
        must = [r for r in rec['T'] if _match(r, h) and r not in rec['rem']]
        maybe = [r for r in list(rec['T']) + list(rec['add']) if _match(r, h) and (r in rec['rem'] or r in rec['add'])]
        mutated = bool(rec['rem'] or rec['add'])
        for c in sorted(set(pe) | {r[4] for r in must}):
            lo = sum(1 for r in must if r[4] == c)
            hi = lo + sum(1 for r in set(maybe) if r[4] == c)
            k = pe.count(c)
            if k < lo:
                return fail('port_cb_skipped_when_table_mutated_during_dispatch' if mutated else 'matching_port_cb_not_called',
                            'packet %d (header 0x%02x): callback %d must be called %d time(s), was called %d' % (n, h, c, lo, k),
                            expected=[r[4] for r in must], observed=pe)
            if k > hi:
                return fail('port_cb_called_without_matching_registration' if hi == 0 else 'port_cb_called_more_than_once',
                            'packet %d (header 0x%02x): callback %d may be called at most %d time(s), was called %d'
                            % (n, h, c, hi, k), expected=[r[4] for r in must], observed=pe)
        if not _subseq([r[4] for r in must], pe):
            return fail('port_cbs_not_in_registration_order', 'packet %d' % n, expected=[r[4] for r in must], observed=pe)
        amust = [c for c in rec['A'] if c not in rec['arem']]
        amaybe = rec['arem'] | rec['aadd']
        for c in sorted(set(ae) | set(amust)):
            lo = 1 if c in amust else 0
            hi = 1 if (c in amust or c in amaybe) else 0
            if not lo <= ae.count(c) <= hi:
                return fail('packet_received_cb_missed_or_repeated', 'packet %d: all-packet callback %d called %d times'
                            % (n, c, ae.count(c)), expected=amust, observed=ae)
        if not _subseq(amust, ae):
            return fail('packet_received_cbs_not_in_registration_order', 'packet %d' % n, expected=amust, observed=ae)
    return None


def oracle(ctx, deep=False):
    fails = []
    n = 0
    cases = corpus_cases() + header_sweep_cases() + long_fixed_cases() + list(enum_cases(1))
    for _ in range(ctx.scale(400, 6000) * (3 if deep else 1)):
        cases.append(gen_long_case(ctx.rng, oracle=True))
    cases += list(ext_enum_cases())
    for _ in range(ctx.scale(3000, 60000) * (3 if deep else 1)):
        cases.append(gen_ext_case(ctx.rng, oracle=True))
    cases += read_fault_cases()
    for _ in range(ctx.scale(2000, 40000) * (3 if deep else 1)):
        cases.append(_with_reads(ctx.rng, gen_case(ctx.rng, oracle=True)))
    cases += answer_check_cases(ctx.rng, ctx.scale(200, 4000))
    for _ in range(ctx.scale(20000, 300000) * (3 if deep else 1)):
        cases.append(gen_case(ctx.rng, oracle=True))
    seen_cls = set()
    nontriv = set()
    for c in cases:
        n += 1
        f = check_case(c)
        if f and f['class'] not in seen_cls:
            seen_cls.add(f['class'])
            fails.append(_shrink(f))
        elif not f:
            nontriv.add(runner.sha(c))
    return {'evaluations': n, 'failures': fails,
            'rule': 'property text on the real run(): per packet, every matching registration present at the start of the '
                    'dispatch and not removed during it is called exactly once, none absent and not added is called, in '
                    'registration order, packets in arrival order, loop alive after raising port callbacks (registry '
                    'tracked by the harness with set semantics)'}


def _shrink(f):
    """Greedy minimisation of a failing case, keeping the failure class."""
    case, cls = f['case'], f['class']
    best = f

    def attempt(c2):
        nonlocal case, best
        g = check_case(c2)
        if g and g['class'] == cls:
            case, best = c2, g
            return True
        return False
    changed = True
    while changed:
        changed = False
        for key in ('pkts', 'regs', 'alls'):
            i = 0
            while i < len(case[key]):
                c2 = dict(case, **{key: case[key][:i] + case[key][i + 1:]})
                if key == 'pkts' and case.get('plens') is not None:
                    c2['plens'] = case['plens'][:i] + case['plens'][i + 1:]
                if key == 'pkts' and case.get('reads') is not None:
                    pos = [j for j, w in enumerate(case['reads']) if w == 'p']
                    if i < len(pos):
                        c2['reads'] = case['reads'][:pos[i]] + case['reads'][pos[i] + 1:]
                if len(c2['pkts']) and attempt(c2):
                    changed = True
                else:
                    i += 1
        j = 0
        while case.get('reads') is not None and j < len(case['reads']):
            if case['reads'][j] != 'p' and attempt(dict(case, reads=case['reads'][:j] + case['reads'][j + 1:])):
                changed = True
            else:
                j += 1
        for key in list((case.get('answers') or {}).get('inloop') or {}):
            a2 = dict(case['answers'], inloop={k: v for k, v in case['answers']['inloop'].items() if k != key})
            if attempt(dict(case, answers=a2)):
                changed = True
        for key in list(case.get('ext') or {}):
            e2 = {k: v for k, v in case['ext'].items() if k != key}
            if attempt(dict(case, ext=e2)):
                changed = True
        for c in list(case['beh']):
            b2 = {k: v for k, v in case['beh'].items() if k != c}
            if attempt(dict(case, beh=b2)):
                changed = True
                continue
            scs = case['beh'][c]
            for i in range(len(scs)):
                for j in range(len(scs[i])):
                    s2 = [list(s) for s in scs]
                    s2[i] = s2[i][:j] + s2[i][j + 1:]
                    if attempt(dict(case, beh=dict(case['beh'], **{c: s2}))):
                        changed = True
                        break
                else:
                    continue
                break
    return best


def replay(payload, ctx):
    return check_case(payload['case'])
