"""C16 — system alignment is rigid and exact; scaling is uniform.

Proof:   coq/C16/{Model,Proofs,Proofs_unique,Heap,Heap_proofs,Property,GenProperty}.v (real numbers; the algebraic core of the model is generic over
         a record of field operations and is instantiated with R for the theorems and with Q for evaluation).
Tie (T): generate() reads the three anchored source files with `ast`, translates the numeric functions into
         Gallina (coq/C16/Gen_Code.v) and extracts the structural facts (loop shapes, optimiser call);
         coq/C16/Gen_Tie.v proves the generated definitions equal to the hand-written model.  Fail-closed.
Tie (V): the real cflib functions and the Coq model (instantiated with exact rationals, vm_compute) are run on the
         same inputs (every float is an exact rational); plus Python-side checks of the sqrt/sin/cos wrappers.
Oracle:  the property text on the real code: rigidity, exactness against ground truth / a converged reference
         optimum, de-flipping, uniform scaling, both scale factors, inputs unchanged.
"""
import ast
import copy
import math
import os
from fractions import Fraction

from core import coqrun

ID = 'C16'
PROPERTY_FILE = 'C16/Property.v'
PROPERTY_FILES = ['C16/Property.v', 'C16/GenProperty.v']
PROPERTY_FILES_NO_GEN = ['C16/Property.v']     # checked even when the translator fails closed
LEVEL = 'other'
ALLOWED_AXIOMS = coqrun.REAL_AXIOMS

TRUSTED_BASE = [
    'C16/Model.v: hand-written from lighthouse_system_aligner.py, lighthouse_system_scaler.py and Pose in '
    'lighthouse_types.py; tied on every run by (T) an ast translator that regenerates Gen_Code.v from the current '
    'sources, with Gen_Tie.v proving the generated functions equal to the model, and (V) evaluation of the same '
    'Gallina definitions over exact rationals against the real functions',
    'Coq.Reals axioms (sig_forall_dec, sig_not_dec, functional_extensionality_dep, classic): standard library only',
    'numpy float arithmetic is taken to approximate real arithmetic (tie tolerance 1e-9, observed < 1e-13); '
    'scipy Rotation.from_rotvec(v).as_matrix() is taken to be the Rodrigues rotation (checked numerically on every run)',
    'scipy.optimize.least_squares is NOT modelled: the theorems quantify over every value it may return',
]
ASSUMPTIONS = [
    'x_axis and xy_plane are non-empty lists of 3-vectors, base-station rotation matrices are proper rotations',
    'theorems are over R; floating-point rounding is outside the theorems (bounded empirically by the tie/oracle tolerances)',
    'exactness theorems assume the optimiser returned a zero-residual answer; convergence itself is sampled only',
]
PROVED = (
    'For every value the optimiser may return: align applies ONE proper rigid transformation (Rodrigues rotation '
    'composed with at most two exact half turns) to every base station, keeping keys and order; pairwise distances '
    'and relative orientations are preserved; it raises exactly for an empty base-station dict. The de-flip step '
    'yields X>=0 for the x-axis mean and Z>=0 for the first base station and never undoes itself. The residual is '
    'zero iff origin->0, x-axis samples on the X axis, plane samples in Z=0; the cost is invariant under the two '
    'half turns; with a zero-residual answer the final transformation is aligned, and given a ground truth with '
    'positive x samples, a plane sample off the X axis and the first base station above the floor it IS the inverse '
    'of the misalignment (uniqueness). Scaling multiplies every translation by one factor and keeps rotations; the '
    'fixed-point factor puts the reference at the expected distance; the diagonal factor makes the recomputed mean '
    'sensor diagonal equal to the expected one; neither operation changes any object reachable from its inputs '
    '(heap model of copy.copy + attribute rebinding), also when the inputs share Pose instances or arrays: every position gets its '
    'own copy, scaled exactly once. Chains align -> scale -> align on the outputs of the previous step equal the composition '
    'of the value-level functions (a cached-matrix variant that scaling does not invalidate is refuted).')
NOT_PROVED = (
    'That scipy.optimize.least_squares started from zero reaches the zero residual within its evaluation budget for '
    'every misalignment below 30 degrees / 3 m (the convergence clause): validated by sampling against ground truth '
    'and against an independently converged optimum. Floating-point rounding. The behaviour for empty sample lists '
    '(numpy yields NaN, the model is stated for non-empty lists).')
EXPLANATION = 'partial: all algebraic clauses proved for every optimiser answer; optimiser convergence sampled'

TOL_TIE = 1e-9          # model (exact rationals) vs implementation (floats): observed < 1e-13
TOL_RIGID = 1e-9        # distances / relative rotations before vs after: observed < 1e-14
TOL_SMALL = 1e-6        # boundary-scale (tiny / zero misalignment) cases: observed error see design.d/C16.md
TOL_EXACT = 1e-5        # aligned result vs ground truth / converged reference: observed <= 3.2e-8 when converged
FIX = 44                # model values are printed as floor(q * 2^44)


# ------------------------------------------------------------------------------------------------ cflib access
def _cf():
    from cflib.localization.lighthouse_system_aligner import LighthouseSystemAligner
    from cflib.localization.lighthouse_system_scaler import LighthouseSystemScaler
    from cflib.localization.lighthouse_types import Pose, LhCfPoseSample
    from cflib.localization.lighthouse_bs_vector import LighthouseBsVector, LighthouseBsVectors
    return LighthouseSystemAligner, LighthouseSystemScaler, Pose, LhCfPoseSample, LighthouseBsVector, LighthouseBsVectors


def _np():
    import numpy as np
    return np


# ------------------------------------------------------------------------------------------------ generators
def _unit(rng):
    while True:
        v = [rng.gauss(0, 1) for _ in range(3)]
        n = math.sqrt(sum(x * x for x in v))
        if n > 1e-3:
            return [x / n for x in v]


def _rodrigues(rv):
    """Python transcription of Model.from_rotvec (used for generation and for the wrapper check)."""
    th = math.sqrt(rv[0] * rv[0] + rv[1] * rv[1] + rv[2] * rv[2])
    if th == 0:
        return [[1.0, 0.0, 0.0], [0.0, 1.0, 0.0], [0.0, 0.0, 1.0]]
    ux, uy, uz = rv[0] / th, rv[1] / th, rv[2] / th
    s, c = math.sin(th), math.cos(th)
    k = 1 - c
    return [[c + k * ux * ux, k * ux * uy - s * uz, k * ux * uz + s * uy],
            [k * ux * uy + s * uz, c + k * uy * uy, k * uy * uz - s * ux],
            [k * ux * uz - s * uy, k * uy * uz + s * ux, c + k * uz * uz]]


def _rand_rot(rng, max_angle=math.pi):
    u = _unit(rng)
    a = rng.uniform(0, max_angle)
    return _rodrigues([u[0] * a, u[1] * a, u[2] * a])


def _mv(m, v):
    return [sum(m[i][j] * v[j] for j in range(3)) for i in range(3)]


def _mm(a, b):
    return [[sum(a[i][k] * b[k][j] for k in range(3)) for j in range(3)] for i in range(3)]


def _tr(m):
    return [[m[j][i] for j in range(3)] for i in range(3)]


def _add(a, b):
    return [a[i] + b[i] for i in range(3)]


def gen_align_case(rng, max_deg=30.0, noise=None, flip=False, wide=False, hard=False, small=False, counts=None):
    """A solved system seen from a misaligned frame.  Ground truth lives in the desired frame: origin at 0,
    x-axis samples (a,0,0) a in [0.3,3], plane samples (b,c,0) with |c| >= 0.3 (well conditioned), base stations
    above the floor.  The inputs to align() are the images under the misalignment M (rotation < max_deg, |t| <= 3 m),
    optionally with bounded noise on the samples."""
    if wide:       # any misalignment, possibly mirrored: only rigidity, input preservation and de-flipping are checked
        max_deg, flip = 180.0, rng.random() < 0.5
    if noise is None:
        noise = rng.choice([0.0, 0.0, 0.001, 0.003])
    # hard: the outer third of the property's range (all known non-convergence witnesses have > 16 degrees)
    ang = math.radians(rng.uniform(max_deg * 2.0 / 3.0 if hard else 0.0, max_deg))
    u = _unit(rng)
    d = _unit(rng)
    tl = rng.uniform(2.0 if hard else 0.0, 3.0)
    scale = None
    if small:
        # boundary scale: rotation log-uniform in [1e-6, 30] degrees, translation log-uniform in [1e-9, 3] m, either or both
        # exactly zero, about/along a single coordinate axis or a random direction; noise-free, checked at TOL_SMALL
        noise = 0.0
        mode = rng.choice(['combined', 'combined', 'rot_only', 'trans_only', 'axis', 'axis', 'zero'])
        ang = math.radians(10.0 ** rng.uniform(-6.0, math.log10(30.0)))
        tl = 10.0 ** rng.uniform(-9.0, math.log10(3.0))
        if mode == 'axis':
            u = [[1.0, 0.0, 0.0], [0.0, 1.0, 0.0], [0.0, 0.0, 1.0]][rng.randrange(3)]
            d = [[1.0, 0.0, 0.0], [0.0, 1.0, 0.0], [0.0, 0.0, 1.0]][rng.randrange(3)]
            which = rng.choice(['rot', 'trans', 'both'])
            ang, tl = (ang if which != 'trans' else 0.0), (tl if which != 'rot' else 0.0)
        elif mode == 'rot_only':
            tl = 0.0
        elif mode == 'trans_only':
            ang = 0.0
        elif mode == 'zero':
            ang, tl = 0.0, 0.0
        scale = {'mode': mode, 'angle_deg': math.degrees(ang), 'translation_m': tl}
    MR = _rodrigues([u[0] * ang, u[1] * ang, u[2] * ang])
    if flip:      # outside the property's range: exercises the de-flip branches (tie only)
        MR = _mm(MR, rng.choice([[[-1, 0, 0], [0, -1, 0], [0, 0, 1]], [[1, 0, 0], [0, -1, 0], [0, 0, -1]],
                                 [[-1, 0, 0], [0, 1, 0], [0, 0, -1]]]))
    Mt = [d[0] * tl, d[1] * tl, d[2] * tl]

    def nz():
        return [rng.uniform(-noise, noise) for _ in range(3)] if noise else [0.0, 0.0, 0.0]

    def img(p):
        return _add(_mv(MR, _add(p, nz())), Mt)

    nx, npl, nb = rng.randint(1, 4), rng.randint(1, 4), rng.randint(1, 4)
    if counts:
        nx, npl = counts
    origin = img([0.0, 0.0, 0.0])
    x_axis = [img([rng.uniform(0.3, 3.0), 0.0, 0.0]) for _ in range(nx)]
    plane = [img([rng.uniform(-3.0, 3.0), rng.uniform(0.3, 3.0) * rng.choice([-1, 1]), 0.0]) for _ in range(npl)]
    truth, bs = [], []
    for bid in rng.sample(range(16), nb):
        R = _rand_rot(rng)
        t = [rng.uniform(-4, 4), rng.uniform(-4, 4), rng.uniform(0.1 if wide else 0.5, 3.0)]
        truth.append([bid, R, t])
        bs.append([bid, _mm(MR, R), _add(_mv(MR, t), Mt)])
    bs_same = list(range(len(bs)))
    if rng.random() < 0.2:      # two base-station ids sharing ONE Pose instance (placeholder pose)
        j = rng.randrange(len(bs))
        nid = rng.choice([b for b in range(16) if b not in [x[0] for x in bs]])
        bs.append([nid, copy.deepcopy(bs[j][1]), list(bs[j][2])])
        truth.append([nid, copy.deepcopy(truth[j][1]), list(truth[j][2])])
        bs_same.append(bs_same[j])
    MRt = _tr(MR)
    return {'kind': 'align', 'bs_same': bs_same, 'small': scale, 'angle_deg': math.degrees(ang), 'noise': noise, 'origin': origin, 'x_axis': x_axis,
            'xy_plane': plane, 'bs': bs, 'truth_bs': truth,
            'truth_T': [MRt, [-x for x in _mv(MRt, Mt)]], 'flip': bool(flip), 'wide': bool(wide),
            'container': [_pick_kind(rng, exact=bool(small)) for _ in range(3)], 'pose_readonly': rng.random() < 0.3}


def gen_scale_case(rng):
    nb, nc = rng.randint(1, 4), rng.randint(0, 5)
    bs = [[bid, _rand_rot(rng), [rng.uniform(-5, 5) for _ in range(3)]] for bid in rng.sample(range(16), nb)]
    cf = [[_rand_rot(rng), [rng.uniform(-3, 3) for _ in range(3)]] for _ in range(nc)]
    expected = [rng.uniform(-3, 3) for _ in range(3)]
    actual = [_rand_rot(rng), [rng.uniform(-3, 3) for _ in range(3)]]
    if rng.random() < 0.2:
        k = rng.choice([1e-3, 1e3, 0.5, 2.0])
        actual[1] = [x * k for x in actual[1]]
    # representation of every translation: float64, Python ints (tuple / list), int64 / int32 arrays (whole-number
    # positions), float32 arrays; mixed within one system; the factor |expected| / |actual| is never integral
    bs_tk = []
    for b in bs:
        tk = rng.choice(T_KINDS) if rng.random() < 0.5 else 'f64'
        b[2] = _typed_t(rng, b[2], tk)
        bs_tk.append(tk)
    for P in cf + [actual]:
        tk = rng.choice(T_KINDS) if rng.random() < 0.5 else 'f64'
        P[1] = _typed_t(rng, P[1], tk)
        P.append(tk)
    case = {}
    if rng.random() < 0.5:
        # shared references: one Pose instance at several list positions / under several base-station ids, the `actual`
        # pose being one of cf_poses, one ndarray object used as the translation of two different Pose instances
        cf_same, bs_same = list(range(len(cf))), list(range(len(bs)))
        if rng.random() < 0.7:
            _alias(rng, cf, cf_same)
        if rng.random() < 0.5:
            j = rng.randrange(len(bs))
            free = [b for b in range(16) if b not in [x[0] for x in bs]]
            bs.append([rng.choice(free), copy.deepcopy(bs[j][1]), list(bs[j][2])])
            bs_same.append(bs_same[j])
            bs_tk.append(bs_tk[j])
        case = {'cf_same': cf_same, 'bs_same': bs_same}
        if cf and rng.random() < 0.5:
            k = rng.randrange(len(cf))
            actual = copy.deepcopy(cf[k])
            case['actual_is_cf'] = k
        groups = sorted(set(cf_same))
        if len(groups) >= 2 and rng.random() < 0.5:
            g1, g2 = rng.sample(groups, 2)
            i, j = cf_same.index(g1), cf_same.index(g2)
            for p in range(len(cf)):
                if cf_same[p] == g2:
                    cf[p][1:] = copy.deepcopy(cf[i][1:])
            if case.get('actual_is_cf') is not None and cf_same[case['actual_is_cf']] == g2:
                actual[1:] = copy.deepcopy(cf[i][1:])
            case['share_t'] = [i, j]
    return {'kind': 'scale_fixed', 'bs': bs, 'cf': cf, 'expected': expected, 'actual': actual, 'bs_tk': bs_tk,
            'direct_factor': rng.choice([1.25, 0.75, 2.5, 0.3, 1.0000001]), **case,
            'container': _pick_kind(rng), 'seq': rng.choice(['list', 'tuple']), 'pose_readonly': rng.random() < 0.3}


DECK = [(-0.015, 0.0075, 0.0), (-0.015, -0.0075, 0.0), (0.015, 0.0075, 0.0), (0.015, -0.0075, 0.0)]
DECK_DIAG = math.sqrt(0.03 ** 2 + 0.015 ** 2)


def _tilted_rot(rng, min_tilt_deg, max_tilt_deg):
    """Crazyflie attitude: any yaw, then roll/pitch: the deck normal is `tilt` degrees off the vertical."""
    yaw = rng.uniform(-math.pi, math.pi)
    tilt = math.radians(rng.uniform(min_tilt_deg, max_tilt_deg))
    az = rng.uniform(-math.pi, math.pi)
    Rz = [[math.cos(yaw), -math.sin(yaw), 0.0], [math.sin(yaw), math.cos(yaw), 0.0], [0.0, 0.0, 1.0]]
    return _mm(Rz, _rodrigues([tilt * math.cos(az), tilt * math.sin(az), 0.0])), math.degrees(tilt)


LIB_DIAGONAL = 'LhDeck4SensorPositions.diagonal_distance'


def gen_diag_case(rng, lib_constant=False):
    """True geometry (base stations looking roughly at the flight volume, Crazyflie samples with any yaw and roll/pitch
    up to 30 degrees; the FIRST sample of every case is tilted by 10..30 degrees, about a fifth of the others lie flat),
    exact rays to the four deck sensors; the system handed to scale_diagonals is the truth shrunk/grown by 1/s.
    lib_constant: the expected diagonal is the library's own constant instead of the physical sqrt(30^2+15^2) mm."""
    nb, nc = rng.randint(1, 3), rng.randint(1, 4)
    s = rng.uniform(0.3, 3.0)
    bs = []
    for bid in rng.sample(range(16), nb):
        pos = [rng.uniform(-3, 3), rng.uniform(-3, 3), rng.uniform(1.5, 3.0)]
        # x axis of the base station points towards the origin region, random roll
        tgt = [rng.uniform(-0.5, 0.5), rng.uniform(-0.5, 0.5), rng.uniform(0.0, 0.5)]
        x = [tgt[i] - pos[i] for i in range(3)]
        n = math.sqrt(sum(v * v for v in x))
        x = [v / n for v in x]
        up = _unit(rng)
        y = [up[1] * x[2] - up[2] * x[1], up[2] * x[0] - up[0] * x[2], up[0] * x[1] - up[1] * x[0]]
        n = math.sqrt(sum(v * v for v in y))
        if n < 0.2:
            y = [-x[1], x[0], 0.0]
            n = math.sqrt(sum(v * v for v in y))
        y = [v / n for v in y]
        zz = [x[1] * y[2] - x[2] * y[1], x[2] * y[0] - x[0] * y[2], x[0] * y[1] - x[1] * y[0]]
        R = [[x[0], y[0], zz[0]], [x[1], y[1], zz[1]], [x[2], y[2], zz[2]]]
        bs.append([bid, R, pos])
    cf, samples, tilts = [], [], []
    ci = 0
    while ci < nc:
        Rc, tilt = _tilted_rot(rng, 10.0, 30.0) if ci == 0 else (_tilted_rot(rng, 0.0, 0.0) if rng.random() < 0.2
                                                                  else _tilted_rot(rng, 0.0, 30.0))
        tc = [rng.uniform(-1, 1), rng.uniform(-1, 1), rng.uniform(0.0, 1.0)]
        normal = [Rc[0][2], Rc[1][2], Rc[2][2]]
        seen = {}
        for bid, R, pos in bs:
            if len(bs) > 1 and rng.random() < 0.25 and seen:
                continue
            # well conditioned only: rays are float32 in the library, a ray grazing the deck plane (more than 60 degrees
            # off the deck normal) amplifies that rounding; such a base station is treated as not seen in this sample
            d = [tc[i] - pos[i] for i in range(3)]
            dn = math.sqrt(sum(v * v for v in d))
            if abs(sum(d[i] * normal[i] for i in range(3))) < 0.5 * dn:
                continue
            rays = []
            for sp in DECK:
                w = _add(_mv(Rc, list(sp)), tc)
                rays.append(_mv(_tr(R), [w[i] - pos[i] for i in range(3)]))
            seen[bid] = rays
        if not seen:
            continue
        tilts.append(tilt)
        cf.append([Rc, tc])
        samples.append(seen)
        ci += 1
    cf_same = list(range(len(cf)))
    if rng.random() < 0.4:      # a Crazyflie sampled repeatedly at one spot: the same Pose instance at several positions
        for _ in range(rng.randint(1, 2)):
            j = rng.randrange(len(cf))
            pos = rng.randint(0, len(cf))
            cf.insert(pos, copy.deepcopy(cf[j]))
            samples.insert(pos, copy.deepcopy(samples[j]))
            tilts.insert(pos, tilts[j])
            cf_same.insert(pos, cf_same[j])
    # samples WITHOUT base-station angles (empty angles_calibrated), each with its own, different Crazyflie pose: at the
    # front, in the middle, at the end, several of them; they contribute no diagonal but are scaled like everything else
    empty_at = []
    if rng.random() < 0.5:
        for where in rng.sample(['front', 'middle', 'end', 'middle'], rng.randint(1, 3)):
            pos = {'front': 0, 'end': len(cf), 'middle': rng.randint(0, len(cf))}[where]
            Rc, tilt = _tilted_rot(rng, 0.0, 30.0)
            cf.insert(pos, [Rc, [rng.uniform(-1, 1), rng.uniform(-1, 1), rng.uniform(0.0, 1.0)]])
            samples.insert(pos, {})
            tilts.insert(pos, tilt)
            cf_same.insert(pos, max(cf_same) + 1)
        empty_at = [i for i, smp in enumerate(samples) if not smp]
    inv = 1.0 / s
    return {'kind': 'scale_diag', 'empty_at': empty_at, 'cf_same': cf_same, 'factor': s, 'expected_diagonal': LIB_DIAGONAL if lib_constant else DECK_DIAG,
            'tilt_deg': tilts, 'seq': rng.choice(['list', 'tuple']), 'pose_readonly': rng.random() < 0.3,
            'bs': [[b, R, [v * inv for v in t]] for b, R, t in bs],
            'cf': [[R, [v * inv for v in t]] for R, t in cf],
            'samples': [{str(k): v for k, v in smp.items()} for smp in samples],
            'truth_bs': bs, 'truth_cf': cf}


# ------------------------------------------------------------------------------------------------ running the code
T_KINDS = ['f64', 'pyint_tuple', 'pyint_list', 'i64', 'i32', 'f32']     # how a caller may write a translation
INT_T_KINDS = ('pyint_tuple', 'pyint_list', 'i64', 'i32')


def _tvec(t, tk):
    """The translation argument of Pose(...) in the given representation (Pose.__init__ keeps the dtype: np.array)."""
    np = _np()
    if tk in (None, 'f64'):
        return np.array(t, dtype=float)
    if tk == 'pyint_tuple':
        return tuple(int(x) for x in t)
    if tk == 'pyint_list':
        return [int(x) for x in t]
    if tk == 'i64':
        return np.array([int(x) for x in t], dtype=np.int64)
    if tk == 'i32':
        return np.array([int(x) for x in t], dtype=np.int32)
    if tk == 'f32':
        return np.array(t, dtype=np.float32)
    raise ValueError(tk)


def _typed_t(rng, t, tk):
    """Values representable in the given kind: whole numbers (not all zero) for the integer kinds, float32 values for f32."""
    import struct
    if tk in INT_T_KINDS:
        while True:
            v = [float(rng.randint(-5, 5)) for _ in range(3)]
            if any(v):
                return v
    if tk == 'f32':
        return [struct.unpack('<f', struct.pack('<f', x))[0] for x in t]
    return t


def _pose(P, tk=None):
    """P = [R, t] or [R, t, kind of the translation]"""
    Pose = _cf()[2]
    np = _np()
    if tk is None and len(P) > 2:
        tk = P[2]
    return Pose(np.array(P[0], dtype=float), _tvec(P[1], tk))


def _poses(vals, same=None):
    """Pose objects for a list of [R, t] values; positions with the same group id in `same` are ONE Pose instance."""
    objs, out = {}, []
    for i, P in enumerate(vals):
        g = same[i] if same else i
        if g not in objs:
            objs[g] = _pose(P)
        out.append(objs[g])
    return out


def _bsdict(bs, same=None, tks=None):
    ps = _poses([[R, t] + ([tks[i]] if tks else []) for i, (_, R, t) in enumerate(bs)], same)
    return {int(b): p for (b, _, _), p in zip(bs, ps)}


def _alias(rng, vals, same, n_max=2):
    """Insert up to n_max repeated references (same group id, same value) at random positions."""
    for _ in range(rng.randint(1, n_max)):
        if not vals:
            return
        j = rng.randrange(len(vals))
        pos = rng.randint(0, len(vals))
        v, g = copy.deepcopy(vals[j]), same[j]
        vals.insert(pos, v)
        same.insert(pos, g)


def _snap1(o):
    """Deep snapshot of one input: identity, type, order, dtype/shape/strides/flags and bytes (also of the base array
    of a view)."""
    np = _np()
    if isinstance(o, np.ndarray):
        b = o.base
        return ('nd', id(o), o.dtype.str, o.shape, o.strides, bool(o.flags.writeable), o.tobytes(),
                (id(b), b.tobytes()) if isinstance(b, np.ndarray) else None)
    if hasattr(o, '_t_vec') and hasattr(o, '_R_matrix'):
        return ('pose', id(o), _snap1(o._R_matrix), _snap1(o._t_vec))
    if isinstance(o, dict):
        return ('dict', id(o), [(k, _snap1(v)) for k, v in o.items()])
    if isinstance(o, (list, tuple)):
        return (type(o).__name__, id(o), [_snap1(v) for v in o])
    if hasattr(o, 'angles_calibrated'):
        return ('sample', id(o), repr(o.timestamp), _snap1(o.angles_calibrated))
    if hasattr(o, '_lh_v1_horiz_angle'):
        return ('bsvector', id(o), repr(o._lh_v1_horiz_angle), repr(o._lh_v1_vert_angle))
    return ('value', type(o).__name__, repr(o))


def _snap(objs):
    return [_snap1(o) for o in objs]


# every container kind a caller may reasonably hand over for points / lists of points
KINDS = ['arrays', 'lists', 'tuples', 'f64', 'view', 'readonly', 'f32', 'int']
KIND_WEIGHTS = [4, 2, 2, 4, 3, 3, 2, 1]


def _box(pts, kind, single=False):
    """pts: one 3-list (single) or a list of 3-lists, packed as the given container kind.
    arrays: (list of) 1-D float64 arrays; lists / tuples: plain Python; f64: one float64 ndarray (2-D for lists of points);
    view: a non-contiguous view into a larger float64 array; readonly: float64 ndarray with writeable=False;
    f32: float32 ndarray; int: int64 ndarray of the rounded coordinates."""
    np = _np()
    if kind == 'arrays':
        return np.array(pts, dtype=float) if single else [np.array(p, dtype=float) for p in pts]
    if kind == 'lists':
        return [float(x) for x in pts] if single else [[float(x) for x in p] for p in pts]
    if kind == 'tuples':
        return tuple(float(x) for x in pts) if single else tuple(tuple(float(x) for x in p) for p in pts)
    a = np.array(pts, dtype=float)
    if kind == 'f64':
        return a
    if kind == 'view':
        if single:
            big = np.full((9,), 77.0)
            big[1:7:2] = a
            return big[1:7:2]
        big = np.full((a.shape[0] + 2, 5), 77.0)
        big[1:-1, 1:4] = a
        return big[1:-1, 1:4]
    if kind == 'readonly':
        a.setflags(write=False)
        return a
    if kind == 'f32':
        return a.astype(np.float32)
    if kind == 'int':
        return np.rint(a).astype(np.int64)
    raise ValueError(kind)


def _pick_kind(rng, exact=False):
    """exact: only containers that keep the float64 values (boundary-scale cases are checked at 1e-6)"""
    while True:
        k = rng.choices(KINDS, weights=KIND_WEIGHTS)[0]
        if not (exact and k in ('f32', 'int')):
            return k


def _freeze(poses):
    """Make the arrays inside Pose objects read-only: any in-place write by the code under test raises."""
    for p in poses:
        p._R_matrix.setflags(write=False)
        p._t_vec.setflags(write=False)


def _readonly_write(e):
    return isinstance(e, ValueError) and 'read-only' in str(e)


class _Spy:
    """Records what scipy.optimize.least_squares returned inside the aligner (status 0 = stopped by max_nfev)."""

    def __enter__(self):
        import scipy.optimize
        self.mod = scipy.optimize
        self.orig = scipy.optimize.least_squares
        self.calls = []

        def spy(*a, **k):
            r = self.orig(*a, **k)
            self.calls.append({'status': int(r.status), 'nfev': int(r.nfev), 'cost': float(r.cost),
                               'max_nfev': k.get('max_nfev')})
            return r
        scipy.optimize.least_squares = spy
        return self

    def __exit__(self, *exc):
        self.mod.least_squares = self.orig
        return False


def _ref_residual(x, origin, x_axis, plane):
    """The property text as a residual, written independently of _calc_residual."""
    np = _np()
    R = np.array(_rodrigues([float(x[0]), float(x[1]), float(x[2])]))
    t = x[3:6]
    out = list(R @ origin + t)
    for p in x_axis:
        q = R @ p + t
        out += [q[1], q[2]]
    for p in plane:
        out.append((R @ p + t)[2])
    return np.array(out)


def _reference_T(case):
    """Converged least-squares optimum started at the ground-truth transformation (independent optimiser budget)."""
    import scipy.optimize
    from scipy.spatial.transform import Rotation
    np = _np()
    R0, t0 = np.array(case['truth_T'][0]), np.array(case['truth_T'][1])
    if not case.get('noise'):
        return R0, t0
    x0 = np.concatenate((Rotation.from_matrix(R0).as_rotvec(), t0))
    o = np.array(case['origin'])
    xa = [np.array(p) for p in case['x_axis']]
    pl = [np.array(p) for p in case['xy_plane']]
    r = scipy.optimize.least_squares(_ref_residual, x0, xtol=1e-15, ftol=1e-15, gtol=1e-15, method='trf',
                                     max_nfev=2000, args=(o, xa, pl))
    return np.array(_rodrigues(list(r.x[:3]))), np.array(r.x[3:6])


REUSABLE_KINDS = ['arrays', 'lists', 'f64', 'view']       # containers that can be refilled in place


def _refill(box, kind, vals, single=False):
    """Overwrite the CONTENTS of an existing container (same object, same length) with new points."""
    np = _np()
    if kind in ('f64', 'view') or (kind == 'arrays' and single):
        box[...] = np.array(vals, dtype=float)
    elif single:
        box[:] = [float(x) for x in vals]
    elif kind == 'arrays':
        for i, v in enumerate(vals):
            if i % 2:
                box[i] = np.array(v, dtype=float)          # element replaced, list object kept
            else:
                box[i][...] = np.array(v, dtype=float)     # element refilled in place
    else:
        for i, v in enumerate(vals):
            box[i][:] = [float(x) for x in v]


def gen_history_case(rng):
    """2-4 align() calls; 'P' steps pass the SAME persistent containers (origin, x_axis, xy_plane objects and the bs_poses
    dict), refilled in place with that step's new layout, 'F' steps pass fresh containers; at least two consecutive 'P'."""
    while True:
        pattern = [rng.choice('PF') for _ in range(rng.randint(2, 4))]
        if any(a == 'P' and b == 'P' for a, b in zip(pattern, pattern[1:])):
            break
    counts = (rng.randint(1, 4), rng.randint(1, 4))
    steps = [gen_align_case(rng, counts=counts, small=(rng.random() < 0.2)) for _ in pattern]
    return {'kind': 'align_history', 'pattern': ''.join(pattern), 'steps': steps, 'bs': steps[0]['bs'],
            'container': [rng.choice(REUSABLE_KINDS) for _ in range(3)]}


def check_align_history(case):
    """align is a function of the CURRENT contents of its arguments: every call of the history is judged against the
    layout handed over in that call, whatever was passed before and whether or not the container objects are reused."""
    kinds = case['container']
    boxed = None
    for k, (how, step) in enumerate(zip(case['pattern'], case['steps'])):
        if how == 'F':
            f = check_align(step)
        else:
            step = dict(step, container=kinds, pose_readonly=False)
            if boxed is None:
                boxed = [_box(step['origin'], kinds[0], single=True), _box(step['x_axis'], kinds[1]),
                         _box(step['xy_plane'], kinds[2]), {}]
            else:
                _refill(boxed[0], kinds[0], step['origin'], single=True)
                _refill(boxed[1], kinds[1], step['x_axis'])
                _refill(boxed[2], kinds[2], step['xy_plane'])
            boxed[3].clear()
            boxed[3].update(_bsdict(step['bs'], step.get('bs_same')))
            f = check_align(step, boxed=boxed)
        if f:
            reused = how == 'P' and 'P' in case['pattern'][:k]
            return {'class': 'align_depends_on_previous_call' if reused else f['class'], 'case': case,
                    'expected': f.get('expected'), 'observed': f.get('observed'),
                    'detail': 'call %d of the history %s (%s containers%s) fails: %s' % (
                        k + 1, case['pattern'], 'persistent, refilled in place' if how == 'P' else 'fresh',
                        ', kinds %s' % kinds if how == 'P' else '', f['class'])}
    return None


def check_align(case, boxed=None):
    """Property text on the real align(); returns a failure dict or None.  boxed: argument objects to pass (history
    cases reuse them across calls); otherwise built from the case."""
    np = _np()
    A = _cf()[0]
    kinds = case.get('container') or ['arrays', 'arrays', 'arrays']
    if boxed is not None:
        in_origin, in_x, in_plane, bs = boxed
    else:
        in_origin = _box(case['origin'], kinds[0], single=True)
        in_x = _box(case['x_axis'], kinds[1])
        in_plane = _box(case['xy_plane'], kinds[2])
        bs = _bsdict(case['bs'], case.get('bs_same'))
    if case.get('pose_readonly'):
        _freeze(bs.values())
    # the values actually handed over (float32 / int containers round them), taken before the call
    origin = np.array(in_origin, dtype=float)
    x_axis = [np.array(p, dtype=float) for p in in_x]
    plane = [np.array(p, dtype=float) for p in in_plane]
    if 'int' in kinds:          # rounded to whole metres: rigidity, input preservation and de-flipping only
        case = dict(case, wide=True)
    elif 'f32' in kinds:        # rounded to float32: exact against the converged optimum of the rounded samples
        case = dict(case, origin=origin.tolist(), x_axis=[p.tolist() for p in x_axis],
                    xy_plane=[p.tolist() for p in plane], noise=case.get('noise') or 1e-7)
    args = [in_origin, in_x, in_plane, bs]
    before = _snap(args)
    with _Spy() as spy:
        try:
            res, T = A.align(in_origin, in_x, in_plane, bs)
        except Exception as e:  # noqa
            if _readonly_write(e):
                return {'class': 'align_modifies_inputs', 'case': case, 'expected': 'inputs unchanged',
                        'observed': 'in-place write to a read-only input: %r' % (e,)}
            return {'class': 'align_raises', 'case': case, 'expected': 'aligned poses', 'observed': repr(e)}
    if _snap(args) != before:
        return {'class': 'align_modifies_inputs', 'case': case, 'expected': 'inputs bit-identical after the call',
                'observed': 'an input changed (containers: origin=%s, x_axis=%s, xy_plane=%s)' % tuple(kinds)}
    keys = list(bs.keys())
    if list(res.keys()) != keys:
        return {'class': 'align_keys_changed', 'case': case, 'expected': keys, 'observed': list(res.keys())}
    if any(res[k] is bs[k] or res[k]._t_vec is bs[k]._t_vec or res[k]._R_matrix is bs[k]._R_matrix for k in keys):
        return {'class': 'align_result_aliases_input', 'case': case, 'expected': 'fresh poses', 'observed': 'aliased'}
    if len({id(res[k]) for k in keys}) != len(keys):
        return {'class': 'align_outputs_aliased', 'case': case, 'expected': 'one fresh pose per base station',
                'observed': 'two ids share one result object'}
    # ---- one proper rigid transformation for all: distances, relative rotations, T itself
    TR, Tt = np.array(T.rot_matrix), np.array(T.translation)
    worst = max(np.abs(TR.T @ TR - np.eye(3)).max(), abs(np.linalg.det(TR) - 1.0))
    for k in keys:
        worst = max(worst, np.abs(res[k].rot_matrix - TR @ bs[k].rot_matrix).max(),
                    np.abs(res[k].translation - (TR @ bs[k].translation + Tt)).max() / (1 + np.abs(Tt).max()))
        for j in keys:
            d0 = np.linalg.norm(bs[k].translation - bs[j].translation)
            d1 = np.linalg.norm(res[k].translation - res[j].translation)
            r0 = bs[k].rot_matrix.T @ bs[j].rot_matrix
            r1 = res[k].rot_matrix.T @ res[j].rot_matrix
            worst = max(worst, abs(d0 - d1) / (1 + d0), np.abs(r0 - r1).max())
    if not worst <= TOL_RIGID:
        return {'class': 'align_not_rigid', 'case': case, 'expected': 'distances/relative rotations preserved (<=%g)' % TOL_RIGID,
                'observed': float(worst)}
    xm = TR @ np.mean(x_axis, axis=0) + Tt
    if xm[0] < -1e-9 or res[keys[0]].translation[2] < -1e-9:
        return {'class': 'align_flipped_result', 'case': case, 'expected': 'x-axis mean at X>=0, first base station at Z>=0',
                'observed': [float(xm[0]), float(res[keys[0]].translation[2])]}
    if case.get('wide'):
        return None
    # ---- exact: equals the converged optimum (= ground truth when noise-free)
    RR, Rt = _reference_T(case)
    err = max(np.abs(TR - RR).max(), np.abs(Tt - Rt).max())
    detail = {'T_error': float(err)}
    if not case.get('noise'):
        for (bid, R, t) in case['truth_bs']:
            err = max(err, np.abs(res[bid].rot_matrix - np.array(R)).max(), np.abs(res[bid].translation - np.array(t)).max())
        img_o = TR @ origin + Tt
        err = max(err, np.abs(img_o).max())
        for p in x_axis:
            q = TR @ p + Tt
            err = max(err, abs(q[1]), abs(q[2]), 0.0 if q[0] > 0 else 1.0)
        for p in plane:
            err = max(err, abs((TR @ p + Tt)[2]))
        detail['ground_truth_error'] = float(err)
    tol = TOL_SMALL if case.get('small') else TOL_EXACT
    if not err <= tol:
        st = spy.calls[-1] if spy.calls else {}
        cls = 'aligner_max_nfev_reached' if st.get('status') == 0 else 'align_not_exact'
        detail['least_squares'] = st
        return {'class': cls, 'case': case, 'expected': 'error <= %g against ground truth / converged optimum' % tol,
                'observed': detail,
                'detail': 'LighthouseSystemAligner.align: misalignment %.2f deg, least_squares %s' % (case.get('angle_deg', -1), st)}
    return None


def _run_scale_fixed(case, plain=False):
    """plain: the tie's call (float64 arrays, lists); otherwise the container kinds recorded in the case."""
    S = _cf()[1]
    np = _np()
    bs = _bsdict(case['bs'], None if plain else case.get('bs_same'), case.get('bs_tk'))
    cf = _poses(case['cf'], None if plain else case.get('cf_same'))
    actual = _pose(case['actual'])
    if not plain and case.get('actual_is_cf') is not None:
        actual = cf[case['actual_is_cf']]
    if not plain and case.get('share_t'):
        i, j = case['share_t']
        cf[j]._t_vec = cf[i]._t_vec          # one ndarray object, two Pose instances
    in_expected = _box(case['expected'], 'arrays' if plain else case.get('container', 'arrays'), single=True)
    if not plain and case.get('pose_readonly'):
        _freeze(list(bs.values()) + cf + [actual])
    in_cf = tuple(cf) if (not plain and case.get('seq') == 'tuple') else cf
    expected = np.array(in_expected, dtype=float)
    args = [bs, in_cf, in_expected, actual]
    before = _snap(args)
    out = S.scale_fixed_point(bs, in_cf, in_expected, actual)
    return bs, cf, expected, actual, out, _snap(args) == before


def check_scale_fixed(case):
    np = _np()
    try:
        bs, cf, expected, actual, (bs2, cf2, f), same = _run_scale_fixed(case)
    except Exception as e:  # noqa
        if _readonly_write(e):
            return {'class': 'scale_modifies_inputs', 'case': case, 'expected': 'inputs unchanged',
                    'observed': 'in-place write to a read-only input: %r' % (e,)}
        return {'class': 'scale_raises', 'case': case, 'expected': 'scaled system', 'observed': repr(e)}
    if not same:
        return {'class': 'scale_modifies_inputs', 'case': case, 'expected': 'inputs unchanged', 'observed': 'changed'}
    if list(bs2.keys()) != list(bs.keys()) or len(cf2) != len(cf):
        return {'class': 'scale_shape_changed', 'case': case, 'expected': list(bs.keys()), 'observed': list(bs2.keys())}
    f = float(f)
    worst = 0.0
    for a, b in [(bs[k], bs2[k]) for k in bs] + list(zip(cf, cf2)):
        if a is b or a._t_vec is b._t_vec:
            return {'class': 'scale_result_aliases_input', 'case': case, 'expected': 'fresh poses', 'observed': 'aliased'}
        if np.array(a.rot_matrix).tobytes() != np.array(b.rot_matrix).tobytes():
            return {'class': 'scale_changes_rotation', 'case': case, 'expected': 'rotation unchanged', 'observed': 'changed'}
        # real multiplication whatever the representation of the input translation (Python ints, int32/int64, float32,
        # float64); a float32 translation stays float32 in numpy: 6e-8 relative, tolerance 1e-6; otherwise 1e-12
        t_in = np.asarray(a.translation, dtype=np.float64)
        t_tol = 1e-6 if np.asarray(a.translation).dtype == np.float32 else 1e-12
        dev = np.abs(np.asarray(b.translation, dtype=np.float64) - f * t_in).max() / (1e-300 + abs(f) * (1 + np.abs(t_in).max()))
        if dev / t_tol > worst:
            worst, worst_at = dev / t_tol, {'input_translation': t_in.tolist(), 'input_dtype': str(np.asarray(a.translation).dtype),
                                            'factor': f, 'output_translation': np.asarray(b.translation, dtype=float).tolist()}
    if not worst <= 1.0:
        return {'class': 'scale_not_uniform', 'case': case, 'expected': 'every translation times the returned factor',
                'observed': worst_at,
                'detail': 'scale_fixed_point: output translation %s is not factor %.6g * input translation %s (dtype %s); shared '
                          'references: cf_same=%s bs_same=%s actual_is_cf=%s share_t=%s' % (
                              worst_at['output_translation'], f, worst_at['input_translation'], worst_at['input_dtype'],
                              case.get('cf_same'), case.get('bs_same'), case.get('actual_is_cf'), case.get('share_t'))}
    # Pose.scale on its own, with the factor as a Python float / numpy scalar
    if case.get('direct_factor'):
        for P, tk in [([R, t], k_) for (_, R, t), k_ in zip(case['bs'], case.get('bs_tk') or [None] * len(case['bs']))][:2] \
                + [(P_, None) for P_ in case['cf'][:2]]:
            for fac in (case['direct_factor'], np.float64(case['direct_factor']), np.float32(case['direct_factor'])):
                p = _pose(P, tk)
                t0 = np.asarray(p.translation, dtype=np.float64).copy()
                single = np.asarray(p.translation).dtype == np.float32 or isinstance(fac, np.float32)
                p.scale(fac)
                want_t = float(fac) * t0
                if not np.abs(np.asarray(p.translation, dtype=np.float64) - want_t).max() <= (1e-6 if single else 1e-12) * (1 + np.abs(want_t).max()):
                    return {'class': 'scale_not_uniform', 'case': case, 'expected': want_t.tolist(),
                            'observed': np.asarray(p.translation, dtype=float).tolist(),
                            'detail': 'Pose.scale(%r) on translation %s (%s)' % (fac, t0.tolist(), tk or (P[2] if len(P) > 2 else 'f64'))}
    outs = list(bs2.values()) + list(cf2)
    if len({id(p) for p in outs}) != len(outs) or len({id(p._t_vec) for p in outs}) != len(outs):
        return {'class': 'scale_outputs_aliased', 'case': case, 'expected': 'one fresh copy per entry',
                'observed': 'two result entries are the same Pose object or share a translation array'}
    want = np.linalg.norm(expected)
    got = np.linalg.norm(actual.translation * f)
    tol = 1e-5 if (case.get('container') == 'f32' or np.asarray(actual.translation).dtype == np.float32) else 1e-9  # float32 norm
    if not abs(got - want) <= tol * (1 + want) or not f >= 0:
        return {'class': 'scale_factor_wrong', 'case': case, 'expected': float(want), 'observed': [float(got), f]}
    return None


def _diag_objects(case):
    _, S, Pose, Smp, V, Vs = _cf()
    bs = _bsdict(case['bs'])
    cf = _poses(case['cf'], case.get('cf_same'))
    samples = []
    for smp in case['samples']:
        ang = {}
        for k, rays in smp.items():
            ang[int(k)] = Vs([V.from_cart(r) for r in rays])
        samples.append(Smp(angles_calibrated=ang))
    return bs, cf, samples


def check_scale_diag(case):
    np = _np()
    S = _cf()[1]
    expected = case['expected_diagonal']
    if case.get('all_empty'):
        # OBSERVATION only (outside the property text: there is no sensor diagonal to make correct): no sample has angles.
        # HEAD: np.mean([]) = NaN (RuntimeWarning), NaN factor, every translation NaN; an exception would be as good.
        # Only the preservation of the inputs is checked.
        bs, cf, samples = _diag_objects(dict(case, samples=[{} for _ in case['samples']]))
        before = _snap([bs, cf, samples])
        try:
            S.scale_diagonals(bs, cf, samples, expected)
        except Exception:  # noqa
            pass
        if _snap([bs, cf, samples]) != before:
            return {'class': 'scale_modifies_inputs', 'case': case, 'expected': 'inputs unchanged', 'observed': 'changed'}
        return None
    lib = expected == LIB_DIAGONAL
    wrong = 'scale_factor_wrong'
    try:
        if lib:
            # the library's own statement of the deck geometry: the sensor table and the diagonal constant
            from cflib.localization.lighthouse_types import LhDeck4SensorPositions as D
            pos = np.array(D.positions, dtype=float)
            if pos.shape != (4, 3) or np.abs(pos - np.array(DECK)).max() > 1e-12:
                return {'class': 'deck_sensor_table_wrong', 'case': case, 'expected': [list(p) for p in DECK],
                        'observed': pos.tolist()}
            expected = float(D.diagonal_distance)
            if abs(expected - DECK_DIAG) > 1e-9:
                wrong = 'deck_diagonal_constant_wrong'
        bs, cf, samples = _diag_objects(case)
        if case.get('pose_readonly'):
            _freeze(list(bs.values()) + cf)
        in_cf, in_samples = (tuple(cf), tuple(samples)) if case.get('seq') == 'tuple' else (cf, samples)
        before = _snap([bs, in_cf, in_samples])
        bs2, cf2, f = S.scale_diagonals(bs, in_cf, in_samples, expected)
        same = _snap([bs, in_cf, in_samples]) == before
    except Exception as e:  # noqa
        if _readonly_write(e):
            return {'class': 'scale_modifies_inputs', 'case': case, 'expected': 'inputs unchanged',
                    'observed': 'in-place write to a read-only input: %r' % (e,)}
        return {'class': 'scale_raises', 'case': case, 'expected': 'scaled system', 'observed': repr(e)}
    if not same:
        return {'class': 'scale_modifies_inputs', 'case': case, 'expected': 'inputs unchanged', 'observed': 'changed'}
    f = float(f)
    # rays are float32 (LighthouseBsVector.cart): relative error of the factor observed < 2e-5
    if not abs(f - case['factor']) <= 2e-3 * case['factor']:
        return {'class': wrong, 'case': case, 'expected': case['factor'], 'observed': f,
                'detail': 'scale_diagonals(..., expected_diagonal=%r): factor %.6f, the factor that makes the 30 mm x 15 mm deck '
                          'diagonal correct is %.6f (sample tilts %s deg, angle-less samples at positions %s)' % (
                              expected, f, case['factor'], [round(t, 1) for t in case.get('tilt_deg', [])], case.get('empty_at'))}
    worst = 0.0
    for (bid, R, t) in case['truth_bs']:
        worst = max(worst, np.abs(bs2[bid].translation - np.array(t)).max() / (1 + np.abs(np.array(t)).max()))
        if np.array(bs2[bid].rot_matrix).tobytes() != np.array(bs[bid].rot_matrix).tobytes():
            return {'class': 'scale_changes_rotation', 'case': case, 'expected': 'rotation unchanged', 'observed': 'changed'}
    for a, b in [(bs[k], bs2[k]) for k in bs] + list(zip(cf, cf2)):
        if not np.abs(b.translation - f * a.translation).max() <= 1e-12 * abs(f) * (1 + np.abs(a.translation).max()):
            return {'class': 'scale_not_uniform', 'case': case, 'expected': 'every translation times the returned factor',
                    'observed': [b.translation.tolist(), (f * a.translation).tolist()],
                    'detail': 'scale_diagonals: output translation is not factor * input translation (cf_same=%s)' % case.get('cf_same')}
    outs = list(bs2.values()) + list(cf2)
    if len({id(p) for p in outs}) != len(outs) or len({id(p._t_vec) for p in outs}) != len(outs):
        return {'class': 'scale_outputs_aliased', 'case': case, 'expected': 'one fresh copy per entry',
                'observed': 'two result entries are the same Pose object or share a translation array'}
    for (R, t), p in zip(case['truth_cf'], cf2):
        worst = max(worst, np.abs(p.translation - np.array(t)).max() / (1 + np.abs(np.array(t)).max()))
    if not worst <= 2e-3:
        return {'class': 'scale_not_uniform', 'case': case, 'expected': 'scaled system equals the true geometry',
                'observed': float(worst)}
    # the recomputed mean diagonal in the scaled system is the expected one
    est = float(S._calculate_mean_diagonal(bs2, cf2, samples))
    if not abs(est - expected) <= 1e-9 or not abs(est - DECK_DIAG) <= 2e-3 * DECK_DIAG:
        return {'class': wrong, 'case': case, 'expected': [expected, DECK_DIAG], 'observed': est}
    # independently of the library: mean sensor diagonal of the samples that HAVE angles, each with ITS OWN scaled pose
    diags = []
    for cfp, smp in zip(cf2, samples):
        for bid, vecs in smp.angles_calibrated.items():
            for a, b in ((0, 3), (1, 2)):
                pa = _model_intersection([float(x) for x in vecs[a].cart], bs2[bid], cfp)
                pb = _model_intersection([float(x) for x in vecs[b].cart], bs2[bid], cfp)
                diags.append(math.sqrt(sum((pa[i] - pb[i]) ** 2 for i in range(3))))
    own = sum(diags) / len(diags)
    if not abs(own - expected) <= 1e-9 * max(1.0, expected / DECK_DIAG):
        return {'class': wrong, 'case': case, 'expected': expected, 'observed': own,
                'detail': 'mean sensor diagonal of the samples with angles, recomputed from the scaled system with every sample '
                          'paired with its own pose (angle-less samples at positions %s)' % case.get('empty_at')}
    return None


# ------------------------------------------------------------------------------------------------ chains on the same objects
def gen_chain_case(rng):
    """Three operations in a row on the SAME Pose objects: the outputs of one step are the inputs of the next, nothing is
    rebuilt from numbers in between.  A = align (fresh noise-free samples of a misalignment <= 30 deg), S = scale_fixed_point
    (non-trivial factor), C = compose every pose with a rigid transform, D = scale_diagonals (on a rigidly moved copy of a
    consistent ray geometry)."""
    chain = rng.choice(['ASA', 'SAS', 'CSC', 'CSC', 'CDC', 'ASC'])
    case = {'kind': 'chain', 'chain': chain}
    if chain == 'CDC':
        d = gen_diag_case(rng)
        case['diag'] = d
        case['bs'] = d['bs']
    else:
        a = gen_align_case(rng, noise=0.0)
        case['bs'] = a['bs']
        case['cf'] = [[_rand_rot(rng), [rng.uniform(-3, 3) for _ in range(3)]] for _ in range(rng.randint(0, 3))]
    case['aligns'] = [gen_align_case(rng, noise=0.0) for _ in range(chain.count('A'))]
    case['scales'] = [{'expected': [rng.uniform(0.5, 3) * rng.choice([-1, 1]) for _ in range(3)]} for _ in range(chain.count('S'))]
    case['composes'] = [[_rand_rot(rng), [rng.uniform(-3, 3) for _ in range(3)]] for _ in range(chain.count('C'))]
    return case


def check_chain(case):
    """Every step is judged against the VALUES its inputs have when the step starts (read through .rot_matrix /
    .translation before the call): result = transformation o input, scaled = factor * input, whatever happened to the
    objects before."""
    np = _np()
    A, S = _cf()[0], _cf()[1]
    tolv = 1e-9

    def val(p):
        return np.array(p.rot_matrix, dtype=float).copy(), np.array(p.translation, dtype=float).copy()

    def dev(p, R, t):
        return max(np.abs(np.array(p.rot_matrix, dtype=float) - R).max(), np.abs(np.array(p.translation, dtype=float) - t).max() / (1 + np.abs(t).max()))

    def fail(k, what, observed, expected):
        return {'class': 'chain_step_ignores_current_value', 'case': case, 'expected': expected, 'observed': observed,
                'detail': 'step %d (%s) of the chain %s on the same Pose objects: %s' % (k + 1, case['chain'][k], case['chain'], what)}

    if case['chain'] == 'CDC':
        bs, cf, samples = _diag_objects(case['diag'])
    else:
        bs = _bsdict(case['bs'])
        cf = [_pose(P) for P in case['cf']]
        samples = None
    ia = isc = ic = 0
    try:
        for k, op in enumerate(case['chain']):
            vin = {b: val(p) for b, p in bs.items()}
            cin = [val(p) for p in cf]
            if op == 'C':
                G = _pose(case['composes'][ic])
                ic += 1
                GR, Gt = val(G)
                bs = {b: G.rotate_translate_pose(p) for b, p in bs.items()}
                cf = [G.rotate_translate_pose(p) for p in cf]
                for (p, (R, t)) in [(bs[b], vin[b]) for b in bs] + list(zip(cf, cin)):
                    if not dev(p, GR @ R, GR @ t + Gt) <= tolv:
                        return fail(k, 'composed pose is not transformation o input', val(p)[1].tolist(), (GR @ t + Gt).tolist())
            elif op == 'A':
                a = case['aligns'][ia]
                ia += 1
                res, T = A.align(np.array(a['origin']), [np.array(p) for p in a['x_axis']], [np.array(p) for p in a['xy_plane']], bs)
                TR, Tt = val(T)
                # the base stations of the chain are not the ones the samples were generated with, so the half turn about X
                # (first station above the floor) is decided by the CURRENT poses: T is judged on the samples and that test
                worst = np.abs(TR @ np.array(a['origin']) + Tt).max()
                for p in a['x_axis']:
                    q = TR @ np.array(p) + Tt
                    worst = max(worst, abs(q[1]), abs(q[2]), 0.0 if q[0] > 0 else 1.0)
                for p in a['xy_plane']:
                    worst = max(worst, abs((TR @ np.array(p) + Tt)[2]))
                if not worst <= TOL_EXACT or res[list(bs.keys())[0]].translation[2] < -1e-9:
                    return fail(k, 'samples are not aligned by the returned transformation / first base station below the floor',
                                [float(worst), float(res[list(bs.keys())[0]].translation[2])], 'origin -> 0, x samples on +X, plane in Z=0')
                for b in bs:
                    R, t = vin[b]
                    if not dev(res[b], TR @ R, TR @ t + Tt) <= tolv:
                        return fail(k, 'aligned pose of base station %d is not transformation o input' % b,
                                    val(res[b])[1].tolist(), (TR @ t + Tt).tolist())
                bs = res
            elif op in 'SD':
                if op == 'S':
                    first = list(bs.values())[0]
                    expected = np.array(case['scales'][isc]['expected'])
                    isc += 1
                    want_f = np.linalg.norm(expected) / np.linalg.norm(vin[list(bs.keys())[0]][1])
                    bs2, cf2, f = S.scale_fixed_point(bs, cf, expected, first)
                else:
                    want_f = case['diag']['factor']
                    bs2, cf2, f = S.scale_diagonals(bs, cf, samples, case['diag']['expected_diagonal'])
                f = float(f)
                if not abs(f - want_f) <= (2e-3 if op == 'D' else 1e-9) * abs(want_f):
                    return fail(k, 'scale factor', f, float(want_f))
                for (p, (R, t)) in [(bs2[b], vin[b]) for b in bs] + list(zip(cf2, cin)):
                    if not dev(p, R, f * t) <= tolv:
                        return fail(k, 'scaled pose is not (rotation, factor * translation) of the input', val(p)[1].tolist(), (f * t).tolist())
                bs, cf = bs2, list(cf2)
        # every accessor of the final objects shows the same value: composing with the identity changes nothing, and
        # pairwise distances equal those computed from the values
        ident = _pose([[[1.0, 0.0, 0.0], [0.0, 1.0, 0.0], [0.0, 0.0, 1.0]], [0.0, 0.0, 0.0]])
        for p in list(bs.values()) + cf:
            R, t = val(p)
            if not (dev(ident.rotate_translate_pose(p), R, t) <= tolv and dev(p.rotate_translate_pose(ident), R, t) <= tolv):
                return fail(len(case['chain']) - 1, 'final pose composed with the identity differs from its own value',
                            val(ident.rotate_translate_pose(p))[1].tolist(), t.tolist())
    except Exception as e:  # noqa
        return {'class': 'chain_raises', 'case': case, 'expected': 'three operations in a row', 'observed': repr(e)}
    return None


CHECKS = {'align': check_align, 'align_history': check_align_history, 'chain': check_chain, 'scale_fixed': check_scale_fixed,
          'scale_diag': check_scale_diag}


def _check(case):
    import warnings
    with warnings.catch_warnings():
        warnings.simplefilter('ignore')
        return CHECKS[case['kind']](case)


def _pmap(fn, items, procs=8):
    if len(items) < 64:
        return [fn(x) for x in items]
    import multiprocessing as mp
    ctxm = mp.get_context('fork')
    with ctxm.Pool(procs) as pool:
        return pool.map(fn, items, chunksize=max(1, len(items) // (procs * 8)))


# ------------------------------------------------------------------------------------------------ oracle
def _corpus():
    import glob
    import json
    d = os.path.join(coqrun.VERIF, 'corpus', 'C16')
    out = []
    for p in sorted(glob.glob(os.path.join(d, '*.json'))):
        try:
            out.append(json.load(open(p))['case'])
        except Exception:  # noqa
            pass
    return out


def oracle(ctx, deep=False):
    import json
    _cf()
    cases = list(_corpus())
    n_corpus = len(cases)
    n_align = ctx.scale(3000, 40000)
    if deep:
        n_align = max(n_align, 12000)
    for i in range(n_align):
        cases.append(gen_align_case(ctx.rng, hard=(i % 3 == 2)))
    for _ in range(n_align // 5):
        cases.append(gen_align_case(ctx.rng, wide=True))
    for _ in range(n_align // 4):
        cases.append(gen_align_case(ctx.rng, small=True))
    for _ in range(n_align // 10):
        cases.append(gen_history_case(ctx.rng))
    for _ in range(n_align // 10):
        cases.append(gen_chain_case(ctx.rng))
    for _ in range(ctx.scale(300, 3000)):
        cases.append(gen_scale_case(ctx.rng))
    for i in range(ctx.scale(150, 1500)):
        cases.append(gen_diag_case(ctx.rng, lib_constant=(i % 5 == 4)))
        if i % 30 == 29:
            cases[-1] = dict(cases[-1], all_empty=True, expected_diagonal=DECK_DIAG)
    results = _pmap(_check, cases)
    fails = [f for f in results if f]
    # keep the report small: at most 3 failures per class, smallest angle first for align cases
    fails.sort(key=lambda f: (f['class'], f['case'].get('angle_deg', 0)))
    seen, out = {}, []
    for f in fails:
        seen[f['class']] = seen.get(f['class'], 0) + 1
        if seen[f['class']] <= 3:
            out.append(f)
    noisy = sum(1 for c in cases if c['kind'] == 'align' and c.get('noise'))
    wide = sum(1 for c in cases if c['kind'] == 'align' and c.get('wide'))
    kinds = {}
    for c in cases:
        ks = c.get('container') or []
        for k in ([ks] if isinstance(ks, str) else ks):
            kinds[k] = kinds.get(k, 0) + 1
    frozen = sum(1 for c in cases if c.get('pose_readonly'))
    # misalignment magnitudes of the boundary-scale layouts, per decade
    def decade(x):
        return 'zero' if x == 0 else '1e%d' % int(math.floor(math.log10(x)))
    mag = {'angle_deg': {}, 'translation_m': {}, 'mode': {}}
    for c in cases:
        sm = c.get('small')
        if sm:
            for key, val in (('angle_deg', decade(sm['angle_deg'])), ('translation_m', decade(sm['translation_m'])), ('mode', sm['mode'])):
                mag[key][val] = mag[key].get(val, 0) + 1
    n_small = sum(mag['mode'].values())
    pats, chains = {}, {}
    for c in cases:
        if c['kind'] == 'align_history':
            pats[c['pattern']] = pats.get(c['pattern'], 0) + 1
        if c['kind'] == 'chain':
            chains[c['chain']] = chains.get(c['chain'], 0) + 1
    return {'evaluations': len(cases), 'failures': out, 'distinct_nontrivial': 0,
            'rule': 'align on random layouts (misalignment <= 30 deg / 3 m, 1-4 samples per axis/plane, 1-4 base stations, '
                    'a third of them with 20-30 deg and 2-3 m, %d with bounded noise, %d corpus cases first): rigid (1e-9), inputs untouched, flips resolved, equal to '
                    'ground truth / independently converged optimum (1e-5); %d layouts with any misalignment up to 180 deg '
                    'and mirrored: rigid, inputs untouched, flips resolved; %d boundary-scale layouts (rotation log-uniform 1e-6..30 deg, '
                    'translation log-uniform 1e-9..3 m, either or both exactly zero, single coordinate axis or random direction, '
                    'noise-free) exact to %g with misalignment magnitudes per decade %s; %d multi-call histories (2-4 align calls, persistent '
                    'argument containers refilled in place / fresh ones, patterns %s), each call judged on its current contents; %d chains of three operations on the SAME Pose objects '
                    '(A align, S scale_fixed_point, C compose, D scale_diagonals: %s), each step judged against the values its inputs '
                    'have when it starts; scale_fixed_point and scale_diagonals against the '
                    'generating factor; point arguments are handed over as %s (arrays = list of 1-D float64, view = non-contiguous '
                    'view of a larger array, int = rounded: no exactness check), %d cases with read-only arrays inside the Pose '
                    'objects, tuple/list sequences; every input is compared bit for bit (identity, dtype, strides, flags, bytes, '
                    'base array of views) before/after; failures per class: %s' % (noisy, n_corpus, wide, n_small, TOL_SMALL, json.dumps(mag, sort_keys=True),
                                                         sum(pats.values()), json.dumps(pats, sort_keys=True),
                                                         sum(chains.values()), json.dumps(chains, sort_keys=True), kinds, frozen, seen),
            'samples': [{'kind': c['kind'], 'angle_deg': c.get('angle_deg'), 'n_bs': len(c['bs'])} for c in cases[n_corpus:n_corpus + 2]]}


def replay(payload, ctx):
    _cf()
    f = _check(payload['case'])
    if f:
        f = dict(f)
        f.pop('case', None)
    return f


# ------------------------------------------------------------------------------------------------ Coq literals
def _q(x):
    fr = Fraction(float(x))
    return '(Qmake %s %d)' % (coqrun.z(fr.numerator), fr.denominator)


def _v(v):
    return '(V3 %s %s %s)' % (_q(v[0]), _q(v[1]), _q(v[2]))


def _m(m):
    return '(M3 %s %s %s)' % (_v(m[0]), _v(m[1]), _v(m[2]))


def _p(P):
    return '(MkPose %s %s)' % (_m(P[0]), _v(P[1]))


def _vl(vs):
    return '[' + '; '.join(_v(v) for v in vs) + ']'


def _bs(bs):
    return '[' + '; '.join('(%s, %s)' % (coqrun.z(b), _p([R, t])) for b, R, t in bs) + ']'


def _flat_pose(p):
    np = _np()
    return [float(x) for x in np.array(p.rot_matrix).reshape(-1)] + [float(x) for x in np.array(p.translation).reshape(-1)]


def _pose_lists(p):
    np = _np()
    return [np.array(p.rot_matrix, dtype=float).tolist(), np.array(p.translation, dtype=float).tolist()]


HEADER = ('From Coq Require Import ZArith List QArith.\nFrom CF Require Import C16.Model.\nImport ListNotations.\n'
          'Open Scope Z_scope.\n'
          'Definition K := %d.\n'
          'Definition bsfix (b : list (Z * pose Q)) : list Z := concat (map (fun kv => fst kv :: pfix K (snd kv)) b).\n'
          % FIX)


def _close(model_ints, impl, what, case, dis, kinds=None):
    """model_ints: values floor(q*2^FIX) (or exact ints where kinds says 'i'); impl: floats."""
    if model_ints is None or len(model_ints) != len(impl):
        dis.append({'what': what + ': result shapes differ', 'case': case, 'model': model_ints, 'impl': impl})
        return False
    for k, (a, b) in enumerate(zip(model_ints, impl)):
        if kinds and kinds[k] == 'i':
            ok = (a == b)
        else:
            ok = abs(a / float(1 << FIX) - b) <= (1e-6 if (kinds and kinds[k] == 's') else TOL_TIE) * max(1.0, abs(b))
        if not ok:
            dis.append({'what': what + ': model and implementation differ', 'case': case, 'index': k,
                        'model': a if (kinds and kinds[k] == 'i') else a / float(1 << FIX), 'impl': b})
            return False
    return True


def tie(ctx):
    import warnings
    warnings.simplefilter('ignore')
    np = _np()
    A, S, Pose, Smp, V, Vs = _cf()
    rng = ctx.rng
    terms, expect, meta = [], [], []
    dist = {}

    def add(what, term, impl, case, kinds=None):
        terms.append(term)
        expect.append(impl)
        meta.append((what, case, kinds))
        dist[what] = dist.get(what, 0) + 1

    n = ctx.scale(40, 400)
    flips_seen = {}
    # ---- align(): raw transformation from the real optimiser; de-flip + uniform application
    for i in range(n):
        c = gen_align_case(rng, max_deg=rng.choice([30.0, 180.0]), flip=(i % 2 == 1))
        origin = np.array(c['origin'])
        xa = [np.array(p) for p in c['x_axis']]
        pl = [np.array(p) for p in c['xy_plane']]
        bs = _bsdict(c['bs'])
        raw = A._find_transformation(origin, xa, pl)
        res, T = A.align(origin, xa, pl, bs)
        rawL, TL = _pose_lists(raw), _pose_lists(T)
        m0 = raw.rotate_translate(np.mean(xa, axis=0))[0]
        m1 = raw.rotate_translate(list(bs.values())[0].translation)[2]
        if min(abs(m0), abs(m1)) < 1e-7:      # sign decided by rounding: not comparable
            continue
        flips_seen[(bool(m0 < 0), bool(m1 < 0))] = flips_seen.get((bool(m0 < 0), bool(m1 < 0)), 0) + 1
        small = {'x_axis': c['x_axis'], 'bs': c['bs'], 'raw': rawL}
        add('_de_flip_transformation',
            'match deflip Qops %s %s %s with Some T => pfix K T | None => [] end' % (_p(rawL), _vl(c['x_axis']), _bs(c['bs'])),
            _flat_pose(T), small)
        impl = []
        for k in res:
            impl += [k] + _flat_pose(res[k])
        add('align loop', 'bsfix (align_apply Qops %s %s)' % (_p(TL), _bs(c['bs'])), impl, {'T': TL, 'bs': c['bs']},
            kinds=(['i'] + ['q'] * 12) * len(res))
    # ---- _de_flip_transformation on arbitrary raw transformations (all four sign combinations)
    for i in range(n):
        raw = [_rand_rot(rng), [rng.uniform(-3, 3) for _ in range(3)]]
        xa = [[rng.uniform(-3, 3) for _ in range(3)] for _ in range(rng.randint(1, 4))]
        bs = [[bid, _rand_rot(rng), [rng.uniform(-4, 4) for _ in range(3)]] for bid in rng.sample(range(16), rng.randint(1, 3))]
        rp = _pose(raw)
        bd = _bsdict(bs)
        m0 = rp.rotate_translate(np.mean(np.array(xa), axis=0))[0]
        m1 = rp.rotate_translate(list(bd.values())[0].translation)[2]
        if min(abs(m0), abs(m1)) < 1e-7:
            continue
        flips_seen[(bool(m0 < 0), bool(m1 < 0))] = flips_seen.get((bool(m0 < 0), bool(m1 < 0)), 0) + 1
        T = A._de_flip_transformation(rp, [np.array(p) for p in xa], bd)
        add('_de_flip_transformation',
            'match deflip Qops %s %s %s with Some T => pfix K T | None => [] end' % (_p(raw), _vl(xa), _bs(bs)),
            _flat_pose(T), {'raw': raw, 'x_axis': xa, 'bs': bs})
    # ---- _calc_residual (matrix of the parameters taken from the code's own _Pose_from_params)
    for i in range(n):
        params = np.array([rng.uniform(-2, 2) for _ in range(3)] + [rng.uniform(-3, 3) for _ in range(3)])
        o = [rng.uniform(-3, 3) for _ in range(3)]
        xa = [[rng.uniform(-3, 3) for _ in range(3)] for _ in range(rng.randint(1, 4))]
        pl = [[rng.uniform(-3, 3) for _ in range(3)] for _ in range(rng.randint(1, 4))]
        T = A._Pose_from_params(params)
        r = A._calc_residual(params, np.array(o), [np.array(p) for p in xa], [np.array(p) for p in pl])
        TL = _pose_lists(T)
        add('_calc_residual', 'map (qfix K) (residual Qops %s %s %s %s)' % (_p(TL), _v(o), _vl(xa), _vl(pl)),
            [float(x) for x in r], {'params': params.tolist(), 'origin': o, 'x_axis': xa, 'xy_plane': pl})
    # ---- Pose.rotate_translate / rotate_translate_pose / np.mean
    for i in range(n):
        Tp = [_rand_rot(rng), [rng.uniform(-3, 3) for _ in range(3)]]
        Pp = [_rand_rot(rng), [rng.uniform(-3, 3) for _ in range(3)]]
        pt = [rng.uniform(-3, 3) for _ in range(3)]
        add('Pose.rotate_translate', 'vfix K (rt Qops %s %s)' % (_p(Tp), _v(pt)),
            [float(x) for x in _pose(Tp).rotate_translate(np.array(pt))], {'T': Tp, 'point': pt})
        add('Pose.rotate_translate_pose', 'pfix K (rtp Qops %s %s)' % (_p(Tp), _p(Pp)),
            _flat_pose(_pose(Tp).rotate_translate_pose(_pose(Pp))), {'T': Tp, 'P': Pp})
        xs = [[rng.uniform(-3, 3) for _ in range(3)] for _ in range(rng.randint(1, 5))]
        add('np.mean(x_axis, axis=0)', 'vfix K (vmean Qops %s)' % _vl(xs),
            [float(x) for x in np.mean(np.array(xs), axis=0)], {'points': xs})
    # ---- _scale_system / scale_fixed_point
    for i in range(n):
        c = gen_scale_case(rng)
        bs, cf, expected, actual, (bs2, cf2, f), same = _run_scale_fixed(c, plain=True)
        impl, kinds = [], []
        for k in bs2:
            impl += [k] + _flat_pose(bs2[k])
            kinds += ['i'] + ['q'] * 9 + (['s'] if np.asarray(bs[k].translation).dtype == np.float32 else ['q']) * 3
        for p0, p in zip(cf, cf2):
            impl += _flat_pose(p)
            kinds += ['q'] * 9 + (['s'] if np.asarray(p0.translation).dtype == np.float32 else ['q']) * 3
        impl.append(float(f))
        kinds.append('q')
        add('_scale_system',
            "let '(b, c, s) := scale_system Qops %s %s %s in bsfix b ++ concat (map (pfix K) c) ++ [qfix K s]"
            % (_bs(c['bs']), '[' + '; '.join(_p(P) for P in c['cf']) + ']', _q(float(f))), impl, c, kinds=kinds)
        add('scale_fixed_point factor^2',
            '[qfix K (odiv Qops (norm2 Qops %s) (norm2 Qops (trans %s)))]' % (_v(c['expected']), _p(c['actual'])),
            [float(f) ** 2], c, kinds=['s' if (len(c['actual']) > 2 and c['actual'][2] == 'f32') else 'q'])
    # ---- chain on the SAME objects: align loop (T1) -> _scale_system (s) -> align loop (T2), against the composed model
    for i in range(max(4, n // 2)):
        bsv = [[bid, _rand_rot(rng), [rng.uniform(-4, 4) for _ in range(3)]] for bid in rng.sample(range(16), rng.randint(1, 3))]
        T1 = [_rand_rot(rng), [rng.uniform(-3, 3) for _ in range(3)]]
        T2 = [_rand_rot(rng), [rng.uniform(-3, 3) for _ in range(3)]]
        sf = rng.choice([0.5, 1.25, 2.0, 0.3]) * rng.uniform(0.9, 1.1)
        objs = _bsdict(bsv)
        p1, p2 = _pose(T1), _pose(T2)
        step1 = {k: p1.rotate_translate_pose(p) for k, p in objs.items()}
        step2 = S._scale_system(step1, [], sf)[0]
        step3 = {k: p2.rotate_translate_pose(p) for k, p in step2.items()}
        impl = []
        for k in step3:
            impl += [k] + _flat_pose(step3[k])
        add('chain align-scale-align on the same objects',
            "bsfix (align_apply Qops %s (fst (fst (scale_system Qops (align_apply Qops %s %s) [] %s))))"
            % (_p(T2), _p(T1), _bs(bsv), _q(sf)), impl, {'bs': bsv, 'T1': T1, 'T2': T2, 'factor': sf},
            kinds=(['i'] + ['q'] * 12) * len(step3))
    # ---- calc_intersection_point / calc_intersection_distance / scale_diagonals factor
    n_diag = 0
    tilts = []
    for i in range(n):
        c = gen_diag_case(rng)
        tilts.extend(c['tilt_deg'])
        bs, cf, samples = _diag_objects(c)
        d2_terms, d_impl = [], []
        for cfp, cfl, smp in zip(cf, c['cf'], samples):
            for bid, vecs in smp.angles_calibrated.items():
                bl = [b for b in c['bs'] if b[0] == bid][0]
                carts = [[float(x) for x in v.cart] for v in vecs]
                if n_diag < 4 * n:
                    add('calc_intersection_point',
                        'vfix K (intersection_point Qops %s %s %s)' % (_v(carts[0]), _p(bl[1:]), _p(cfl)),
                        [float(x) for x in S.calc_intersection_point(vecs[0], bs[bid], cfp)],
                        {'cart': carts[0], 'bs': bl[1:], 'cf': cfl})
                    n_diag += 1
                for a, b in ((0, 3), (1, 2)):
                    if len(d2_terms) >= 2:
                        break
                    d2_terms.append('qfix K (intersection_dist2 Qops %s %s %s %s)' % (_v(carts[a]), _v(carts[b]), _p(bl[1:]), _p(cfl)))
                    d_impl.append(float(S.calc_intersection_distance(vecs[a], vecs[b], bs[bid], cfp)) ** 2)
        add('calc_intersection_distance^2', '[' + '; '.join(d2_terms) + ']', d_impl, {'diag_case': i})
    # ---- evaluate the model
    vals = coqrun.eval_terms(HEADER, terms, tag='c16', shard=max(8, len(terms) // 16 + 1))
    dis = []
    nontriv = set()
    for v, e, (what, case, kinds) in zip(vals, expect, meta):
        ok = _close(v, e, what, case, dis, kinds)
        if ok:
            nontriv.add(hash((what, tuple(e))))
        if len(dis) >= 10:
            break
    # ---- wrappers over R only (sqrt, sin, cos): the model's formulas evaluated in Python
    n_wr = 0
    for i in range(ctx.scale(300, 3000)):
        rv = [rng.uniform(-3.5, 3.5) for _ in range(3)] if i % 7 else ([0.0, 0.0, 0.0] if i % 14 else [0.0, 0.0, math.pi])
        got = np.array(Pose.from_rot_vec(R_vec=rv).rot_matrix)
        want = np.array(_rodrigues(rv))
        n_wr += 1
        if not np.abs(got - want).max() <= TOL_TIE:
            dis.append({'what': 'Pose.from_rot_vec differs from the Rodrigues rotation of the model (from_rotvec)',
                        'rot_vec': rv, 'model': want.tolist(), 'impl': got.tolist()})
            break
    for i in range(ctx.scale(60, 600)):
        c = gen_diag_case(rng)
        tilts.extend(c['tilt_deg'])
        bs, cf, samples = _diag_objects(c)
        diags = []
        for cfp, smp in zip(cf, samples):
            for bid, vecs in smp.angles_calibrated.items():
                for a, b in ((0, 3), (1, 2)):
                    pa = _model_intersection([float(x) for x in vecs[a].cart], bs[bid], cfp)
                    pb = _model_intersection([float(x) for x in vecs[b].cart], bs[bid], cfp)
                    diags.append(math.sqrt(sum((pa[k] - pb[k]) ** 2 for k in range(3))))
        want = c['expected_diagonal'] / (sum(diags) / len(diags))
        got = float(S.scale_diagonals(bs, cf, samples, c['expected_diagonal'])[2])
        n_wr += 1
        if not abs(got - want) <= TOL_TIE * max(1.0, abs(want)):
            dis.append({'what': 'scale_diagonals factor differs from the model (diagonals_factor)', 'case': c,
                        'model': want, 'impl': got})
            break
    return {
        'evaluations': len(terms) + n_wr,
        'distinct_nontrivial': len(nontriv),
        'rule': 'every float handed to the real function is also handed, as the exact rational it denotes, to the Gallina '
                'model instantiated with Q (vm_compute); results agree within 1e-9 (relative above 1). Non-trivial: all '
                '(random proper rotations, non-zero translations; de-flip cases cover the sign combinations %s). '
                'sqrt/sin/cos wrappers (from_rotvec, scale factors) compared with the model formulas in Python' % (
                    sorted('%s%s' % ('x' if a else '-', 'z' if b else '-') for a, b in flips_seen)),
        'samples': [{'what': meta[i][0], 'term': terms[i][:160], 'impl': expect[i][:4]} for i in (0, len(terms) // 2, len(terms) - 1)],
        'distribution': dict(dist, wrappers=n_wr,
                             cf_sample_tilt_deg={'n': len(tilts), 'min': round(min(tilts), 2), 'max': round(max(tilts), 2),
                                                 'n_tilted_10_to_30': sum(1 for t in tilts if t >= 10.0),
                                                 'n_flat': sum(1 for t in tilts if t == 0.0)},
                             deflip_signs={'%s%s' % ('x' if a else '-', 'z' if b else '-'): v
                                                                 for (a, b), v in flips_seen.items()}),
        'exhaustive': False,
        'disagreements': dis,
    }


def _model_intersection(cart, bsp, cfp):
    """Python transcription of Model.intersection_point."""
    np = _np()
    Rb, tb = np.array(bsp.rot_matrix), np.array(bsp.translation)
    Rc, tc = np.array(cfp.rot_matrix), np.array(cfp.translation)
    normal = [Rc[0][2], Rc[1][2], Rc[2][2]]
    lv = _mv(Rb.tolist(), cart)
    num = sum((tc[k] - tb[k]) * normal[k] for k in range(3))
    den = sum(lv[k] * normal[k] for k in range(3))
    d = num / den
    return [tb[k] + lv[k] * d for k in range(3)]


# ================================================================================================ translator (T-tie)
# A fail-closed translation of the numeric Python of the three anchored files into Gallina over the model's vocabulary.
# Types: S scalar, V 3-vector, M 3x3 matrix, P Pose, B bool, LV list of vectors, LS list of scalars, LLS list of lists of
# scalars, BS dict[int, Pose] (association list), LP list of Pose, TR the (bs, cf, factor) triple, OP option Pose.
class TranslationError(Exception):
    pass


def _fail(node, msg):
    raise TranslationError('%s (line %s: %s)' % (msg, getattr(node, 'lineno', '?'),
                                                 ast.unparse(node)[:120] if isinstance(node, ast.AST) else node))


def _is_name(n, name):
    return isinstance(n, ast.Name) and n.id == name


def _is_np(n, attr):
    return isinstance(n, ast.Attribute) and n.attr == attr and _is_name(n.value, 'np')


def _const(n):
    if isinstance(n, ast.Constant) and isinstance(n.value, (int, float)) and not isinstance(n.value, bool):
        return n.value
    if isinstance(n, ast.UnaryOp) and isinstance(n.op, ast.USub):
        v = _const(n.operand)
        return None if v is None else -v
    return None


RESERVED = {'pose', 'vec', 'mat', 'rot', 'trans', 'norm', 'dot', 'dist', 'det', 'mid', 'mv', 'mm', 'rt', 'rtp', 'map', 'fst',
            'snd', 'list', 'fun', 'let', 'in', 'match', 'with', 'end', 'if', 'then', 'else', 'o', 'F', 'R', 'Z', 'kv',
            'residual', 'align', 'deflip', 'transpose', 'proper', 'orthogonal', 'sqrt', 'sin', 'cos', 'PI'}


def _cid(name):
    if not name.isidentifier():
        raise TranslationError('bad identifier %r' % name)
    return name + '_' if (name in RESERVED or name.endswith('_')) else name


class Tr:
    def __init__(self, env, real=False):
        self.env = dict(env)          # python name -> (coq term, type)
        self.o = 'Rops' if real else 'o'
        self.real = real              # sqrt allowed (np.linalg.norm)
        self.opt_match = None         # set when  list(d.values())[0]  was bound: result becomes an option

    # ---------------------------------------------------------------- expressions
    def scalar_const(self, n):
        v = _const(n)
        if v is None or v != int(v):
            _fail(n, 'only integral numeric constants are translated')
        return '(oZ %s (%d))' % (self.o, int(v))

    def half_turn(self, call):
        """Pose.from_rot_vec(R_vec=(0.0, 0.0, np.pi)) / ((np.pi, 0.0, 0.0)) with the default translation."""
        kw = {k.arg: k.value for k in call.keywords}
        if call.args or set(kw) != {'R_vec'} or not isinstance(kw['R_vec'], (ast.Tuple, ast.List)) or len(kw['R_vec'].elts) != 3:
            _fail(call, 'Pose.from_rot_vec is translated only for the two constant half turns')
        e = kw['R_vec'].elts
        pat = ['pi' if _is_np(x, 'pi') else _const(x) for x in e]
        if pat == [0, 0, 'pi']:
            return '(flipZ %s)' % self.o, 'P'
        if pat == ['pi', 0, 0]:
            return '(flipX %s)' % self.o, 'P'
        _fail(call, 'unrecognised constant rotation vector')

    def expr(self, n):
        o = self.o
        if isinstance(n, ast.Name):
            if n.id not in self.env:
                _fail(n, 'unknown name')
            return self.env[n.id]
        if _const(n) is not None:
            return self.scalar_const(n), 'S'
        if isinstance(n, (ast.Tuple, ast.List)) and len(n.elts) == 3 and all(_const(x) is not None for x in n.elts):
            return '(V3 %s %s %s)' % tuple(self.scalar_const(x) for x in n.elts), 'V'
        if isinstance(n, ast.Attribute):
            v, t = self.expr(n.value)
            if t == 'P' and n.attr in ('rot_matrix', '_R_matrix'):
                return '(rot %s)' % v, 'M'
            if t == 'P' and n.attr in ('translation', '_t_vec'):
                return '(trans %s)' % v, 'V'
            if t == 'CART' and n.attr == 'cart':
                return v, 'V'
            _fail(n, 'attribute not in the fragment')
        if isinstance(n, ast.BinOp):
            a, ta = self.expr(n.left)
            b, tb = self.expr(n.right)
            op = type(n.op).__name__
            table = {('Add', 'V', 'V'): 'vadd', ('Sub', 'V', 'V'): 'vsub', ('Add', 'S', 'S'): 'oadd', ('Sub', 'S', 'S'): 'osub',
                     ('Mult', 'S', 'S'): 'omul', ('Div', 'S', 'S'): 'odiv', ('Mult', 'V', 'S'): 'smul', ('Div', 'V', 'S'): 'sdiv'}
            if (op, ta, tb) in table:
                f = table[(op, ta, tb)]
                return '(%s %s %s %s)' % (f, o, a, b), ('V' if ta == 'V' else 'S')
            if (op, ta, tb) == ('Mult', 'S', 'V'):
                return '(smul %s %s %s)' % (o, b, a), 'V'
            _fail(n, 'operator %s on types %s,%s not in the fragment' % (op, ta, tb))
        if isinstance(n, ast.UnaryOp) and isinstance(n.op, ast.USub):
            a, ta = self.expr(n.operand)
            if ta == 'S':
                return '(osub %s (oZ %s 0) %s)' % (o, o, a), 'S'
            _fail(n, 'negation of a non-scalar')
        if isinstance(n, ast.Compare) and len(n.ops) == 1 and isinstance(n.ops[0], ast.Lt):
            a, ta = self.expr(n.left)
            b, tb = self.expr(n.comparators[0])
            if (ta, tb) == ('S', 'S'):
                return '(oltb %s %s %s)' % (o, a, b), 'B'
            _fail(n, 'comparison of non-scalars')
        if isinstance(n, ast.Subscript):
            v, t = self.expr(n.value)
            sl = n.slice
            if t == 'V' and _const(sl) in (0, 1, 2):
                return '(%s %s)' % (['vx', 'vy', 'vz'][_const(sl)], v), 'S'
            if t == 'V' and isinstance(sl, ast.Slice) and sl.step is None and _const(sl.lower) == 1 and _const(sl.upper) == 3:
                return '[vy %s; vz %s]' % (v, v), 'LS'
            if t == 'M' and _const(sl) in (0, 1, 2):                      # m[i]: i-th ROW
                return '(%s %s)' % (['r1', 'r2', 'r3'][_const(sl)], v), 'V'
            if t == 'M' and isinstance(sl, ast.Tuple) and len(sl.elts) == 2 and isinstance(sl.elts[0], ast.Slice) \
                    and sl.elts[0].lower is None and sl.elts[0].upper is None and sl.elts[0].step is None \
                    and _const(sl.elts[1]) in (0, 1, 2):                   # m[:, j]: j-th COLUMN
                return '(%s %s)' % (['col1', 'col2', 'col3'][_const(sl.elts[1])], v), 'V'
            _fail(n, 'subscript not in the fragment')
        if isinstance(n, ast.Lambda):
            _fail(n, 'lambda outside map()')
        if isinstance(n, ast.ListComp) and len(n.generators) == 1 and not n.generators[0].ifs \
                and isinstance(n.generators[0].target, ast.Name):
            return self.mapped(n.generators[0].target.id, n.elt, n.generators[0].iter)
        if isinstance(n, ast.Call):
            return self.call(n)
        _fail(n, 'expression not in the fragment')

    def mapped(self, var, body, it):
        xs, t = self.expr(it)
        elt = {'LV': 'V', 'LS': 'S', 'LLS': 'LS', 'LP': 'P'}.get(t)
        if elt is None:
            _fail(it, 'map over a non-list')
        sub = Tr(self.env, self.real)
        sub.env[var] = ('%s_' % var, elt)
        b, tb = sub.expr(body)
        out = {'V': 'LV', 'S': 'LS', 'LS': 'LLS', 'P': 'LP'}.get(tb)
        if out is None:
            _fail(body, 'map body type')
        return '(map (fun %s_ => %s) %s)' % (var, b, xs), out

    def call(self, n):
        o = self.o
        f = n.func
        args = n.args
        kws = {k.arg: k.value for k in n.keywords}
        if _is_np(f, 'dot') and len(args) == 2 and not kws:
            a, ta = self.expr(args[0])
            b, tb = self.expr(args[1])
            tab = {('M', 'V'): ('mv', 'V'), ('M', 'M'): ('mm', 'M'), ('V', 'V'): ('dot', 'S')}
            if (ta, tb) in tab:
                return '(%s %s %s %s)' % (tab[(ta, tb)][0], o, a, b), tab[(ta, tb)][1]
            _fail(n, 'np.dot on types %s,%s' % (ta, tb))
        if _is_np(f, 'transpose') and len(args) == 1 and not kws:
            a, ta = self.expr(args[0])
            if ta == 'M':
                return '(transpose %s)' % a, 'M'
        if _is_np(f, 'mean') and len(args) == 1:
            a, ta = self.expr(args[0])
            if ta == 'LV' and set(kws) == {'axis'} and _const(kws['axis']) == 0:
                return '(vmean %s %s)' % (o, a), 'V'
            if ta == 'LS' and not kws and self.real:
                return '(rmean %s)' % a, 'S'
            _fail(n, 'np.mean form')
        if isinstance(f, ast.Attribute) and f.attr == 'norm' and _is_np(f.value, 'linalg') and len(args) == 1 and not kws:
            a, ta = self.expr(args[0])
            if ta == 'V' and self.real:
                return '(norm %s)' % a, 'S'
            _fail(n, 'np.linalg.norm outside the real-number part')
        if _is_np(f, 'ravel') and len(args) == 1 and not kws:
            a, ta = self.expr(args[0])
            if ta == 'V':
                return '[vx %s; vy %s; vz %s]' % (a, a, a), 'LS'
            if ta == 'LS':
                return a, 'LS'
            if ta == 'LLS':
                return '(concat %s)' % a, 'LS'
            _fail(n, 'np.ravel on type %s' % ta)
        if _is_np(f, 'concatenate') and len(args) == 1 and isinstance(args[0], (ast.Tuple, ast.List)) and not kws:
            parts = [self.expr(x) for x in args[0].elts]
            if parts and all(t == 'LS' for _, t in parts):
                return '(' + ' ++ '.join(p for p, _ in parts) + ')', 'LS'
            _fail(n, 'np.concatenate of non-scalar-lists')
        if _is_name(f, 'list') and len(args) == 1 and not kws:
            a, ta = self.expr(args[0])
            if ta in ('LV', 'LS', 'LLS', 'LP'):
                return a, ta
            _fail(n, 'list() of type %s' % ta)
        if _is_name(f, 'map') and len(args) == 2 and isinstance(args[0], ast.Lambda) and not kws:
            lam = args[0]
            if len(lam.args.args) != 1 or lam.args.defaults or lam.args.vararg or lam.args.kwarg:
                _fail(n, 'lambda shape')
            return self.mapped(lam.args.args[0].arg, lam.body, args[1])
        if _is_name(f, 'Pose'):
            a = list(args)
            r = kws.get('R_matrix', a[0] if a else None)
            t = kws.get('t_vec', a[1] if len(a) > 1 else None)
            if r is None or t is None or len(a) + len(kws) != 2:
                _fail(n, 'Pose(...) needs exactly R_matrix and t_vec')
            rv, rt_ = self.expr(r)
            tv, tt = self.expr(t)
            if (rt_, tt) == ('M', 'V'):
                return '(MkPose %s %s)' % (rv, tv), 'P'
            _fail(n, 'Pose(...) argument types')
        if isinstance(f, ast.Attribute) and f.attr == 'from_rot_vec' and _is_name(f.value, 'Pose'):
            return self.half_turn(n)
        if isinstance(f, ast.Attribute) and _is_name(f.value, 'cls') and not kws:
            vals = [self.expr(x) for x in args]
            sig = {'calc_intersection_point': (['CART', 'P', 'P'], 'gen_calc_intersection_point %s' % o, 'V'),
                   '_scale_system': (['BS', 'LP', 'S'], 'gen_scale_system %s' % o, 'TR')}
            if self.real:
                sig['calc_intersection_distance'] = (['CART', 'CART', 'P', 'P'], 'gen_calc_intersection_distance', 'S')
            if f.attr in sig and [t for _, t in vals] == sig[f.attr][0]:
                return '(%s %s)' % (sig[f.attr][1], ' '.join(v for v, _ in vals)), sig[f.attr][2]
            _fail(n, 'call of cls.%s not in the fragment' % f.attr)
        if isinstance(f, ast.Attribute) and f.attr in ('rotate_translate', 'rotate_translate_pose') and len(args) == 1 and not kws:
            s, ts = self.expr(f.value)
            a, ta = self.expr(args[0])
            if ts == 'P' and f.attr == 'rotate_translate' and ta == 'V':
                return '(gen_rotate_translate %s %s %s)' % (o, s, a), 'V'
            if ts == 'P' and f.attr == 'rotate_translate_pose' and ta == 'P':
                return '(gen_rotate_translate_pose %s %s %s)' % (o, s, a), 'P'
            _fail(n, 'method argument types')
        _fail(n, 'call not in the fragment')

    # ---------------------------------------------------------------- statements
    def first_value(self, n):
        """list(D.values())[0] -> name of D"""
        if isinstance(n, ast.Subscript) and _const(n.slice) == 0 and isinstance(n.value, ast.Call) and _is_name(n.value.func, 'list') \
                and len(n.value.args) == 1 and isinstance(n.value.args[0], ast.Call) and not n.value.args[0].args \
                and isinstance(n.value.args[0].func, ast.Attribute) and n.value.args[0].func.attr == 'values' \
                and isinstance(n.value.args[0].func.value, ast.Name):
            return n.value.args[0].func.value.id
        return None

    def block(self, stmts):
        """Straight-line block ending in `return e`; returns (coq term, type)."""
        out = []
        closers = []
        for k, st in enumerate(stmts):
            if isinstance(st, ast.Expr) and isinstance(st.value, ast.Constant) and isinstance(st.value.value, str):
                continue
            if isinstance(st, (ast.Assign, ast.AnnAssign)):
                tg = st.targets[0] if isinstance(st, ast.Assign) else st.target
                if (isinstance(st, ast.Assign) and len(st.targets) != 1) or not isinstance(tg, ast.Name) or st.value is None:
                    _fail(st, 'assignment target')
                d = self.first_value(st.value)
                if d is not None:
                    dv, dt = self.expr(ast.Name(id=d))
                    if dt != 'BS':
                        _fail(st, 'first value of a non-dict')
                    out.append('match %s with [] => None | (_, %s) :: _ => Some (' % (dv, _cid(tg.id)))
                    closers.append(') end')
                    self.env[tg.id] = (_cid(tg.id), 'P')
                    self.opt_match = True
                    continue
                v, t = self.expr(st.value)
                out.append('let %s := %s in' % (_cid(tg.id), v))
                self.env[tg.id] = (_cid(tg.id), t)
                continue
            if isinstance(st, ast.If) and not st.orelse:
                c, tc = self.expr(st.test)
                if tc != 'B':
                    _fail(st, 'condition type')
                sub = Tr(self.env, self.real)
                inner = []
                rebound = []
                for s2 in st.body:
                    if not (isinstance(s2, ast.Assign) and len(s2.targets) == 1 and isinstance(s2.targets[0], ast.Name)):
                        _fail(s2, 'only assignments inside if')
                    v, t = sub.expr(s2.value)
                    nm = s2.targets[0].id
                    if nm in self.env:
                        if self.env[nm][1] != t:
                            _fail(s2, 'rebinding changes type')
                        rebound.append(nm)
                    inner.append('let %s := %s in' % (_cid(nm), v))
                    sub.env[nm] = (_cid(nm), t)
                if len(set(rebound)) != 1:
                    _fail(st, 'if-block must rebind exactly one existing variable')
                nm = _cid(rebound[0])
                out.append('let %s := if %s then (%s %s) else %s in' % (nm, c, ' '.join(inner), nm, nm))
                continue
            if isinstance(st, ast.Return) and k == len(stmts) - 1 and st.value is not None:
                v, t = self.expr(st.value)
                return ' '.join(out) + ' ' + v + ' '.join(closers), ('OP' if self.opt_match and t == 'P' else t)
            _fail(st, 'statement not in the fragment')
        _fail(stmts[-1] if stmts else 'empty', 'block does not end in return')


def _functions(tree, cls):
    for n in tree.body:
        if isinstance(n, ast.ClassDef) and n.name == cls:
            return {f.name: f for f in n.body if isinstance(f, ast.FunctionDef)}
    raise TranslationError('class %s not found' % cls)


def _params(fn, skip=1):
    a = fn.args
    if a.vararg or a.kwarg or a.kwonlyargs or a.posonlyargs:
        _fail(fn, 'parameter list shape')
    return [x.arg for x in a.args[skip:]]


def _body(fn):
    b = list(fn.body)
    if b and isinstance(b[0], ast.Expr) and isinstance(b[0].value, ast.Constant) and isinstance(b[0].value.value, str):
        b = b[1:]
    return b


COQ_T = {'S': 'F', 'V': 'vec F', 'M': 'mat F', 'P': 'pose F', 'LV': 'list (vec F)', 'BS': 'list (Z * pose F)',
         'LP': 'list (pose F)', 'CART': 'vec F'}


def _emit(name, fn, types, real=False, want=None, expect_params=None, method=False):
    ps = _params(fn, 0 if method else 1)
    if method and (not ps or ps[0] != 'self'):
        _fail(fn, 'not an instance method')
    if expect_params is not None and ps != expect_params:
        _fail(fn, 'parameters of %s are %s, expected %s' % (fn.name, ps, expect_params))
    if len(ps) != len(types):
        _fail(fn, 'arity')
    tr = Tr({p: (_cid(p), t) for p, t in zip(ps, types)}, real)
    ps = [_cid(p) for p in ps]
    body, t = tr.block(_body(fn))
    if want and t != want:
        _fail(fn, '%s returns type %s, expected %s' % (fn.name, t, want))
    ct = (lambda x: COQ_T[x].replace(' F', ' R').replace('F', 'R')) if real else (lambda x: COQ_T[x])
    binders = ' '.join('(%s : %s)' % (p, ct(t_)) for p, t_ in zip(ps, types))
    return 'Definition %s %s%s :=\n  %s.\n' % (name, '' if real else '(o : Ops F) ', binders, body)


def _check_dump(node, expected, what):
    got = ast.dump(node)
    if got != expected:
        raise TranslationError('%s has an unrecognised shape: %s' % (what, ast.unparse(node)[:200]))


def _expr_dump(src):
    return ast.dump(ast.parse(src).body[0])


def _loop_map(tr, stmts, i, coll_var):
    """`R = {}` + `for k, p in D.items(): R[k] = e(p)`   or   `R = {k: e(p) for k, p in D.items()}`."""
    st = stmts[i]
    tg = st.targets[0] if isinstance(st, ast.Assign) else getattr(st, 'target', None)
    if not isinstance(tg, ast.Name) or st.value is None:
        _fail(st, 'dict construction')
    res = tg.id
    if isinstance(st.value, ast.Dict) and not st.value.keys and i + 1 < len(stmts) and isinstance(stmts[i + 1], ast.For):
        fo = stmts[i + 1]
        ok = (isinstance(fo.target, ast.Tuple) and len(fo.target.elts) == 2 and all(isinstance(e, ast.Name) for e in fo.target.elts)
              and isinstance(fo.iter, ast.Call) and isinstance(fo.iter.func, ast.Attribute) and fo.iter.func.attr == 'items'
              and not fo.iter.args and not fo.orelse and len(fo.body) == 1 and isinstance(fo.body[0], ast.Assign)
              and isinstance(fo.body[0].targets[0], ast.Subscript) and _is_name(fo.body[0].targets[0].value, res))
        if not ok:
            _fail(fo, 'loop shape')
        kname, pname = fo.target.elts[0].id, fo.target.elts[1].id
        if not _is_name(fo.body[0].targets[0].slice, kname):
            _fail(fo, 'result key is not the input key')
        dname, val, used = fo.iter.func.value, fo.body[0].value, 2
    elif isinstance(st.value, ast.DictComp) and len(st.value.generators) == 1:
        g = st.value.generators[0]
        ok = (isinstance(g.target, ast.Tuple) and len(g.target.elts) == 2 and all(isinstance(e, ast.Name) for e in g.target.elts)
              and not g.ifs and isinstance(g.iter, ast.Call) and isinstance(g.iter.func, ast.Attribute)
              and g.iter.func.attr == 'items' and not g.iter.args)
        if not ok:
            _fail(st, 'dict comprehension shape')
        kname, pname = g.target.elts[0].id, g.target.elts[1].id
        if not _is_name(st.value.key, kname):
            _fail(st, 'result key is not the input key')
        dname, val, used = g.iter.func.value, st.value.value, 1
    else:
        _fail(st, 'dict construction')
    d, dt = tr.expr(dname)
    if dt != 'BS':
        _fail(st, 'iteration over a non-dict')
    sub = Tr(tr.env, tr.real)
    sub.env[pname] = ('(snd kv)', 'P')
    v, t = sub.expr(val)
    if t != 'P':
        _fail(st, 'dict value type')
    return res, '(map (fun kv => (fst kv, %s)) %s)' % (v, d), used


def _rexpr(n, names):
    """Scalar real-number expression of the class body of LhDeck4SensorPositions."""
    if isinstance(n, ast.Name) and n.id in names:
        return names[n.id]
    if isinstance(n, ast.Constant) and isinstance(n.value, (int, float)) and not isinstance(n.value, bool):
        fr = Fraction(repr(n.value))
        return '(%d / %d)' % (fr.numerator, fr.denominator) if fr.denominator != 1 else '%d' % fr.numerator
    if isinstance(n, ast.UnaryOp) and isinstance(n.op, ast.USub):
        return '(- %s)' % _rexpr(n.operand, names)
    if isinstance(n, ast.BinOp):
        if isinstance(n.op, ast.Pow) and _const(n.right) == 2:
            a = _rexpr(n.left, names)
            return '(%s * %s)' % (a, a)
        ops = {ast.Add: '+', ast.Sub: '-', ast.Mult: '*', ast.Div: '/'}
        if type(n.op) in ops:
            return '(%s %s %s)' % (_rexpr(n.left, names), ops[type(n.op)], _rexpr(n.right, names))
    if isinstance(n, ast.Call) and _is_np(n.func, 'sqrt') and len(n.args) == 1 and not n.keywords:
        return '(sqrt %s)' % _rexpr(n.args[0], names)
    _fail(n, 'deck geometry expression not in the fragment')


def _translate_deck(tree):
    """LhDeck4SensorPositions: the two sensor distances, the 4x3 sensor table and diagonal_distance."""
    cls = [n for n in tree.body if isinstance(n, ast.ClassDef) and n.name == 'LhDeck4SensorPositions']
    if len(cls) != 1:
        raise TranslationError('class LhDeck4SensorPositions not found')
    names, out, seen = {}, [], set()
    for st in cls[0].body:
        if isinstance(st, ast.Expr) and isinstance(st.value, ast.Constant) and isinstance(st.value.value, str):
            continue
        if not (isinstance(st, ast.Assign) and len(st.targets) == 1 and isinstance(st.targets[0], ast.Name)):
            _fail(st, 'LhDeck4SensorPositions body')
        nm = st.targets[0].id
        if nm == 'positions':
            v = st.value
            if not (isinstance(v, ast.Call) and _is_np(v.func, 'array') and len(v.args) == 1 and not v.keywords
                    and isinstance(v.args[0], (ast.List, ast.Tuple)) and len(v.args[0].elts) == 4
                    and all(isinstance(r, (ast.List, ast.Tuple)) and len(r.elts) == 3 for r in v.args[0].elts)):
                _fail(st, 'sensor table shape')
            rows = ['(V3 %s %s %s)' % tuple(_rexpr(e, names) for e in r.elts) for r in v.args[0].elts]
            out.append('Definition gen_deck_positions : list (vec R) :=\n  [%s].\n' % ';\n   '.join(rows))
        elif nm == 'diagonal_distance':
            out.append('Definition gen_deck_diagonal : R := %s.\n' % _rexpr(st.value, names))
        elif nm.startswith('_sensor_distance_'):
            out.append('Definition gen%s : R := %s.\n' % (nm, _rexpr(st.value, names)))
            names[nm] = 'gen' + nm
        else:
            _fail(st, 'unexpected attribute of LhDeck4SensorPositions')
        seen.add(nm)
    if not {'positions', 'diagonal_distance'} <= seen:
        raise TranslationError('LhDeck4SensorPositions lacks positions / diagonal_distance')
    return 'Open Scope R_scope.\n' + '\n'.join(out)


def translate(repo):
    """Returns (Gen_Code.v text, info).  Raises TranslationError on any unrecognised shape."""
    loc = os.path.join(repo, 'cflib', 'localization')
    src = {k: open(os.path.join(loc, k + '.py')).read() for k in
           ('lighthouse_types', 'lighthouse_system_aligner', 'lighthouse_system_scaler')}
    trees = {k: ast.parse(v) for k, v in src.items()}
    pose = _functions(trees['lighthouse_types'], 'Pose')
    al = _functions(trees['lighthouse_system_aligner'], 'LighthouseSystemAligner')
    sc = _functions(trees['lighthouse_system_scaler'], 'LighthouseSystemScaler')
    info = {}
    gen = []       # generic section
    genr = []      # real-number part

    # ---- Pose: storage, accessors, the three methods
    init = _body(pose['__init__'])
    if _params(pose['__init__']) != ['R_matrix', 't_vec'] or len(init) != 2:
        _fail(pose['__init__'], 'Pose.__init__ shape')
    _check_dump(init[0], _expr_dump('self._R_matrix = np.array(R_matrix)'), 'Pose.__init__ (rotation is copied into a new array)')
    _check_dump(init[1], _expr_dump('self._t_vec = np.array(t_vec)'), 'Pose.__init__ (translation is copied into a new array)')
    for prop, fld in (('rot_matrix', '_R_matrix'), ('translation', '_t_vec')):
        b = _body(pose[prop])
        if len(b) != 1:
            _fail(pose[prop], 'accessor shape')
        _check_dump(b[0], _expr_dump('return self.%s' % fld), 'Pose.%s' % prop)
    b = _body(pose['from_rot_vec'])
    if len(b) != 1:
        _fail(pose['from_rot_vec'], 'from_rot_vec shape')
    _check_dump(b[0], _expr_dump('return Pose(Rotation.from_rotvec(R_vec).as_matrix(), t_vec)'), 'Pose.from_rot_vec')
    gen.append(_emit('gen_rotate_translate', pose['rotate_translate'], ['P', 'V'], want='V', method=True))
    gen.append(_emit('gen_rotate_translate_pose', pose['rotate_translate_pose'], ['P', 'P'], want='P', method=True))
    # Pose.scale: exactly one statement, REBINDING self._t_vec to a new value (an augmented assignment would write the
    # shared array in place and is rejected)
    b = _body(pose['scale'])
    ps = _params(pose['scale'])
    if len(b) != 1 or len(ps) != 1 or not isinstance(b[0], ast.Assign) or len(b[0].targets) != 1:
        _fail(pose['scale'], 'Pose.scale must be a single rebinding assignment')
    _check_dump(b[0].targets[0], ast.dump(ast.parse('self._t_vec').body[0].value).replace('Load()', 'Store()', 1)
                if False else ast.dump(ast.parse('self._t_vec = 0').body[0].targets[0]), 'Pose.scale target')
    tr = Tr({'self': ('self', 'P'), ps[0]: (_cid(ps[0]), 'S')})
    ps = [_cid(ps[0])]
    v, t = tr.expr(b[0].value)
    if t != 'V':
        _fail(b[0], 'Pose.scale value type')
    gen.append('Definition gen_scale (o : Ops F) (self : pose F) (%s : F) : pose F :=\n  MkPose (rot self) %s.\n' % (ps[0], v))

    # ---- aligner
    gen.append(_emit('gen_de_flip', al['_de_flip_transformation'], ['P', 'LV', 'BS'], want='OP'))
    # _calc_residual: first statement builds the transform from the parameters; the rest is translated with the
    # transform as an argument
    cr = al['_calc_residual']
    ps = _params(cr)
    b = _body(cr)
    if len(ps) != 4 or not b:
        _fail(cr, '_calc_residual shape')
    _check_dump(b[0], _expr_dump('transform = cls._Pose_from_params(%s)' % ps[0]), '_calc_residual: transform from parameters')
    tr = Tr({'transform': ('transform', 'P'), ps[1]: (_cid(ps[1]), 'V'), ps[2]: (_cid(ps[2]), 'LV'), ps[3]: (_cid(ps[3]), 'LV')})
    ps = [_cid(p) for p in ps]
    body, t = tr.block(b[1:])
    if t != 'LS':
        _fail(cr, '_calc_residual result type')
    gen.append('Definition gen_residual (o : Ops F) (transform : pose F) (%s : vec F) (%s %s : list (vec F)) : list F :=\n  %s.\n'
               % (ps[1], ps[2], ps[3], body))
    b = _body(al['_Pose_from_params'])
    pp = _params(al['_Pose_from_params'])
    if len(b) != 1 or len(pp) != 1:
        _fail(al['_Pose_from_params'], 'shape')
    _check_dump(b[0], _expr_dump('return Pose.from_rot_vec(R_vec=%s[:3], t_vec=%s[3:])' % (pp[0], pp[0])), '_Pose_from_params')
    # _find_transformation: least_squares on cls._calc_residual from x0 = zeros(6) with args (origin, x_axis, xy_plane)
    ft = al['_find_transformation']
    fp = _params(ft)
    b = _body(ft)
    if len(fp) != 3 or len(b) != 4:
        _fail(ft, '_find_transformation shape')
    _check_dump(b[0], _expr_dump('args = (%s, %s, %s)' % tuple(fp)), '_find_transformation args')
    if not (isinstance(b[1], ast.Assign) and _is_name(b[1].targets[0], 'x0') and isinstance(b[1].value, ast.Call)
            and _is_np(b[1].value.func, 'zeros') and len(b[1].value.args) == 1 and _const(b[1].value.args[0]) == 6):
        _fail(b[1], 'start vector is not np.zeros(6)')
    ls = b[2].value if isinstance(b[2], ast.Assign) else None
    if not (isinstance(ls, ast.Call) and ast.unparse(ls.func) == 'scipy.optimize.least_squares' and len(ls.args) == 2
            and ast.unparse(ls.args[0]) == 'cls._calc_residual' and _is_name(ls.args[1], 'x0')
            and _is_name(b[2].targets[0], 'result')):
        _fail(b[2], 'optimiser call shape')
    kw = {k.arg: k.value for k in ls.keywords}
    if not _is_name(kw.get('args'), 'args'):
        _fail(b[2], 'optimiser args')
    info['least_squares'] = {k: ast.unparse(v) for k, v in kw.items() if k != 'args'}
    _check_dump(b[3], _expr_dump('return cls._Pose_from_params(result.x)'), '_find_transformation result')
    # align: optimiser -> de-flip -> the same transformation for every entry -> (result, transformation)
    an = al['align']
    ap = _params(an)
    b = _body(an)
    if len(ap) != 4 or len(b) < 4:
        _fail(an, 'align shape')
    _check_dump(b[0], _expr_dump('raw_transformation = cls._find_transformation(%s, %s, %s)' % tuple(ap[:3])), 'align: optimiser call')
    _check_dump(b[1], _expr_dump('transformation = cls._de_flip_transformation(raw_transformation, %s, %s)' % (ap[1], ap[3])),
                'align: de-flip call')
    tr = Tr({'transformation': ('transformation', 'P'), ap[3]: (_cid(ap[3]), 'BS')})
    res, loop, used = _loop_map(tr, b, 2, ap[3])
    rest = b[2 + used:]
    if len(rest) != 1:
        _fail(an, 'align tail')
    _check_dump(rest[0], _expr_dump('return %s, transformation' % res), 'align result')
    gen.append('Definition gen_align_loop (o : Ops F) (transformation : pose F) (%s : list (Z * pose F)) : list (Z * pose F) :=\n  %s.\n'
               % (_cid(ap[3]), loop))

    # ---- scaler
    gen.append(_emit('gen_calc_intersection_point', sc['calc_intersection_point'], ['CART', 'P', 'P'], want='V'))
    # _scale_system: copies of every pose, each copy scaled by the one factor, (bs, cf, factor)
    ss = sc['_scale_system']
    sp = _params(ss)
    b = _body(ss)
    if len(sp) != 3 or len(b) != 5:
        _fail(ss, '_scale_system shape')
    want = ['bs_scaled = {bs_id: copy.copy(pose) for bs_id, pose in %s.items()}' % sp[0],
            'for pose in bs_scaled.values():\n    pose.scale(%s)' % sp[2],
            'cf_scaled = [copy.copy(pose) for pose in %s]' % sp[1],
            'for pose in cf_scaled:\n    pose.scale(%s)' % sp[2],
            'return bs_scaled, cf_scaled, %s' % sp[2]]
    for st, w in zip(b, want):
        _check_dump(st, _expr_dump(w), '_scale_system (copy, then scale the copies)')
    gen.append('Definition gen_scale_system (o : Ops F) (%s : list (Z * pose F)) (%s : list (pose F)) (%s : F) :=\n'
               '  (map (fun kv => (fst kv, gen_scale o (snd kv) %s)) %s, map (fun p_ => gen_scale o p_ %s) %s, %s).\n'
               % tuple(_cid(x) for x in (sp[0], sp[1], sp[2], sp[2], sp[0], sp[2], sp[1], sp[2])))
    # real-number part
    genr.append(_emit('gen_calc_intersection_distance', sc['calc_intersection_distance'], ['CART', 'CART', 'P', 'P'], real=True, want='S'))
    genr.append(_emit('gen_scale_fixed_point', sc['scale_fixed_point'], ['BS', 'LP', 'V', 'P'], real=True, want='TR'))
    # _calculate_mean_diagonal / scale_diagonals: structure only (nested iteration is flattened in the model)
    md = _body(sc['_calculate_mean_diagonal'])
    mp = _params(sc['_calculate_mean_diagonal'])
    want = ['diagonals: list[float] = []',
            'for cf_pose, sample in zip(%s, %s):\n    for bs_id, vectors in sample.angles_calibrated.items():\n'
            '        diagonals.append(cls.calc_intersection_distance(vectors[0], vectors[3], %s[bs_id], cf_pose))\n'
            '        diagonals.append(cls.calc_intersection_distance(vectors[1], vectors[2], %s[bs_id], cf_pose))' % (mp[1], mp[2], mp[0], mp[0]),
            'estimated_diagonal = np.mean(diagonals)', 'return estimated_diagonal']
    if len(md) != 4:
        _fail(sc['_calculate_mean_diagonal'], 'shape')
    for st, w in zip(md, want):
        _check_dump(st, _expr_dump(w), '_calculate_mean_diagonal')
    sd = _body(sc['scale_diagonals'])
    dp = _params(sc['scale_diagonals'])
    want = ['estimated_diagonal = cls._calculate_mean_diagonal(%s, %s, %s)' % tuple(dp[:3]),
            'scale_factor = %s / estimated_diagonal' % dp[3],
            'return cls._scale_system(%s, %s, scale_factor)' % tuple(dp[:2])]
    if len(sd) != 3:
        _fail(sc['scale_diagonals'], 'shape')
    for st, w in zip(sd, want):
        _check_dump(st, _expr_dump(w), 'scale_diagonals')

    text = ('(* GENERATED on every run by harness/props/c16.py (translate) from cflib/localization/lighthouse_types.py,\n'
            '   lighthouse_system_aligner.py and lighthouse_system_scaler.py.  Do not edit. *)\n'
            'From Coq Require Import ZArith List Reals.\nFrom CF Require Import C16.Model.\nImport ListNotations.\n\n'
            'Section Gen.\nContext {F : Type}.\n\n' + '\n'.join(gen) + '\nEnd Gen.\n\n' + '\n'.join(genr)
            + '\n' + _translate_deck(trees['lighthouse_types']))
    return text, info


def generate(ctx):
    text, info = translate(ctx.repo)
    path = os.path.join(coqrun.COQ_DIR, 'C16', 'Gen_Code.v')
    old = open(path).read() if os.path.exists(path) else None
    if old != text:
        with open(path, 'w') as f:
            f.write(text)
    info['functions'] = text.count('Definition ')
    info['file'] = 'coq/C16/Gen_Code.v'
    return info
