"""C13, quaternion clause — cflib/utils/encoding.py compress_quaternion / decompress_quaternion.

Exposes tie_quat / oracle_quat / replay_quat (merged into props/c13.py by the coordinator).

Tie (V): the Coq model C13/QuatModel.v is EXACT arithmetic on the double inputs (four doubles scaled by a
power of two = four integers).  Every generated case is evaluated (a) by the Coq model (vm_compute),
(b) by an integer-only Python mirror of the model (math.isqrt), (c) by the real cflib functions.
(a) = (b) is required on every case (digest comparison inside Coq, so nothing big is printed);
(b) vs (c):  compress: exact equality of the 32-bit word, except inputs whose exact value
511*sqrt2*|n_i| + 1/2 lies within 1e-9 of an integer (class `near_boundary`, counted separately:
that magnitude field may differ by +-1 because numpy evaluates in float64) and inputs whose two largest
|components| differ by less than 1e-12 relative without being equal (class `near_tie`: float normalisation
may collapse them; the word for the exact tie is accepted as well);  decompress: every component within
1e-12 of the value reconstructed from the model's integer fields, nan iff the model's radicand is negative.

Oracle: the property text on the real code: comp is an int with 0 <= comp < 2^32, decompress(comp) has no
nan, and there is one sign s with |d_i - s*q_i/|q|| <= 2/(511*sqrt 2) for the four components."""
import itertools
import math
import warnings

from core import coqrun

K2 = 2 * 511 * 511
STEP = 1.0 / (511.0 * math.sqrt(2.0))
HEADER = 'From CF Require Import Common.Bytes C13.QuatModel.\nOpen Scope Z_scope.\n'

PROVED = (
    'Quaternion clause, over the exact-arithmetic model C13/QuatModel.v of compress_quaternion / '
    'decompress_quaternion (inputs: every 4-tuple of integers m, i.e. every finite double quaternion up to a '
    'power-of-two scale, which normalisation cancels; theorem C13_quat_scale_invariant): compress raises exactly '
    'on the zero quaternion; the dropped index is the first maximum of |m_i|; the packed word satisfies '
    '0 <= comp < 2^32, every magnitude is <= 511 and decompress\'s bit unpacking returns exactly the index and the '
    'three (negbit, mag) fields (C13_quat_fits_32, C13_quat_unpack_pack; closed under the global context); the '
    'integer magnitude is the real rounding floor(511*sqrt2*|n_i| + 1/2) (C13_quat_mag_rounding); in real '
    'arithmetic the three packed components come back within half a step of s*n_i (C13_quat_small_components), '
    'the radicand 1 - S\' is positive and the reconstructed component is within two steps of s*n_largest '
    '(C13_quat_largest), and the round trip is a unit quaternion within two steps (2/511 of 1/sqrt2) of +n or -n '
    'in every component, i.e. the same rotation (C13_quat_same_rotation).  Real-number theorems depend only on the '
    'Coq standard library axioms of the classical reals.')
NOT_PROVED = (
    'The float64 evaluation performed by numpy (norm, division, *511, +0.5, int(), sqrt) is NOT modelled: the '
    'theorems are about exact real arithmetic on the double inputs.  It is validated numerically on every run: the '
    'packed word of the real function equals the model\'s on every generated input (inputs within 1e-9 of a '
    'rounding boundary and 1-ulp near-ties of the largest component are counted separately and compared with the '
    'stated allowance) and decompress agrees with the model\'s reconstruction to 1e-12; the property text is also '
    'checked directly on the real code (oracle).  Not covered: inputs containing nan/inf or whose squared norm '
    'over/underflows float64, tiny components that underflow to zero after normalisation, arguments of '
    'decompress_quaternion outside 0..2^32-1.')
TRUSTED_BASE_QUAT = [
    'C13/QuatModel.v is hand-written from cflib/utils/encoding.py compress_quaternion/decompress_quaternion; tied on '
    'every run by differential evaluation (Coq model = integer mirror on every case by digest; mirror vs real '
    'functions exactly / to 1e-12)',
    'Coq.Reals axioms (classical Dedekind reals, functional extensionality) for the real-number theorems',
]
ASSUMPTIONS_QUAT = [
    'float64 rounding inside numpy moves 511*(|n_i|/M_SQRT1_2)+0.5 by far less than 1e-9 (observed < 1e-12) and never '
    'across an integer except for inputs within 1e-9 of a rounding boundary (measured every run)',
]


# ---------------------------------------------------------------------------------- implementation side

def _impl_compress(q):
    from cflib.utils.encoding import compress_quaternion
    import numpy as np
    try:
        with warnings.catch_warnings():
            warnings.simplefilter('ignore')
            with np.errstate(all='ignore'):
                r = compress_quaternion(list(q))
    except Exception as e:  # noqa
        return ['raise', type(e).__name__]
    if isinstance(r, bool) or not isinstance(r, (int, np.integer)):
        return ['type', type(r).__name__]
    return int(r)


def _impl_decompress(comp):
    from cflib.utils.encoding import decompress_quaternion
    import numpy as np
    try:
        with warnings.catch_warnings():
            warnings.simplefilter('ignore')
            with np.errstate(all='ignore'):
                r = decompress_quaternion(comp)
        return [float(x) for x in r]
    except Exception as e:  # noqa
        return ['raise', type(e).__name__]


# ---------------------------------------------------------------------------------- integer mirror of QuatModel.v

def to_ints(q):
    """four finite doubles -> four integers with q_i = m_i * 2^k (common k), reduced by the common power of two"""
    fr = [float(x).as_integer_ratio() for x in q]
    den = max(d for _, d in fr)
    m = [n * (den // d) for n, d in fr]
    g = 0
    for x in m:
        g |= abs(x)
    if g:
        tz = (g & -g).bit_length() - 1
        m = [x >> tz if x >= 0 else -((-x) >> tz) for x in m]
    return m


def m_ilargest(m):
    il = 0
    for i in range(1, 4):
        if abs(m[i]) > abs(m[il]):
            il = i
    return il


def m_mag(B, mi):
    A = K2 * mi * mi
    return (math.isqrt(4 * A * B) + B) // (2 * B)


def m_compress(m):
    B = sum(x * x for x in m)
    if B == 0:
        return -1
    il = m_ilargest(m)
    neg = m[il] < 0
    comp = il
    for i in range(4):
        if i != il:
            nb = 1 if ((m[i] < 0) != neg) else 0
            comp = (comp << 10) | (nb << 9) | m_mag(B, m[i])
    return comp


def m_unpack_flat(comp):
    il = comp >> 30
    fields = []
    c = comp
    for i in range(3, -1, -1):
        if i != il:
            fields.insert(0, ((c >> 9) & 1, c & 511))
            c >>= 10
    flat = [il]
    for nb, g in fields:
        flat += [nb, g]
    flat.append(K2 - sum(g * g for _, g in fields))
    return flat


def boundary_dist(m, i):
    """distance of the exact value 511*sqrt2*|n_i| + 1/2 from the nearest integer (exact to ~2^-70)"""
    B = sum(x * x for x in m)
    A = K2 * m[i] * m[i]
    t = math.isqrt((A << 160) // B)          # sqrt(A/B) * 2^80
    fr = (t + (1 << 79)) & ((1 << 80) - 1)
    return min(fr, (1 << 80) - fr) / float(1 << 80)


def near_tie(m):
    a = sorted((abs(x) for x in m), reverse=True)
    return a[0] != a[1] and (a[0] - a[1]) * 10 ** 12 < a[0]


def expected_decompress(flat):
    il = flat[0]
    vals = []
    k = 1
    for i in range(4):
        if i == il:
            dn = flat[-1]
            vals.append(math.sqrt(dn / K2) if dn >= 0 else float('nan'))
        else:
            nb, g = flat[k], flat[k + 1]
            k += 2
            v = g / 511.0 / math.sqrt(2.0)
            vals.append(-v if nb == 1 else v)
    return vals


# ---------------------------------------------------------------------------------- generators

def _snap(q):
    """make accidental near-ties (|a|,|b| within 1e-9 relative but unequal) exact ties: the float
    normalisation of the real code may or may not collapse them, which is not what a case should test"""
    q = list(q)
    for i in range(4):
        for j in range(i + 1, 4):
            a, b = abs(q[i]), abs(q[j])
            if a != b and abs(a - b) <= 1e-9 * max(a, b):
                q[j] = math.copysign(a, q[j])
    return q


def gen_cases(rng, n_grid, n_random):
    """list of (class, [x, y, z, w]) — finite doubles, non-zero unless class == 'zero'"""
    cs = []
    for i in range(4):                                           # axis-aligned, both signs, scaled, signed zeros
        for sg in (1.0, -1.0):
            for sc in (1.0, 1e-3, 1e3, 0.3):
                q = [0.0] * 4
                q[i] = sg * sc
                cs.append(('axis', q))
            q = [-0.0] * 4
            q[i] = sg
            cs.append(('axis', q))
    for v in itertools.product((-1.0, 0.0, 1.0), repeat=4):       # every 2/3/4-way exact tie, every sign pattern
        if any(v):
            cs.append(('tie', list(v)))
    for i, j in itertools.combinations(range(4), 2):             # exact tie of the two largest + smaller rest
        for si, sj in itertools.product((1.0, -1.0), repeat=2):
            q = [rng.uniform(-0.95, 0.95) for _ in range(4)]
            q[i], q[j] = si, sj
            sc = 10.0 ** rng.uniform(-3, 3)
            cs.append(('tie', [x * sc for x in q]))
    for _ in range(12):                                          # three-way ties with a smaller fourth
        q = [rng.choice((-1.0, 1.0)) for _ in range(4)]
        q[rng.randrange(4)] = rng.uniform(-0.9, 0.9)
        cs.append(('tie', [x * 0.37 for x in q]))
    # grid over the 3-sphere (hyperspherical angles), incl. the poles and the coordinate planes
    n = n_grid
    for a in range(n + 1):
        psi = math.pi * a / n
        for b in range(n + 1):
            th = math.pi * b / n
            for c in range(2 * n):
                ph = math.pi * c / n
                q = [math.cos(psi), math.sin(psi) * math.cos(th), math.sin(psi) * math.sin(th) * math.cos(ph),
                     math.sin(psi) * math.sin(th) * math.sin(ph)]
                cs.append(('grid', _snap(q)))
    # random directions; negated and unnormalised copies
    for _ in range(n_random):
        q = [rng.gauss(0, 1) for _ in range(4)]
        cs.append(('random', q))
        r = rng.random()
        if r < 0.25:
            cs.append(('negated', [-x for x in q]))
        elif r < 0.6:
            sc = 10.0 ** rng.uniform(-3, 3)
            cs.append(('unnormalised', [x * sc for x in q]))
    for _ in range(n_random // 4):                               # small components next to large ones
        q = [rng.gauss(0, 1) for _ in range(4)]
        for k in rng.sample(range(4), rng.randint(1, 2)):
            q[k] *= 10.0 ** rng.uniform(-9, -2)
        cs.append(('small_component', q))
    for _ in range(n_random // 4):                               # near 4-way ties: all magnitudes about 1/2
        q = [rng.choice((-1.0, 1.0)) * (1.0 + rng.uniform(-0.02, 0.02)) for _ in range(4)]
        cs.append(('near_equal', q))
    # inputs placed on a rounding boundary of the magnitude (exact value within ~1e-13 .. 1e-8 of j - 1/2 + 1/2)
    kq = 511.0 * math.sqrt(2.0)
    for _ in range(max(20, n_random // 10)):
        j = rng.randrange(1, 511)
        t = (j - 0.5) / kq
        t *= 1.0 + rng.randrange(-3, 4) * 1e-11
        rest = math.sqrt(1.0 - t * t)
        u = [rng.gauss(0, 1) for _ in range(3)]
        if rng.random() < 0.5:
            u = [1.0, 0.0, 0.0]
        nu = math.sqrt(sum(x * x for x in u))
        q = [t] + [rest * x / nu for x in u]
        rng.shuffle(q)
        if rng.random() < 0.5:
            q = [-x for x in q]
        cs.append(('boundary', _snap(q)))
    # 1-ulp near-ties of the two largest components
    for _ in range(48):
        base = rng.uniform(0.7, 1.4)
        q = [rng.uniform(-0.6, 0.6) for _ in range(4)]
        i, j = rng.sample(range(4), 2)
        q[i] = rng.choice((-1.0, 1.0)) * base
        q[j] = rng.choice((-1.0, 1.0)) * math.nextafter(base, 2.0)
        cs.append(('ulp_tie', q))
    return cs


# ---------------------------------------------------------------------------------- tie

def _zl(m):
    return coqrun.zlist(m)


def tie_quat(ctx):
    dis = []
    cases = gen_cases(ctx.rng, ctx.scale(7, 14), ctx.scale(1500, 20000))
    cases.append(('zero', [0.0, 0.0, 0.0, 0.0]))
    cases.append(('zero', [0.0, -0.0, 0.0, -0.0]))
    ints = [to_ints(q) for _, q in cases]
    mirror = [m_compress(m) for m in ints]
    # (a) Coq model = mirror on every case, blocks of 64 by digest
    BS = 64
    starts = list(range(0, len(cases), BS))
    terms = ['map compress_enc [%s]' % '; '.join(_zl(m) for m in ints[a:a + BS]) for a in starts]
    exp = [mirror[a:a + BS] for a in starts]
    for bi, mv in coqrun.compare_blocks(HEADER, terms, exp, tag='c13qa', shard=8):
        a = starts[bi]
        for k in range(len(exp[bi])):
            if mv is None or mv[k] != exp[bi][k]:
                if len(dis) < 6:
                    dis.append({'what': 'compress_quaternion: Coq model and its integer mirror differ (harness bug or model edit)',
                                'input': cases[a + k][1], 'ints': ints[a + k],
                                'model': None if mv is None else mv[k], 'mirror': exp[bi][k]})
    # (b) mirror vs the real function
    dist = {}
    n_boundary = n_boundary_pm1 = n_neartie = n_neartie_collapsed = 0
    seen = set()
    nontriv = 0
    il_hist = [0, 0, 0, 0]
    neg_largest = 0
    exact_ties = 0
    impl_comps = []
    for (cls, q), m, mc in zip(cases, ints, mirror):
        dist[cls] = dist.get(cls, 0) + 1
        got = _impl_compress(q)
        key = tuple(m)
        if key not in seen:
            seen.add(key)
            if sum(1 for x in m if x) >= 2:
                nontriv += 1
        if mc == -1:
            if got != ['raise', 'ValueError']:
                dis.append({'what': 'compress_quaternion on the zero quaternion: model says ValueError', 'input': q, 'impl': got})
            continue
        il = m_ilargest(m)
        il_hist[il] += 1
        neg_largest += m[il] < 0
        a = sorted((abs(x) for x in m), reverse=True)
        exact_ties += a[0] == a[1]
        if not isinstance(got, int):
            dis.append({'what': 'compress_quaternion: implementation does not return an int', 'input': q, 'impl': got,
                        'model': mc})
            continue
        if 0 <= got < 2 ** 32:
            impl_comps.append(got)
        if got == mc:
            continue
        # allowances, each counted
        kept = [i for i in range(4) if i != il]
        nb_fields = [k for k, i in enumerate(kept) if boundary_dist(m, i) < 1e-9]
        ok = False
        if nb_fields and 0 <= got < 2 ** 32:
            fm, fi = m_unpack_flat(mc), m_unpack_flat(got)
            ok = fm[0] == fi[0]
            for k in range(3):
                ok = ok and fm[1 + 2 * k] == fi[1 + 2 * k]
                dm = abs(fm[2 + 2 * k] - fi[2 + 2 * k])
                ok = ok and (dm == 0 or (dm == 1 and k in nb_fields))
            if ok:
                n_boundary_pm1 += 1
        if not ok and near_tie(m):
            order = sorted(range(4), key=lambda i: -abs(m[i]))
            m2 = list(m)
            m2[order[1]] = abs(m[order[0]]) * (1 if m[order[1]] >= 0 else -1)
            if got == m_compress(m2):
                ok = True
                n_neartie_collapsed += 1
        if not ok and len(dis) < 12:
            dis.append({'what': 'compress_quaternion: model and implementation differ', 'class': cls, 'input': q,
                        'ints': m, 'model': mc, 'impl': got, 'model_fields': m_unpack_flat(mc),
                        'impl_fields': m_unpack_flat(got) if 0 <= got < 2 ** 32 else None,
                        'boundary_dist': [boundary_dist(m, i) for i in kept]})
    for (cls, q), m, mc in zip(cases, ints, mirror):
        if mc != -1:
            il = m_ilargest(m)
            if any(boundary_dist(m, i) < 1e-9 for i in range(4) if i != il):
                n_boundary += 1
            if near_tie(m):
                n_neartie += 1
    # ---- decompress: words produced by the real compress + random / edge words
    words = list(dict.fromkeys(impl_comps))
    rw = ctx.scale(600, 6000)
    words = words[:ctx.scale(2500, 30000)]
    for _ in range(rw):
        words.append(ctx.rng.getrandbits(32))
    for il in range(4):
        words += [il << 30, (il << 30) | 0x3FFFFFFF, (il << 30) | (511 << 20) | (511 << 10) | 511,
                  (il << 30) | (722 & 511), (il << 30) | (1 << 29) | (361 << 20) | (1 << 19) | (361 << 10) | 361]
    mflat = [m_unpack_flat(w) for w in words]
    starts = list(range(0, len(words), BS))
    terms = ['concat (map unpack_flat %s)' % _zl(words[a:a + BS]) for a in starts]
    exp = [[x for f in mflat[a:a + BS] for x in f] for a in starts]
    for bi, mv in coqrun.compare_blocks(HEADER, terms, exp, tag='c13qb', shard=8):
        if len(dis) < 14:
            dis.append({'what': 'decompress_quaternion bit unpacking: Coq model and its integer mirror differ',
                        'first_word_of_block': words[starts[bi]], 'model': None if mv is None else mv[:16],
                        'mirror': exp[bi][:16]})
    n_nan = 0
    max_err = 0.0
    for w, fl in zip(words, mflat):
        got = _impl_decompress(w)
        want = expected_decompress(fl)
        bad = None
        if not (isinstance(got, list) and len(got) == 4 and got[:1] != ['raise']):
            bad = 'shape'
        else:
            for g, e in zip(got, want):
                if math.isnan(e) or math.isnan(g):
                    if not (math.isnan(e) and math.isnan(g)):
                        bad = 'nan'
                else:
                    max_err = max(max_err, abs(g - e))
                    if abs(g - e) > 1e-12:
                        bad = 'value'
            n_nan += any(math.isnan(e) for e in want)
        if bad and len(dis) < 18:
            dis.append({'what': 'decompress_quaternion: model and implementation differ (%s)' % bad, 'word': w,
                        'model_fields': fl, 'model_value': want, 'impl': got})
    samples = []
    for cls in ('grid', 'tie', 'unnormalised', 'boundary'):
        for (c, q), m, mc in zip(cases, ints, mirror):
            if c == cls and sum(1 for x in m if x) >= 2:
                samples.append({'quat': q, 'class': c, 'ints': [str(x) for x in m], 'comp': mc,
                                'fields': m_unpack_flat(mc)})
                break
    return {
        'evaluations': len(cases) + len(words),
        'distinct_nontrivial': nontriv,
        'rule': 'quaternion: distinct integer 4-tuples (the doubles scaled by a common power of two) with at least two '
                'non-zero components; every case evaluated by the Coq model (digest), its integer mirror and the real '
                'compress_quaternion (exact equality of the 32-bit word; +-1 in a magnitude only for the counted '
                'near_boundary inputs; counted near_tie inputs may resolve to the exact tie); decompress_quaternion on '
                'the produced words, random and edge 32-bit words against the model fields to 1e-12',
        'samples': samples,
        'distribution': {'quat_classes': dist, 'quat_i_largest_histogram': il_hist,
                         'quat_negative_largest': int(neg_largest), 'quat_exact_ties_of_largest': int(exact_ties),
                         'quat_near_boundary_inputs': n_boundary, 'quat_near_boundary_off_by_one': n_boundary_pm1,
                         'quat_near_tie_inputs': n_neartie, 'quat_near_tie_collapsed_by_float': n_neartie_collapsed,
                         'quat_decompress_words': len(words), 'quat_decompress_nan_words': int(n_nan),
                         'quat_decompress_max_abs_diff': max_err},
        'exhaustive': False,
        'disagreements': dis,
    }


# ---------------------------------------------------------------------------------- oracle (property text on the real code)

def check_roundtrip(q):
    """None if the property holds for q on the current tree, else a failure dict"""
    case = {'fn': 'quaternion', 'quat': [float(x) for x in q]}
    comp = _impl_compress(q)
    if not isinstance(comp, int):
        return {'class': 'quat_compress_raises_or_not_int', 'case': case, 'expected': 'a 32-bit int',
                'observed': comp, 'detail': 'compress_quaternion on a non-zero quaternion must return an int'}
    if not (0 <= comp < 2 ** 32):
        return {'class': 'quat_not_32_bits', 'case': case, 'expected': '0 <= comp < 2**32', 'observed': comp,
                'detail': 'compressed quaternion does not fit 32 bits'}
    d = _impl_decompress(comp)
    if not (isinstance(d, list) and len(d) == 4 and d[:1] != ['raise']):
        return {'class': 'quat_decompress_raises', 'case': case, 'expected': '4 floats', 'observed': d,
                'detail': 'decompress_quaternion(compress_quaternion(q)) failed'}
    if any(math.isnan(x) or math.isinf(x) for x in d):
        return {'class': 'quat_roundtrip_nan', 'case': case, 'expected': 'finite components', 'observed': d,
                'detail': 'decompress took the square root of a negative number'}
    # exact normalisation of the input (integers, one correctly rounded division per component)
    m = to_ints(q)
    B = sum(x * x for x in m)
    rt = math.isqrt(B << 200)
    n = [float((x << 300) // rt) / float(1 << 200) for x in m]
    errs = []
    for s in (1.0, -1.0):
        errs.append(max(abs(di - s * ni) for di, ni in zip(d, n)))
    e = min(errs)
    if e > 2.0 * STEP:
        others_ok = max(abs(abs(di) - abs(ni)) for di, ni in zip(d, n)) <= 2.0 * STEP
        return {'class': 'quat_not_same_rotation' if others_ok else 'quat_component_error', 'case': case,
                'expected': {'normalised': n, 'bound': 2.0 * STEP},
                'observed': {'comp': comp, 'decompressed': d, 'max_error_steps': e / STEP},
                'detail': 'round trip differs from +-q/|q| by %.3f quantisation steps (allowed 2)' % (e / STEP)}
    return None


def oracle_quat(ctx, deep=False):
    fails = []
    k = 4 if deep else 1
    cases = gen_cases(ctx.rng, ctx.scale(6, 10) + (4 if deep else 0), ctx.scale(1500, 15000) * k)
    # the three round trips of the repository's own test, and the witnesses of classes seen before
    cases += [('repo_test', [0.0, 0.0, 0.0, 1.0]), ('repo_test', [0.5, 0.5, 0.5, 0.5]),
              ('repo_test', [0.1, -0.2, 0.3, -0.4])]
    worst = 0.0
    n = 0
    seen = set()
    for cls, q in cases:
        n += 1
        f = check_roundtrip(q)
        if f is not None and f['class'] not in seen:
            seen.add(f['class'])
            f['case']['class'] = cls
            fails.append(f)
    return {'evaluations': n, 'failures': fails,
            'rule': 'quaternion: compress/decompress round trip on the real code: int in 0..2^32-1, no nan, one sign s '
                    'with every |d_i - s q_i/|q|| <= 2/(511 sqrt 2)'}


def replay_quat(payload, ctx):
    c = payload['case']
    if c.get('fn') != 'quaternion':
        return None
    return check_roundtrip(c['quat'])
