"""C13 — numeric wire codecs.  Tie: exhaustive differential evaluation model <-> implementation
(fp16: all 65 536 patterns + the signed view; LED: every level x intensity per channel)."""
import math
import struct

from core import coqrun

ID = 'C13'
PROPERTY_FILE = 'C13/Property.v'
PROPERTY_FILES = ['C13/Property.v', 'C13/QuatProperty.v', 'C13/TrajFlocqProperty.v']
LEVEL = 'proof'
# primitive-float / primitive-integer declarations and the stdlib's FloatAxioms, as Print Assumptions lists them
FLOAT_NAMES = {'FloatAxioms.Prim2SF_valid', 'FloatAxioms.SF2Prim_Prim2SF', 'FloatAxioms.Prim2SF_SF2Prim', 'FloatAxioms.mul_spec',
               'PrimFloat.float', 'PrimFloat.eqb', 'PrimFloat.abs', 'PrimFloat.div', 'PrimFloat.frshiftexp',
               'PrimFloat.ldshiftexp', 'PrimFloat.ltb', 'PrimFloat.mul', 'PrimFloat.normfr_mantissa', 'PrimFloat.of_uint63',
               'PrimFloat.opp', 'PrimInt63.int', 'PrimInt63.eqb', 'PrimInt63.land', 'PrimInt63.lor', 'PrimInt63.lsl',
               'PrimInt63.lsr', 'PrimInt63.sub',
               # Print Assumptions prints some primitives unqualified
               'abs', 'div', 'frshiftexp', 'ldshiftexp', 'ltb', 'mul', 'normfr_mantissa', 'of_uint63', 'opp', 'float', 'eqb',
               'Prim2SF_valid', 'SF2Prim_Prim2SF', 'Prim2SF_SF2Prim', 'mul_spec'}
ALLOWED_AXIOMS = {'C13/Property.v': (), 'C13/QuatProperty.v': coqrun.REAL_AXIOMS,
                  'C13/TrajFlocqProperty.v': set(coqrun.REAL_AXIOMS) | FLOAT_NAMES}
TRUSTED_BASE = [
    'C13/Model.v is hand-written from cflib/utils/encoding.py and led_driver_memory.py; tied by exhaustive '
    'differential evaluation on every run (all fp16 patterns, all level x intensity pairs per LED channel)',
    'IEEE-754 decoding (ieee_decode) is the specification side; CPython struct "f"/"I" reinterpretation is assumed '
    'to be a bit cast (checked against numpy.float16 on all patterns by the oracle)',
]
ASSUMPTIONS = [
    'Python int(x*i/100) equals floor(x*i/100) for 0<=x<64, 0<=i<=100 (validated exhaustively by the LED tie)',
]
HEADER = 'From CF Require Import Common.Bytes C13.Model.\nOpen Scope Z_scope.\n' \
         'Definition enc (r : pyres) : Z * Z := match r with RInt z => (0, z) | RF32 b => (1, b) end.\n'


def _impl_fp16(h):
    from cflib.utils.encoding import fp16_to_float
    try:
        r = fp16_to_float(h)
    except Exception as e:  # noqa
        return ['raise', type(e).__name__]
    if isinstance(r, bool) or isinstance(r, int):
        return [0, int(r)]
    if isinstance(r, float):
        if math.isnan(r):
            return [2, 0]
        try:
            return [1, struct.unpack('<I', struct.pack('<f', r))[0]]
        except OverflowError:
            return ['float-not-binary32', repr(r)]
    return ['type', type(r).__name__]


def _canon_model(v):
    k, b = v
    if k == 1 and (b >> 23) & 0xFF == 0xFF and (b & 0x7FFFFF):
        return [2, 0]
    return [k, b]


def _ref_fp16(h):
    """IEEE binary16 value of the 16-bit pattern, via numpy (independent of model and implementation)."""
    import numpy as np
    v = np.array([h & 0xFFFF], dtype=np.uint16).view(np.float16).astype(np.float32)[0]
    if np.isnan(v):
        return [2, 0]
    return [1, int(np.array([v], dtype=np.float32).view(np.uint32)[0])]


class _Rec:
    def __init__(self):
        self.w = []

    def write(self, mem, addr, data, flush_queue=False):
        self.w.append((addr, bytes(data), flush_queue))


_led_obj = {}


def _impl_led(colors, intensity):
    """colors: list of 12 (r,g,b); returns list of 12 big-endian 565 words.  All writes of a run go through ONE
    LEDDriverMemory object (as an application does): what is written must depend on the current colours and
    intensity only, never on what was written before."""
    from cflib.crazyflie.mem.led_driver_memory import LEDDriverMemory
    if 'm' not in _led_obj:
        rec = _Rec()
        _led_obj['m'] = (LEDDriverMemory(id=4, type=0x10, size=24, mem_handler=rec), rec)
    m, rec = _led_obj['m']
    del rec.w[:]
    for led, (r, g, b) in zip(m.leds, colors):
        led.r, led.g, led.b, led.intensity = r, g, b, intensity
    m.write_data(None)
    (addr, data, fl), = rec.w
    assert addr == 0 and len(data) == 24
    return [data[2 * k] * 256 + data[2 * k + 1] for k in range(12)]


def _impl_ledt(entries):
    """entries: list of (time, r, g, b, leds, fade, rotate); returns the bytes LEDTimingsDriverMemory.write_data hands
    to the memory handler (4 bytes per emitted step + the all-zero terminator)."""
    from cflib.crazyflie.mem.led_timings_driver_memory import LEDTimingsDriverMemory
    rec = _Rec()
    m = LEDTimingsDriverMemory(id=5, type=0x17, size=2000, mem_handler=rec)
    for (t, r, g, b, leds, fade, rot) in entries:
        m.add(t, {'r': r, 'g': g, 'b': b}, leds, fade, rot)
    m.write_data(None)
    (addr, data, fl), = rec.w
    assert addr == 0
    return list(bytes(data))


def _ledt_steps(img):
    """what the firmware reads: 4-byte steps up to the first all-zero one"""
    out = []
    for i in range(0, len(img) - 3, 4):
        st = img[i:i + 4]
        if st == [0, 0, 0, 0]:
            break
        out.append((st[0], st[1] * 256 + st[2], st[3]))
    return out


def oracle_led_timings(ctx, deep=False):
    """LED timing sequences (property text: 8-bit colours map monotonically onto RGB565, black to 0, white to full scale;
    here without intensity).  Every step whose encoded form is not all-zero must reach the firmware, in order."""
    fails = []
    n = 0

    def bad(cls, case, **kw):
        fails.append(dict({'class': cls, 'case': dict(case, fn='led_timings')}, **kw))
    try:
        marker = (1, _ref565(9, 9, 9), 0)
        for t in (0, 3, 256):
            prev = None
            for c in range(256):
                cur = []
                for ch in range(3):
                    rgb = [(c if j_ == ch else 0) for j_ in range(3)]
                    steps = _ledt_steps(_impl_ledt([(t, rgb[0], rgb[1], rgb[2], 0, False, 0), (1, 9, 9, 9, 0, False, 0)]))
                    n += 1
                    case = {'time': t, 'level': c, 'channel': 'rgb'[ch]}
                    if not steps or steps[-1] != marker or len(steps) > 2:
                        bad('led_timings_steps_lost', case, observed=steps)
                        cur.append(0)
                        continue
                    if len(steps) == 1:
                        # the colour step was not emitted: allowed only if all four of its bytes are zero
                        if (t & 255) != 0 or _ref565(*rgb) != 0:
                            bad('led_timings_colour_step_dropped', case, observed=steps,
                                detail='a step with a non-black colour (or a delay) never reaches the firmware')
                        cur.append(0)
                        continue
                    w = steps[0][1]
                    field = ((w >> 11) & 31, (w >> 5) & 63, w & 31)
                    if steps[0][0] != (t & 255) or steps[0][2] != 0 or any(field[j_] for j_ in range(3) if j_ != ch):
                        bad('led_field_bleed', case, observed=steps)
                    cur.append(field[ch])
                if prev is not None and any(a > b for a, b in zip(prev, cur)):
                    bad('led_not_monotone', {'time': t, 'level': c}, observed=[prev, cur])
                prev = cur
                if c == 255 and cur != [31, 63, 31]:
                    bad('led_white_not_full', {'time': t, 'level': c}, observed=cur)
                if c == 0 and cur != [0, 0, 0]:
                    bad('led_black_not_zero', {'time': t, 'level': c}, observed=cur)
        rng = ctx.rng
        for _ in range(ctx.scale(300, 3000) * (2 if deep else 1)):
            ents = [(rng.choice([0, 0, 1, 7, 255, 256, 300]), rng.choice([0, 0, 1, 4, 5, 128, 255]), rng.choice([0, 0, 1, 2, 3, 200, 255]),
                     rng.choice([0, 0, 1, 4, 5, 77, 255]), rng.choice([0, 0, 1, 15]), rng.random() < 0.2, rng.choice([0, 0, 1, 7]))
                    for _k in range(rng.randrange(1, 7))]
            img = _impl_ledt(ents)
            n += 1
            exp = []
            for (t, r, g, b, leds, fade, rot) in ents:
                extra = (leds & 15) | ((1 if fade else 0) << 4) | ((rot & 7) << 5)
                st = (t & 255, _ref565(r, g, b), extra)
                if st != (0, 0, 0):
                    exp.append(st)
            if _ledt_steps(img) != exp or img[-4:] != [0, 0, 0, 0] or len(img) != 4 * len(exp) + 4:
                bad('led_timings_sequence_differs', {'entries': [list(e) for e in ents]}, expected=exp, observed=_ledt_steps(img))
    except Exception as e:      # noqa
        fails.append({'class': 'led_write_raises', 'case': {'fn': 'led_timings'}, 'observed': repr(e)})
    return {'evaluations': n, 'failures': fails[:8],
            'rule': 'LED timing sequences through the real write_data: every level of every channel at step times 0, 3 and 256 '
                    '(colour steps must reach the firmware unless all four bytes are zero; monotone, no bleed, black 0, white full) '
                    '+ random sequences against an independent encoder'}


def _ref565(r, g, b):
    """independent reference: nearest 5/6/5-bit level (the firmware-side scale: 31/255 and 63/255 with rounding)"""
    return (((r * 249 + 1014) >> 11) << 11) | (((g * 253 + 505) >> 10) << 5) | ((b * 249 + 1014) >> 11)


_cache = {}


def _fp16_impl_all():
    if 'fp16' not in _cache:
        _cache['fp16'] = {h: _impl_fp16(h) for h in range(-32768, 65536)}
    return _cache['fp16']


def _enc_impl(v):
    """impl result -> one integer, as Model-side `enc1` (NaN canonicalised on both sides)."""
    k, b = v[0], v[1]
    if k == 0:
        return b
    if k == 1:
        return (1 << 32) + b
    if k == 2:
        return -1
    return -2


HEADER1 = HEADER + ('Definition isnan (b : Z) : bool := (Z.land (Z.shiftr b 23) 255 =? 255) && negb (Z.land b 8388607 =? 0).\n'
                    'Definition enc1 (r : pyres) : Z := match r with RInt z => z | RF32 b => if isnan b then -1 else 2^32 + b end.\n')


def tie_fp16_led(ctx):
    dis = []
    nd = 0
    # ---- fp16: exhaustive, in blocks of 1024 compared by digest (differing blocks re-printed in full)
    impl = _fp16_impl_all()
    starts = list(range(-32768, 65536, 1024))
    terms = ['map (fun h => enc1 (fp16_to_float h)) (zrange (%d) (Z.to_nat 1024))' % a for a in starts]
    exp = [[_enc_impl(impl[h]) for h in range(a, a + 1024)] for a in starts]
    for bi, mv in coqrun.compare_blocks(HEADER1, terms, exp, tag='c13a', shard=6):
        a = starts[bi]
        for k in range(1024):
            if mv is None or mv[k] != exp[bi][k]:
                nd += 1
                if len(dis) < 5:
                    dis.append({'what': 'fp16_to_float: model and implementation differ', 'input': a + k,
                                'model_enc': None if mv is None else mv[k], 'impl': impl[a + k]})
    n_fp16 = len(impl)
    # ---- LED: per-channel grids 256 x 101 (R-only, G-only, B-only, gray) through the real write_data
    n_led = 0
    terms, exp, keys = [], [], []
    for i in range(0, 101):
        terms.append('concat (map (fun c => [led_565 c 0 0 %d; led_565 0 c 0 %d; led_565 0 0 c %d; led_565 c c c %d]) '
                     '(zrange 0 (Z.to_nat 256)))' % (i, i, i, i))
        row = []
        for c0 in range(0, 256, 3):
            cs = [c for c in range(c0, min(c0 + 3, 256))]
            colors = []
            for c in cs:
                colors += [(c, 0, 0), (0, c, 0), (0, 0, c), (c, c, c)]
            colors += [(0, 0, 0)] * (12 - len(colors))
            got = _impl_led(colors, i)
            row += got[:4 * len(cs)]
        n_led += len(row)
        exp.append(row)
    for bi, mv in coqrun.compare_blocks(HEADER1, terms, exp, tag='c13b', shard=13):
        for k in range(1024):
            if mv is None or mv[k] != exp[bi][k]:
                nd += 1
                if len(dis) < 10:
                    dis.append({'what': 'LED RGB565: model and implementation differ', 'level': k // 4,
                                'intensity': bi, 'which': ['R', 'G', 'B', 'gray'][k % 4],
                                'model': None if mv is None else mv[k], 'impl': exp[bi][k]})
    # intensity sweeps with unchanged colours on the same object (fade in / fade out), printed in full: small
    sweeps = []
    fixed_sets = [[(255, 255, 255)] * 12,
                  [(255, 0, 0), (0, 255, 0), (0, 0, 255), (8, 8, 8), (9, 4, 9), (128, 128, 128)] * 2,
                  [(ctx.rng.randrange(256), ctx.rng.randrange(256), ctx.rng.randrange(256)) for _ in range(12)]]
    for cols in fixed_sets:
        for i in [10, 100, 55, 0, 1, 100, 99, 37, 100]:
            sweeps.append((cols, i))
    # random 12-LED mixes (printed in full: small)
    mixes = list(sweeps)
    for _ in range(ctx.scale(300, 3000)):
        cols = [(ctx.rng.randrange(256), ctx.rng.randrange(256), ctx.rng.randrange(256)) for _ in range(12)]
        mixes.append((cols, ctx.rng.randrange(0, 101)))
    terms = ['[' + '; '.join('led_565 %d %d %d %d' % (r, g, b, i) for (r, g, b) in cols) + ']' for cols, i in mixes]
    exp = [_impl_led(cols, i) for cols, i in mixes]
    n_led += 12 * len(mixes)
    for bi, mv in coqrun.compare_blocks(HEADER1, terms, exp, tag='c13c', shard=100):
        nd += 1
        if len(dis) < 10:
            dis.append({'what': 'LED RGB565: model and implementation differ', 'colors': mixes[bi][0],
                        'intensity': mixes[bi][1], 'model': mv, 'impl': exp[bi]})
    if nd:
        dis.append({'what': 'total disagreements', 'count': nd})
    nontriv = sum(1 for h in range(65536) if (h & 0x7FFF) != 0) + 255 * 100 * 4 + len(mixes)
    return {
        'evaluations': n_fp16 + n_led,
        'distinct_nontrivial': nontriv,
        'rule': 'fp16: every pattern -32768..65535 (non-trivial: not +-0); LED: every (level,intensity) in 256x101 for '
                'R-only, G-only, B-only and gray, plus random 12-LED mixes (non-trivial: level>0 and intensity>0); '
                'outputs compared block-wise by a 61+89-bit polynomial digest computed inside Coq, differing blocks '
                're-evaluated and compared value by value',
        'samples': [{'fp16_input': h, 'impl': impl[h]} for h in (0x3C00, 0x8000, 1, -1, 0x7C00, 0x7E00)]
                   + [{'led': mixes[0][0][:2], 'intensity': mixes[0][1], 'impl_words': exp[0][:2]}],
        'distribution': {'fp16_patterns': n_fp16, 'led_words': n_led, 'random_led_writes': len(mixes)},
        'exhaustive': True,
        'disagreements': dis,
    }


def _classify_fp16(h, got):
    u = h & 0xFFFF
    e, f = (u >> 10) & 31, u & 1023
    if got[0] == 0 and ((e == 0 and f == 0) or e == 31):
        return 'fp16_returns_int_for_zero_inf_nan'
    return 'fp16_wrong_value'


def oracle_fp16_led(ctx, deep=False):
    fails = []
    impl = _fp16_impl_all()
    for h in range(-32768, 65536):
        ref = _ref_fp16(h)
        if impl[h] != ref:
            fails.append({'class': _classify_fp16(h, impl[h]), 'case': {'fn': 'fp16_to_float', 'arg': h},
                          'expected': ref, 'observed': impl[h],
                          'detail': 'fp16_to_float(%d) must be the binary16 value as a float' % h})
    n = 98304
    # LED: black, white, monotone per channel (the property text, on the real code)
    try:
        if _impl_led([(0, 0, 0)] * 12, 100) != [0] * 12:
            fails.append({'class': 'led_black_not_zero', 'case': {'fn': 'led', 'colors': [0, 0, 0], 'intensity': 100}})
        _impl_led([(255, 255, 255)] * 12, 10)       # same colour first written dimmed, then at full intensity
        if _impl_led([(255, 255, 255)] * 12, 100) != [0xFFFF] * 12:
            fails.append({'class': 'led_white_not_full', 'case': {'fn': 'led', 'colors': [255, 255, 255], 'intensity': 100}})
        for i in ([100, 0, 1, 37, 50, 99] if not deep else range(0, 101)):
            prev = None
            for c0 in range(0, 256, 4):
                cols = []
                for c in range(c0, c0 + 4):
                    cols += [(c, 0, 0), (0, c, 0), (0, 0, c)]
                w = _impl_led(cols, i)
                n += 12
                for k in range(4):
                    cur = ((w[3 * k] >> 11) & 31, (w[3 * k + 1] >> 5) & 63, w[3 * k + 2] & 31)
                    stray = (w[3 * k] & 0x7FF, w[3 * k + 1] & ~0x7E0 & 0xFFFF, w[3 * k + 2] & ~0x1F & 0xFFFF)
                    if any(stray):
                        fails.append({'class': 'led_field_bleed', 'case': {'fn': 'led', 'level': c0 + k, 'intensity': i}})
                    if prev is not None and any(a > b for a, b in zip(prev, cur)):
                        fails.append({'class': 'led_not_monotone',
                                      'case': {'fn': 'led', 'level': c0 + k, 'intensity': i}, 'observed': [prev, cur]})
                    prev = cur
    except Exception as e:
        fails.append({'class': 'led_write_raises', 'case': {'fn': 'led'}, 'observed': repr(e)})
    return {'evaluations': n, 'failures': fails,
            'rule': 'fp16 vs numpy.float16 on all patterns; LED black/white/monotone/no-bleed on real write_data'}


def replay(payload, ctx):
    c = payload['case']
    if c.get('fn') == 'quaternion':
        from props import c13_quat
        return c13_quat.replay_quat(payload, ctx)
    if c.get('fn') in _REPLAYERS:
        return _REPLAYERS[c['fn']](c)
    if c.get('fn') == 'fp16_to_float':
        got, ref = _impl_fp16(c['arg']), _ref_fp16(c['arg'])
        return None if got == ref else {'expected': ref, 'observed': got}
    if c.get('fn') == 'led_timings':
        fs = oracle_led_timings(ctx, deep=False)['failures']
        return fs[0] if fs else None
    fs = oracle_fp16_led(ctx, deep=True)['failures']
    fs = [f for f in fs if f['case'].get('fn') == 'led']
    return fs[0] if fs else None


# =============================================================== range reports / angle stream / trajectories
import random as _random

HEADER2 = ('From Coq Require Import Floats.PrimFloat.\nFrom CF Require Import Common.Struct C13.Model C13.Stream C13.Traj.\n'
           'Open Scope Z_scope.\n'
           'Definition isnan32 (b : Z) : bool := (Z.land (Z.shiftr b 23) 255 =? 255) && negb (Z.land b 8388607 =? 0).\n'
           'Definition cn (b : Z) : Z := if isnan32 b then 2143289344 else b.\n'
           'Definition enc_range (d : list Z) : list Z := match decode_range d with None => [-1] '
           '| Some l => concat (map (fun p => [fst p; cn (snd p)]) l) end.\n'
           'Definition enc_ang (a : angle) : list Z := match a with Base b => [0; cn b; 0] '
           '| BaseMinus b (RF32 o) => [1; cn b; cn o] | BaseMinus b (RInt z) => [2; cn b; z] end.\n'
           'Definition enc_lh (d : list Z) : list Z := match decode_lh_angle d with None => [-1] '
           '| Some r => lh_bs r :: concat (map enc_ang (lh_x r)) ++ concat (map enc_ang (lh_y r)) end.\n'
           'Definition enc_ob (o : option (list Z)) : list Z := match o with None => [-1] | Some l => l end.\n')

QNAN = 0x7FC00000


def _f32bits(v):
    import math as _m
    if _m.isnan(v):
        return QNAN
    return struct.unpack('<I', struct.pack('<f', v))[0]


def _bits_f32(b):
    return struct.unpack('<f', struct.pack('<I', b))[0]


def _cn(b):
    return QNAN if ((b >> 23) & 0xFF) == 0xFF and (b & 0x7FFFFF) else b


class _FakeCf:
    def add_port_callback(self, port, cb):
        self.cb = cb

    def send_packet(self, pk):
        pass


class _Pk:
    def __init__(self, data):
        self.data = bytes(data)


def _impl_incoming(payload):
    """Feed one LOCALIZATION packet payload (type byte + data) to the real Localization._incoming."""
    from cflib.crazyflie.localization import Localization
    cf = _FakeCf()
    loc = Localization(cf)
    got = []
    loc.receivedLocationPacket.add_callback(lambda p: got.append(p))
    try:
        loc._incoming(_Pk(payload))
    except Exception as e:
        return ('raise', type(e).__name__)
    if not got:
        return ('dropped',)
    return ('ok', got[0])


SPECIAL_HALF = [0, 0x8000, 1, 0x8001, 0x03FF, 0x0400, 0x3C00, 0xBC00, 0x7BFF, 0xFBFF, 0x7C00, 0xFC00, 0x7E00, 0x7C01]
SPECIAL_F32 = [0, 0x80000000, 0x3F800000, 0xBF800000, 0x7F800000, 0xFF800000, 0x7FC00000, 1, 0x00800000,
               0x40490FDB, 0x3FC90FDB, 0x7F7FFFFF]


def _gen_range(rng, n):
    cases = []
    for k in range(n):
        m = rng.choice([0, 1, 2, 3, 4, 5, 5, 5])
        ids = [rng.randrange(256) for _ in range(m)]
        if m >= 2 and rng.random() < 0.25:
            ids[-1] = ids[0]                      # duplicate anchor id: last assignment wins
        data = []
        for i in ids:
            b = rng.choice(SPECIAL_F32) if rng.random() < 0.3 else rng.getrandbits(32)
            data += [i] + list(struct.pack('<I', b))
        if rng.random() < 0.15:
            data = data + [rng.randrange(256) for _ in range(rng.randrange(1, 5))]   # bad length
        cases.append(data)
    return cases


def _impl_incoming_stream(payloads):
    """Feed a stream of LOCALIZATION payloads to ONE Localization instance; the delivered packets are kept and
    only inspected after the whole stream (a consumer that queues packets must still see what was decoded)."""
    from cflib.crazyflie.localization import Localization
    cf = _FakeCf()
    loc = Localization(cf)
    got = []
    loc.receivedLocationPacket.add_callback(lambda p: got.append(p))
    res = []
    for payload in payloads:
        n0 = len(got)
        try:
            loc._incoming(_Pk(payload))
        except Exception as e:
            res.append(('raise', type(e).__name__))
            continue
        res.append(('ok', len(got) - 1) if len(got) > n0 else ('dropped',))
    return [(r[0], got[r[1]]) if r[0] == 'ok' else r for r in res]


def _canon_range(r):
    if r[0] != 'ok':
        return [-1] if r[0] == 'dropped' else [-2]
    d = r[1].data
    return sorted([k, _f32bits(v)] for k, v in d.items())


def _impl_range(data):
    return _canon_range(_impl_incoming([0] + data))


def _impl_range_stream(datas, batch=6):
    """like _impl_range for every element, but in batches sharing one Localization object"""
    out = []
    for i in range(0, len(datas), batch):
        rs = _impl_incoming_stream([[0] + d for d in datas[i:i + batch]])
        out += [_canon_range(r) for r in rs]
    return out


def _model_range_to_dict(flat):
    if flat == [-1]:
        return [-1]
    d = {}
    for i in range(0, len(flat), 2):
        d[flat[i]] = flat[i + 1]
    return sorted([k, v] for k, v in d.items())


def _gen_lh(rng, n):
    cases = []
    for k in range(n):
        bs = rng.randrange(256)
        f = [rng.choice(SPECIAL_F32) if rng.random() < 0.2 else _f32bits(rng.uniform(-3.2, 3.2)) for _ in range(2)]
        hs = [rng.choice(SPECIAL_HALF) if rng.random() < 0.35 else rng.getrandbits(16) for _ in range(6)]
        data = [bs] + list(struct.pack('<I', f[0])) + [x for h in hs[:3] for x in (h & 255, h >> 8)] \
            + list(struct.pack('<I', f[1])) + [x for h in hs[3:] for x in (h & 255, h >> 8)]
        if rng.random() < 0.08:
            data = data[:-1] if rng.random() < 0.5 else data + [0]
        cases.append(data)
    return cases


def _dbl(x):
    import math as _m
    return 'nan' if _m.isnan(x) else x.hex()


def _canon_lh(r):
    if r[0] == 'raise':
        return [-1]
    if r[0] != 'ok':
        return [-3]
    d = r[1].data
    return [d['basestation']] + [_dbl(float(v)) for v in d['x']] + [_dbl(float(v)) for v in d['y']]


def _impl_lh(data):
    return _canon_lh(_impl_incoming([10] + data))


def _impl_lh_stream(datas, batch=6):
    out = []
    for i in range(0, len(datas), batch):
        rs = _impl_incoming_stream([[10] + d for d in datas[i:i + batch]])
        out += [_canon_lh(r) for r in rs]
    return out


def _model_lh_to_values(flat):
    """model: [bs, (kind, base, off)*8] -> [bs, double hex...] using Python float subtraction for BaseMinus"""
    if flat == [-1]:
        return [-1]
    out = [flat[0]]
    for i in range(1, len(flat), 3):
        kind, b, o = flat[i:i + 3]
        base = _bits_f32(b)
        if kind == 0:
            out.append(_dbl(base))
        elif kind == 1:
            out.append(_dbl(base - _bits_f32(o)))
        else:
            out.append(_dbl(float(base - o)))       # implementation returned an int (defect F13)
    return out


def _ref_lh(data):
    """independent reference: numpy float16"""
    import numpy as np
    if len(data) != 21:
        return [-1]
    bs = data[0]
    out = [bs]
    for off in (1, 11):
        base = float(np.frombuffer(bytes(data[off:off + 4]), dtype='<f4')[0])
        hs = np.frombuffer(bytes(data[off + 4:off + 10]), dtype='<f2').astype(np.float64)
        out.append(_dbl(base))
        out += [_dbl(base - float(h)) for h in hs]
    return out


def _coq_float(x):
    import math as _m
    if _m.isnan(x):
        return 'nan'
    if _m.isinf(x):
        return 'infinity' if x > 0 else 'neg_infinity'
    h = x.hex()
    return '(%s)%%float' % h


BOUNDARY_M = [32.767, 32.768, 32.7675, 32.76799999999999, 32.7680000001, -32.768, -32.769, -32.7685, -32.76800000001,
              0.0, -0.0, 0.0005, 0.001, 0.0009999999, -0.0009999, 1e-320, 5e-324, 1e300, -1e300, float('inf'), float('nan'),
              40.0, -40.0, 1.2345, 0.1 + 0.2, 4.35, 0.57]
BOUNDARY_YAW = [0.0, 3.141592653589793, -3.141592653589793, 57.1, 57.19, 57.191, -57.19, -57.192, 1e-9, 1e300,
                float('inf'), float('nan'), 0.0017453292519943296, 1.5707963267948966]


def _gen_start(rng, n):
    cs = []
    for k in range(n):
        def coord():
            r = rng.random()
            if r < 0.25:
                return rng.choice(BOUNDARY_M)
            if r < 0.35:
                return round(rng.uniform(-33, 33), 3)          # values that are "exact" millimetres in decimal
            return rng.uniform(-34, 34) if r < 0.9 else rng.uniform(-1e-3, 1e-3)
        yaw = rng.choice(BOUNDARY_YAW) if rng.random() < 0.3 else rng.uniform(-58, 58)
        cs.append((coord(), coord(), coord(), yaw))
    return cs


def _impl_start(c):
    from cflib.crazyflie.mem.trajectory_memory import CompressedStart
    try:
        o = CompressedStart(*c)
        a, b = list(o.pack()), list(o.pack())      # packing is a function of the fields: a second pack() must agree
        return a if a == b else [-2] + b
    except (struct.error, OverflowError, ValueError):
        return [-1]


def _gen_seg(rng, n):
    cs = []
    for k in range(n):
        def elem(yaw=False):
            ln = rng.choice([0, 1, 3, 7])
            return [(rng.uniform(-58, 58) if yaw else rng.uniform(-33.5, 33.5)) if rng.random() < 0.9
                    else rng.choice(BOUNDARY_YAW if yaw else BOUNDARY_M) for _ in range(ln)]
        dur = rng.choice([0.0, 65.535, 65.536, 65.5355, 1.0, 0.001, -0.001, -0.0005, 1e9]) if rng.random() < 0.3 \
            else rng.uniform(0, 66)
        cs.append((dur, elem(), elem(), elem(), elem(True)))
    return cs


def _impl_seg(c):
    from cflib.crazyflie.mem.trajectory_memory import CompressedSegment
    try:
        o = CompressedSegment(*c)
        a, b = list(o.pack()), list(o.pack())      # (the same segment object is uploaded again to another slot / Crazyflie)
        return a if a == b else [-2] + b
    except (struct.error, OverflowError, ValueError):
        return [-1]


def _coq_flist(xs):
    return '[' + '; '.join(_coq_float(x) for x in xs) + ']'


def tie_streams(ctx):
    dis = []
    rng = _random.Random(ctx.seed * 7919 + 13)
    n = ctx.scale(400, 4000)
    seen = set()
    nontriv = 0
    # range
    rc = _gen_range(rng, n)
    mv = coqrun.eval_terms(HEADER2, ['enc_range %s' % coqrun.zlist(d) for d in rc], tag='c13r', shard=500)
    impl_r = _impl_range_stream(rc)
    for d, m, a in zip(rc, mv, impl_r):
        b = _model_range_to_dict(m)
        key = ('r', tuple(d))
        if key not in seen:
            seen.add(key)
            nontriv += 1 if len(d) >= 10 else 0
        if a != b:
            dis.append({'what': 'range report: model and implementation differ', 'data': d, 'model': b, 'impl': a})
    # lh angle
    lc = _gen_lh(rng, n)
    mv = coqrun.eval_terms(HEADER2, ['enc_lh %s' % coqrun.zlist(d) for d in lc], tag='c13l', shard=500)
    impl_l = _impl_lh_stream(lc)
    for d, m, a in zip(lc, mv, impl_l):
        b = _model_lh_to_values(m)
        key = ('l', tuple(d))
        if key not in seen:
            seen.add(key)
            nontriv += 1 if len(d) == 21 else 0
        if a != b:
            dis.append({'what': 'lh angle stream: model and implementation differ', 'data': d, 'model': b, 'impl': a})
    # trajectory start / segment
    sc = _gen_start(rng, n)
    mv = coqrun.eval_terms(HEADER2, ['enc_ob (pack_start %s)' % ' '.join(_coq_float(x) for x in c) for c in sc],
                           tag='c13s', shard=500)
    for c, m in zip(sc, mv):
        a = _impl_start(c)
        nontriv += 1 if a != [-1] else 0
        if a != m:
            dis.append({'what': 'CompressedStart.pack: model and implementation differ', 'args': [_dbl(x) for x in c],
                        'model': m, 'impl': a})
    gc = _gen_seg(rng, n // 2)
    mv = coqrun.eval_terms(HEADER2, ['enc_ob (pack_segment %s %s)' % (_coq_float(c[0]), ' '.join(_coq_flist(e) for e in c[1:]))
                                     for c in gc], tag='c13g', shard=250)
    for c, m in zip(gc, mv):
        a = _impl_seg(c)
        nontriv += 1 if a != [-1] else 0
        if a != m:
            dis.append({'what': 'CompressedSegment.pack: model and implementation differ',
                        'args': [_dbl(c[0])] + [[_dbl(x) for x in e] for e in c[1:]], 'model': m, 'impl': a})
    return {'evaluations': len(rc) + len(lc) + len(sc) + len(gc), 'distinct_nontrivial': nontriv,
            'rule': ' | range reports (0..5 anchors, duplicate ids, special float32 patterns, bad lengths; non-trivial: >= 2 '
                    'anchors), angle-stream packets (special half patterns +-0/subnormal/inf/nan, wrong lengths; non-trivial: '
                    '21 bytes), CompressedStart/Segment (boundary, decimal-exact and random doubles, inf/nan; non-trivial: packs)',
            'samples': [{'range': rc[0]}, {'lh': lc[0]}, {'start': [_dbl(x) for x in sc[0]]}],
            'distribution': {'range': len(rc), 'lh_angle': len(lc), 'traj_start': len(sc), 'traj_segment': len(gc),
                             'traj_start_raising': sum(1 for c in sc if _impl_start(c) == [-1])},
            'disagreements': dis}


def _check_start(c):
    """property text on the real code: millimetres / tenths of a degree with < 1 unit of error, overflow raises"""
    import math as _m
    from fractions import Fraction
    out = _impl_start(c)
    vals = []
    finite = all(_m.isfinite(x) for x in c)
    if finite:
        ex = [Fraction(x) * 1000 for x in c[:3]] + [Fraction(_m.degrees(c[3])) * 10]
    if out == [-1]:
        if finite and all(-32767 <= v <= 32767 for v in ex):
            return {'class': 'traj_start_raises_in_range', 'case': {'fn': 'traj_start', 'args': [_dbl(x) for x in c]},
                    'observed': 'raised', 'detail': 'all four values are inside the int16 span but pack() raised'}
        return None
    if not finite:
        return {'class': 'traj_start_nonfinite_encoded', 'case': {'fn': 'traj_start', 'args': [_dbl(x) for x in c]},
                'observed': out}
    got = struct.unpack('<hhhh', bytes(out))
    for g, v in zip(got, ex):
        if not abs(g - v) < 1 + Fraction(1, 10 ** 9):
            return {'class': 'traj_start_resolution', 'case': {'fn': 'traj_start', 'args': [_dbl(x) for x in c]},
                    'expected': float(v), 'observed': list(got),
                    'detail': 'encoded value differs from the exact one by a unit or more (wrap-around?)'}
    return None


def _check_segment(c):
    """property text on CompressedSegment.pack: every control point within one unit, overflow raises, layout"""
    import math as _m
    from fractions import Fraction
    dur, ex, ey, ez, ew = c
    out = _impl_seg(c)
    vals = [dur] + list(ex) + list(ey) + list(ez) + list(ew)
    finite = all(_m.isfinite(x) for x in vals)
    args = [_dbl(dur)] + [[_dbl(x) for x in e] for e in (ex, ey, ez, ew)]
    if not finite:
        if out != [-1]:
            return {'class': 'traj_segment_nonfinite_encoded', 'case': {'fn': 'traj_segment', 'args': args}, 'observed': out}
        return None
    exact = [Fraction(x) * 1000 for e in (ex, ey, ez) for x in e] + [Fraction(_m.degrees(x)) * 10 for x in ew]
    dms = Fraction(dur) * 1000
    if out == [-1]:
        if all(-32767 <= v <= 32767 for v in exact) and 0 <= dms <= 65534:
            return {'class': 'traj_segment_raises_in_range', 'case': {'fn': 'traj_segment', 'args': args}, 'observed': 'raised'}
        return None
    n = len(exact)
    if out[:1] == [-2]:
        return {'class': 'traj_segment_second_pack_differs', 'case': {'fn': 'traj_segment', 'args': args}, 'observed': out[1:],
                'detail': 'packing the same segment object a second time gives different bytes'}
    if len(out) != 3 + 2 * n:
        return {'class': 'traj_segment_layout', 'case': {'fn': 'traj_segment', 'args': args}, 'observed': out}
    types = out[0]
    want = 0
    for k, e in enumerate((ex, ey, ez, ew)):
        want |= {0: 0, 1: 1, 3: 2, 7: 3}[len(e)] << (2 * k)
    got_d = out[1] | (out[2] << 8)
    if types != want or not abs(got_d - dms) < 1 + Fraction(1, 10 ** 9):
        return {'class': 'traj_segment_layout', 'case': {'fn': 'traj_segment', 'args': args}, 'observed': out}
    got = struct.unpack('<%dh' % n, bytes(out[3:]))
    for g, v in zip(got, exact):
        if not abs(g - v) < 1 + Fraction(1, 10 ** 9):
            return {'class': 'traj_segment_resolution', 'case': {'fn': 'traj_segment', 'args': args},
                    'expected': float(v), 'observed': list(got),
                    'detail': 'a control point differs from the exact value by a unit or more (wrap-around instead of raising?)'}
    return None


def _kept_packs(kind, batch):
    """pack every element of the batch, KEEP the returned buffers (no copy), and look at them only after the last pack
    (an application builds the whole trajectory first and uploads afterwards); an element whose pack() raises stays in
    the batch.  Returns the kept encodings as lists, [-1] for a raise."""
    from cflib.crazyflie.mem.trajectory_memory import CompressedSegment, CompressedStart
    cls = CompressedStart if kind == 'start' else CompressedSegment
    kept = []
    for c in batch:
        try:
            kept.append(cls(*c).pack())
        except (struct.error, OverflowError, ValueError):
            kept.append(None)
    return [[-1] if k is None else list(k) for k in kept]


def _check_kept(kind, batch):
    alone = [(_impl_start if kind == 'start' else _impl_seg)(c) for c in batch]
    kept = _kept_packs(kind, batch)
    for i, (a, k) in enumerate(zip(alone, kept)):
        if a != k:
            if kind == 'start':
                args = [[_dbl(x) for x in c] for c in batch]
            else:
                args = [[_dbl(c[0])] + [[_dbl(x) for x in e] for e in c[1:]] for c in batch]
            return {'class': 'traj_encoding_changed_by_a_later_pack',
                    'case': {'fn': 'traj_kept', 'kind': kind, 'batch': args, 'index': i},
                    'expected': a, 'observed': k,
                    'detail': 'the encoding returned by pack() for element %d no longer holds what was encoded once later '
                              'elements had been packed' % i}
    return None


def _replay_kept(c):
    if c['kind'] == 'start':
        batch = [tuple(_unhex(x) for x in a) for a in c['batch']]
    else:
        batch = [(_unhex(a[0]),) + tuple([_unhex(x) for x in e] for e in a[1:]) for a in c['batch']]
    return _check_kept(c['kind'], batch)


def oracle_streams(ctx, deep=False):
    fails = []
    rng = _random.Random(ctx.seed * 104729 + 7)
    n = ctx.scale(600, 6000) * (3 if deep else 1)
    lhs = _gen_lh(rng, n)
    for d, a in zip(lhs, _impl_lh_stream(lhs)):
        r = _ref_lh(d)
        if a != r:
            cls = 'lh_angle_wrong_length_not_rejected' if len(d) != 21 else 'lh_angle_decode_wrong'
            fails.append({'class': cls, 'case': {'fn': 'lh_angle', 'data': d}, 'expected': r, 'observed': a})
    rgs = _gen_range(rng, n)
    rg_stream = _impl_range_stream(rgs)
    for k, (d, a) in enumerate(zip(rgs, rg_stream)):
        if len(d) % 5:
            exp = [-1]
        else:
            dd = {}
            for i in range(0, len(d), 5):
                dd[d[i]] = _cn(struct.unpack('<I', bytes(d[i + 1:i + 5]))[0])
            exp = sorted([k, v] for k, v in dd.items())
        if a != exp:
            alone = _impl_range(d)
            if alone == exp:
                fails.append({'class': 'range_report_changed_after_delivery',
                              'case': {'fn': 'range_stream', 'stream': rgs[(k // 6) * 6:(k // 6) * 6 + 6], 'index': k % 6},
                              'expected': exp, 'observed': a,
                              'detail': 'a delivered range report no longer holds what was decoded once later reports arrived'})
            else:
                fails.append({'class': 'range_decode_wrong', 'case': {'fn': 'range', 'data': d}, 'expected': exp, 'observed': a})
    for c in _gen_start(rng, n):
        f = _check_start(c)
        if f:
            fails.append(f)
    for c in _gen_seg(rng, n):
        f = _check_segment(c)
        if f:
            fails.append(f)
    nb = max(20, n // 20)
    for kind, gen in (('start', _gen_start), ('seg', _gen_seg)):
        elems = gen(rng, 5 * nb)
        for b in range(nb):
            f = _check_kept(kind, elems[5 * b:5 * b + 5])
            if f:
                fails.append(f)
    return {'evaluations': 4 * n + 2 * nb, 'failures': fails,
            'rule': 'angle stream vs numpy.float16 reference; range reports vs struct reference; CompressedStart vs exact '
                    'rational millimetres / decidegrees (< 1 unit, overflow raises); encodings kept across later packs (batches of 5)'}


def _replay_lh(c):
    a, r = _impl_lh(c['data']), _ref_lh(c['data'])
    return None if a == r else {'expected': r, 'observed': a}


def _unhex(x):
    return float('nan') if x == 'nan' else float.fromhex(x)


def _replay_start(c):
    return _check_start(tuple(_unhex(x) for x in c['args']))


def _replay_segment(c):
    a = c['args']
    return _check_segment((_unhex(a[0]),) + tuple([_unhex(x) for x in e] for e in a[1:]))


def _replay_range_stream(c):
    got = _impl_range_stream(c['stream'], batch=len(c['stream']))
    for d, a in zip(c['stream'], got):
        if len(d) % 5:
            exp = [-1]
        else:
            dd = {}
            for i in range(0, len(d), 5):
                dd[d[i]] = _cn(struct.unpack('<I', bytes(d[i + 1:i + 5]))[0])
            exp = sorted([k, v] for k, v in dd.items())
        if a != exp:
            return {'expected': exp, 'observed': a}
    return None


_REPLAYERS = {'lh_angle': _replay_lh, 'traj_start': _replay_start, 'traj_segment': _replay_segment,
              'range_stream': _replay_range_stream, 'traj_kept': _replay_kept}


def _merge(a, b):
    out = dict(a)
    for k in ('evaluations', 'distinct_nontrivial'):
        out[k] = a.get(k, 0) + b.get(k, 0)
    out['rule'] = a.get('rule', '') + b.get('rule', '')
    out['samples'] = a.get('samples', []) + b.get('samples', [])
    out['distribution'] = dict(a.get('distribution', {}), **b.get('distribution', {}))
    out['disagreements'] = a.get('disagreements', []) + b.get('disagreements', [])
    out['failures'] = a.get('failures', []) + b.get('failures', [])
    out['exhaustive'] = False
    return out


def tie(ctx):
    from props import c13_quat
    r = _merge(_merge(tie_fp16_led(ctx), tie_streams(ctx)), c13_quat.tie_quat(ctx))
    r['exhaustive_parts'] = ['fp16 (all patterns)', 'LED level x intensity per channel']
    return r


def oracle(ctx, deep=False):
    from props import c13_quat
    return _merge(_merge(_merge(oracle_fp16_led(ctx, deep), oracle_led_timings(ctx, deep)), oracle_streams(ctx, deep)),
                  c13_quat.oracle_quat(ctx, deep))
