"""C13 — numeric wire codecs.  Tie: exhaustive differential evaluation model <-> implementation
(fp16: all 65 536 patterns + the signed view; LED: every level x intensity per channel)."""
import math
import struct

from core import coqrun

ID = 'C13'
PROPERTY_FILE = 'C13/Property.v'
LEVEL = 'proof'
ALLOWED_AXIOMS = ()
TRUSTED_BASE = [
    'C13/Model.v is hand-written from cflib/utils/encoding.py and led_driver_memory.py; tied by exhaustive '
    'differential evaluation on every run (all fp16 patterns, all level x intensity pairs per LED channel)',
    'IEEE-754 decoding (ieee_decode) is the specification side; CPython struct "f"/"I" reinterpretation is assumed '
    'to be a bit cast (checked against numpy.float16 on all patterns by the oracle)',
]
ASSUMPTIONS = [
    'Python int(x*i/100) equals floor(x*i/100) for 0<=x<64, 0<=i<=100 (validated exhaustively by the LED tie)',
]
HEADER = 'From CF Require Import Common.Bytes C13.Model.\nOpen Scope Z_scope.\n' \
         'Definition enc (r : pyres) : Z * Z := match r with RInt z => (0, z) | RF32 b => (1, b) end.\n'


def _impl_fp16(h):
    from cflib.utils.encoding import fp16_to_float
    try:
        r = fp16_to_float(h)
    except Exception as e:  # noqa
        return ['raise', type(e).__name__]
    if isinstance(r, bool) or isinstance(r, int):
        return [0, int(r)]
    if isinstance(r, float):
        if math.isnan(r):
            return [2, 0]
        try:
            return [1, struct.unpack('<I', struct.pack('<f', r))[0]]
        except OverflowError:
            return ['float-not-binary32', repr(r)]
    return ['type', type(r).__name__]


def _canon_model(v):
    k, b = v
    if k == 1 and (b >> 23) & 0xFF == 0xFF and (b & 0x7FFFFF):
        return [2, 0]
    return [k, b]


def _ref_fp16(h):
    """IEEE binary16 value of the 16-bit pattern, via numpy (independent of model and implementation)."""
    import numpy as np
    v = np.array([h & 0xFFFF], dtype=np.uint16).view(np.float16).astype(np.float32)[0]
    if np.isnan(v):
        return [2, 0]
    return [1, int(np.array([v], dtype=np.float32).view(np.uint32)[0])]


class _Rec:
    def __init__(self):
        self.w = []

    def write(self, mem, addr, data, flush_queue=False):
        self.w.append((addr, bytes(data), flush_queue))


def _impl_led(colors, intensity):
    """colors: list of 12 (r,g,b); returns list of 12 big-endian 565 words or raise marker."""
    from cflib.crazyflie.mem.led_driver_memory import LEDDriverMemory
    rec = _Rec()
    m = LEDDriverMemory(id=4, type=0x10, size=24, mem_handler=rec)
    for led, (r, g, b) in zip(m.leds, colors):
        led.r, led.g, led.b, led.intensity = r, g, b, intensity
    m.write_data(None)
    (addr, data, fl), = rec.w
    assert addr == 0 and len(data) == 24
    return [data[2 * k] * 256 + data[2 * k + 1] for k in range(12)]


_cache = {}


def _fp16_impl_all():
    if 'fp16' not in _cache:
        _cache['fp16'] = {h: _impl_fp16(h) for h in range(-32768, 65536)}
    return _cache['fp16']


def _enc_impl(v):
    """impl result -> one integer, as Model-side `enc1` (NaN canonicalised on both sides)."""
    k, b = v[0], v[1]
    if k == 0:
        return b
    if k == 1:
        return (1 << 32) + b
    if k == 2:
        return -1
    return -2


HEADER1 = HEADER + ('Definition isnan (b : Z) : bool := (Z.land (Z.shiftr b 23) 255 =? 255) && negb (Z.land b 8388607 =? 0).\n'
                    'Definition enc1 (r : pyres) : Z := match r with RInt z => z | RF32 b => if isnan b then -1 else 2^32 + b end.\n')


def tie(ctx):
    dis = []
    nd = 0
    # ---- fp16: exhaustive, in blocks of 1024 compared by digest (differing blocks re-printed in full)
    impl = _fp16_impl_all()
    starts = list(range(-32768, 65536, 1024))
    terms = ['map (fun h => enc1 (fp16_to_float h)) (zrange (%d) (Z.to_nat 1024))' % a for a in starts]
    exp = [[_enc_impl(impl[h]) for h in range(a, a + 1024)] for a in starts]
    for bi, mv in coqrun.compare_blocks(HEADER1, terms, exp, tag='c13a', shard=6):
        a = starts[bi]
        for k in range(1024):
            if mv is None or mv[k] != exp[bi][k]:
                nd += 1
                if len(dis) < 5:
                    dis.append({'what': 'fp16_to_float: model and implementation differ', 'input': a + k,
                                'model_enc': None if mv is None else mv[k], 'impl': impl[a + k]})
    n_fp16 = len(impl)
    # ---- LED: per-channel grids 256 x 101 (R-only, G-only, B-only, gray) through the real write_data
    n_led = 0
    terms, exp, keys = [], [], []
    for i in range(0, 101):
        terms.append('concat (map (fun c => [led_565 c 0 0 %d; led_565 0 c 0 %d; led_565 0 0 c %d; led_565 c c c %d]) '
                     '(zrange 0 (Z.to_nat 256)))' % (i, i, i, i))
        row = []
        for c0 in range(0, 256, 3):
            cs = [c for c in range(c0, min(c0 + 3, 256))]
            colors = []
            for c in cs:
                colors += [(c, 0, 0), (0, c, 0), (0, 0, c), (c, c, c)]
            colors += [(0, 0, 0)] * (12 - len(colors))
            got = _impl_led(colors, i)
            row += got[:4 * len(cs)]
        n_led += len(row)
        exp.append(row)
    for bi, mv in coqrun.compare_blocks(HEADER1, terms, exp, tag='c13b', shard=13):
        for k in range(1024):
            if mv is None or mv[k] != exp[bi][k]:
                nd += 1
                if len(dis) < 10:
                    dis.append({'what': 'LED RGB565: model and implementation differ', 'level': k // 4,
                                'intensity': bi, 'which': ['R', 'G', 'B', 'gray'][k % 4],
                                'model': None if mv is None else mv[k], 'impl': exp[bi][k]})
    # random 12-LED mixes (printed in full: small)
    mixes = []
    for _ in range(ctx.scale(300, 3000)):
        cols = [(ctx.rng.randrange(256), ctx.rng.randrange(256), ctx.rng.randrange(256)) for _ in range(12)]
        mixes.append((cols, ctx.rng.randrange(0, 101)))
    terms = ['[' + '; '.join('led_565 %d %d %d %d' % (r, g, b, i) for (r, g, b) in cols) + ']' for cols, i in mixes]
    exp = [_impl_led(cols, i) for cols, i in mixes]
    n_led += 12 * len(mixes)
    for bi, mv in coqrun.compare_blocks(HEADER1, terms, exp, tag='c13c', shard=100):
        nd += 1
        if len(dis) < 10:
            dis.append({'what': 'LED RGB565: model and implementation differ', 'colors': mixes[bi][0],
                        'intensity': mixes[bi][1], 'model': mv, 'impl': exp[bi]})
    if nd:
        dis.append({'what': 'total disagreements', 'count': nd})
    nontriv = sum(1 for h in range(65536) if (h & 0x7FFF) != 0) + 255 * 100 * 4 + len(mixes)
    return {
        'evaluations': n_fp16 + n_led,
        'distinct_nontrivial': nontriv,
        'rule': 'fp16: every pattern -32768..65535 (non-trivial: not +-0); LED: every (level,intensity) in 256x101 for '
                'R-only, G-only, B-only and gray, plus random 12-LED mixes (non-trivial: level>0 and intensity>0); '
                'outputs compared block-wise by a 61+89-bit polynomial digest computed inside Coq, differing blocks '
                're-evaluated and compared value by value',
        'samples': [{'fp16_input': h, 'impl': impl[h]} for h in (0x3C00, 0x8000, 1, -1, 0x7C00, 0x7E00)]
                   + [{'led': mixes[0][0][:2], 'intensity': mixes[0][1], 'impl_words': exp[0][:2]}],
        'distribution': {'fp16_patterns': n_fp16, 'led_words': n_led, 'random_led_writes': len(mixes)},
        'exhaustive': True,
        'disagreements': dis,
    }


def _classify_fp16(h, got):
    u = h & 0xFFFF
    e, f = (u >> 10) & 31, u & 1023
    if got[0] == 0 and ((e == 0 and f == 0) or e == 31):
        return 'fp16_returns_int_for_zero_inf_nan'
    return 'fp16_wrong_value'


def oracle(ctx, deep=False):
    fails = []
    impl = _fp16_impl_all()
    for h in range(-32768, 65536):
        ref = _ref_fp16(h)
        if impl[h] != ref:
            fails.append({'class': _classify_fp16(h, impl[h]), 'case': {'fn': 'fp16_to_float', 'arg': h},
                          'expected': ref, 'observed': impl[h],
                          'detail': 'fp16_to_float(%d) must be the binary16 value as a float' % h})
    n = 98304
    # LED: black, white, monotone per channel (the property text, on the real code)
    try:
        if _impl_led([(0, 0, 0)] * 12, 100) != [0] * 12:
            fails.append({'class': 'led_black_not_zero', 'case': {'fn': 'led', 'colors': [0, 0, 0], 'intensity': 100}})
        if _impl_led([(255, 255, 255)] * 12, 100) != [0xFFFF] * 12:
            fails.append({'class': 'led_white_not_full', 'case': {'fn': 'led', 'colors': [255, 255, 255], 'intensity': 100}})
        for i in ([100, 1, 37, 50, 99] if not deep else range(1, 101)):
            prev = None
            for c0 in range(0, 256, 4):
                cols = []
                for c in range(c0, c0 + 4):
                    cols += [(c, 0, 0), (0, c, 0), (0, 0, c)]
                w = _impl_led(cols, i)
                n += 12
                for k in range(4):
                    cur = ((w[3 * k] >> 11) & 31, (w[3 * k + 1] >> 5) & 63, w[3 * k + 2] & 31)
                    stray = (w[3 * k] & 0x7FF, w[3 * k + 1] & ~0x7E0 & 0xFFFF, w[3 * k + 2] & ~0x1F & 0xFFFF)
                    if any(stray):
                        fails.append({'class': 'led_field_bleed', 'case': {'fn': 'led', 'level': c0 + k, 'intensity': i}})
                    if prev is not None and any(a > b for a, b in zip(prev, cur)):
                        fails.append({'class': 'led_not_monotone',
                                      'case': {'fn': 'led', 'level': c0 + k, 'intensity': i}, 'observed': [prev, cur]})
                    prev = cur
    except Exception as e:
        fails.append({'class': 'led_write_raises', 'case': {'fn': 'led'}, 'observed': repr(e)})
    return {'evaluations': n, 'failures': fails,
            'rule': 'fp16 vs numpy.float16 on all patterns; LED black/white/monotone/no-bleed on real write_data'}


def replay(payload, ctx):
    c = payload['case']
    if c.get('fn') == 'fp16_to_float':
        got, ref = _impl_fp16(c['arg']), _ref_fp16(c['arg'])
        return None if got == ref else {'expected': ref, 'observed': got}
    fs = oracle(ctx, deep=True)['failures']
    fs = [f for f in fs if f['case'].get('fn') == 'led']
    return fs[0] if fs else None
