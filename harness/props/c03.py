"""C03 — downloaded log and parameter tables equal the device tables.

Tie (V): the real TocFetcher / LogTocElement / ParamTocElement / Toc / _ExtendedTypeFetcher are driven
single-threaded on a fake `cf` (fakes/c03_toc.py) against a Python TOC server, with adversarial reply
schedules (any reply to any request already sent: duplicates, stale, delayed; packets on other channels;
in the tie also garbage on the TOC channel).  The whole observable trace (packets handed to the callbacks,
requests sent, cache inserts with table snapshots, finished callback, exceptions, final fetcher state and
table in dict order) is compared with C03/Model.v evaluated by vm_compute on the same events.
Oracle: the property text on the real code (table equality against an independent type table, three-way
lookup agreement, exactly-once completion), including real Log/Param/TocCache stacks.
"""
import json
import logging
import os

from core import coqrun
from fakes import c03_toc as fk

logging.getLogger('cflib').setLevel(logging.ERROR)   # cache misses are logged as warnings

ID = 'C03'
PROPERTY_FILE = 'C03/Property.v'
LEVEL = 'proof'
ALLOWED_AXIOMS = ()
TRUSTED_BASE = [
    'C03/Model.v is hand-written from toc.py (Toc, TocFetcher), LogTocElement/ParamTocElement.__init__ and '
    '_ExtendedTypeFetcher; tied on every run by differential evaluation of full traces against the real classes',
    'TOC server of the firmware modelled from protocol knowledge (INFO/ITEM V1 and V2, GET_EXTENDED_TYPE); the '
    'Gallina server (dev_reply) and the Python server (fakes/c03_toc.PyDev) are compared in every trace',
    'fake cf: real _IncomingPacketHandler registry, dispatch loop re-stated in 6 lines; send_packet records',
]
ASSUMPTIONS = [
    'adversary: only replies to requests already sent in the current fetch (any order, multiplicity, delay) and '
    'packets on other channels and, in the extended-type phase, misc-channel packets of any other command for any id; '
    'packets left over from an earlier connection are outside the theorem',
    'group and name are NUL-free ISO-8859-1 strings; for lookup by complete name they contain no "."',
    'device tables have pairwise distinct (group, name)',
]
PROVED = ('Element decoding is the inverse of the wire encoding for every type code and attribute bit; for every '
          'table size (V1 < 256, V2 < 65536), both protocol generations, cache hit or miss and EVERY admissible reply '
          'schedule the fetch never raises, completes at most once, requests exactly INFO, ITEM 0..n-1, and on '
          'completion holds exactly the device table (or the valid cached table); an honest schedule completes; '
          'lookups by (group,name), by id and by complete name agree; after the extended-type phase the persistent '
          'marker is the device\'s.')
NOT_PROVED = ('Thread interleavings inside _ExtendedTypeFetcher below the granularity "runs until blocked"; packets '
              'of an earlier session; '
              'the extended-phase model marks every element with the answered id (code: the first), equal for distinct ids.')

LOG_PORT, PARAM_PORT = 5, 2

# ------------------------------------------------------------------ independent type tables (firmware side)
CT = ['U8', 'U16', 'U32', 'U64', 'I8', 'I16', 'I32', 'I64', 'F16', 'F32', 'F64']
C_NAME = {'U8': 'uint8_t', 'U16': 'uint16_t', 'U32': 'uint32_t', 'U64': 'uint64_t', 'I8': 'int8_t',
          'I16': 'int16_t', 'I32': 'int32_t', 'I64': 'int64_t', 'F16': 'FP16', 'F32': 'float', 'F64': 'double'}
LOG_CODE = {'U8': 1, 'U16': 2, 'U32': 3, 'I8': 4, 'I16': 5, 'I32': 6, 'F32': 7, 'F16': 8}
PARAM_CODE = {'I8': 0, 'I16': 1, 'I32': 2, 'I64': 3, 'F16': 5, 'F32': 6, 'F64': 7, 'U8': 8, 'U16': 9, 'U32': 10, 'U64': 11}
C_FMT = {'U8': 'B', 'U16': 'H', 'U32': 'L', 'U64': 'Q', 'I8': 'b', 'I16': 'h', 'I32': 'i', 'I64': 'q',
         'F16': 'e', 'F32': 'f', 'F64': 'd'}


def type_byte(cls, it):
    if cls == 'log':
        return LOG_CODE[it['type']]
    return PARAM_CODE[it['type']] + (16 if it['ext'] else 0) + (32 if it['core'] else 0) + (64 if it['ro'] else 0)


def raw_items(cls, items):
    return [(bytes(it['group']), bytes(it['name']), type_byte(cls, it)) for it in items]


# ------------------------------------------------------------------ encoders (mirror of Model.v enc_*)

def lenc(l):
    l = list(l)
    return [len(l)] + l


def codes(s):
    if not isinstance(s, str):
        return [-99]
    return [ord(ch) for ch in s]


def _b(v):
    return 1 if v is True else 0 if v is False else 2


def enc_elem(e):
    cn = type(e).__name__
    c = 0 if cn == 'LogTocElement' else 1 if cn == 'ParamTocElement' else 9
    acc = getattr(e, 'access', -99)
    return ([c, getattr(e, 'ident', -99)] + lenc(codes(getattr(e, 'group', None))) + lenc(codes(getattr(e, 'name', None)))
            + lenc(codes(getattr(e, 'ctype', None))) + lenc(codes(getattr(e, 'pytype', None)))
            + [acc if isinstance(acc, int) and not isinstance(acc, bool) else -98,
               _b(getattr(e, 'extended', False)), _b(getattr(e, 'persistent', False))])


def enc_toc(t):
    if not isinstance(t, dict):
        return [-97]
    out = [len(t)]
    for g, d in t.items():
        out += lenc(codes(g)) + [len(d)]
        for n, e in d.items():
            out += lenc(codes(n)) + enc_elem(e)
    return out


EXN = {'KeyError': 1, 'IndexError': 2, 'error': 3, 'AttributeError': 4, 'ValueError': 5, 'TypeError': 6}


def enc_trace(trace, port):
    out = []
    for t in trace:
        if t[0] == 'got':
            out += [10, t[2]] + lenc(t[3])
        elif t[0] == 'send':
            if t[1] != port or t[2] != 0:
                out += [-11, t[1], t[2]]
            out += [11] + lenc(t[3])
        elif t[0] == 'insert':
            out += [12, t[1]] + t[2]
        elif t[0] == 'fin':
            out += [13]
        elif t[0] == 'raised':
            out += [14, EXN.get(t[1], 99)]
    return out


# ------------------------------------------------------------------ Coq term printers

def q_str(bs):
    return coqrun.zlist(list(bs))


def q_elem(e):
    """e: dict(cls, ident, group, name, ctype, pytype, access, extended, persistent)"""
    return '(mkElem %s %s %s %s %s %s %s %s %s)' % (
        'LogCls' if e['cls'] == 'log' else 'ParamCls', coqrun.z(e['ident']), q_str(e['group']), q_str(e['name']),
        coqrun.coq_string(e['ctype']) + '%string', coqrun.coq_string(e['pytype']) + '%string', coqrun.z(e['access']),
        coqrun.coq_bool(e['extended']), coqrun.coq_bool(e['persistent']))


def q_toc(t):
    """t: list of (group, [(name, elemdict)])"""
    return '[' + '; '.join('(%s, [%s])' % (q_str(g), '; '.join('(%s, %s)' % (q_str(n), q_elem(e)) for n, e in d))
                           for g, d in t) + ']'


def q_dev(raw, crc, extra):
    return '(mkDev [%s] %d %s)' % ('; '.join('(%s, %s, %d)' % (q_str(g), q_str(n), tb) for g, n, tb in raw), crc,
                                  q_str(extra))


def q_evs(evs):
    return '[' + '; '.join(('Deliver %d' % e[1]) if e[0] == 'D' else ('Raw %d %s' % (e[1], q_str(e[2]))) for e in evs) + ']'


def q_cls(cls):
    return 'LogCls' if cls == 'log' else 'ParamCls'


HEADER = ('From CF Require Import Common.Bytes C03.Model.\nFrom CF Require Import C03.Stale.\nFrom Coq Require Import String.\n'
          'Open Scope Z_scope.\n'
          'Definition fdg (l : list Z) : Z * Z :=\n'
          '  (fold_left (fun h v => Z.land (h * 1000003 + v + 1) 18446744073709551615) l 7,\n'
          '   fold_left (fun h v => Z.land (h * 998244353 + v + 1) 2305843009213693951) l 7).\n'
          'Definition flat (ll : list (list Z)) : list Z := List.concat (map (fun l => Z.of_nat (List.length l) :: l) ll).\n')


def fdg(vs):
    """Cheap 64+61-bit polynomial digest (test plumbing; Common.Digest costs ~0.3 ms per element in vm_compute)."""
    h1 = h2 = 7
    for v in vs:
        h1 = (h1 * 1000003 + v + 1) & 18446744073709551615
        h2 = (h2 * 998244353 + v + 1) & 2305843009213693951
    return (h1, h2)


def compare_blocks(header, terms, exp, tag, shard=20, timeout=900, big=8000):
    """Like coqrun.compare_blocks with the cheap digest; terms longer than `big` characters get a coqc of
    their own.  Returns [(index, model values or None)] for differing blocks (at most 6 re-evaluated)."""
    idx_big = [i for i, t in enumerate(terms) if len(t) > big]
    idx_small = [i for i, t in enumerate(terms) if len(t) <= big]
    dg = {}
    for idx, sh in ((idx_big, 1), (idx_small, shard)):
        if idx:
            vals = coqrun.eval_terms(header, ['fdg (%s)' % terms[i] for i in idx], tag=tag, shard=sh, timeout=timeout)
            for i, v in zip(idx, vals):
                dg[i] = tuple(v)
    bad = [i for i in range(len(terms)) if dg[i] != fdg(exp[i])]
    out = []
    if bad:
        full = coqrun.eval_terms(header, [terms[i] for i in bad[:6]], tag=tag + 'f', shard=1, timeout=timeout)
        out = list(zip(bad[:6], full)) + [(i, None) for i in bad[6:]]
    return out


# ------------------------------------------------------------------ implementation drivers

def mk_elem_obj(e):
    from cflib.crazyflie.log import LogTocElement
    from cflib.crazyflie.param import ParamTocElement
    o = LogTocElement() if e['cls'] == 'log' else ParamTocElement()
    o.ident = e['ident']
    o.group = bytes(e['group']).decode('latin-1')
    o.name = bytes(e['name']).decode('latin-1')
    o.ctype, o.pytype, o.access = e['ctype'], e['pytype'], e['access']
    if e['cls'] == 'param':
        o.extended = e['extended']
        o.persistent = e['persistent']
    return o


def mk_toc_obj(t):
    return {bytes(g).decode('latin-1'): {bytes(n).decode('latin-1'): mk_elem_obj(e) for n, e in d} for g, d in t}


class StubCache:
    def __init__(self, trace, content):
        self.trace = trace
        self.content = content      # {crc: toc-as-lists}

    def fetch(self, crc):
        t = self.content.get(crc)
        return None if t is None else mk_toc_obj(t)

    def insert(self, crc, toc):
        self.trace.append(('insert', crc, enc_toc(toc)))


def impl_parse(cls, ident, data):
    from cflib.crazyflie.log import LogTocElement
    from cflib.crazyflie.param import ParamTocElement
    from cflib.crazyflie.toc import Toc
    try:
        e = (LogTocElement if cls == 'log' else ParamTocElement)(ident, bytearray(data))
        Toc().add_element(e)
    except Exception as x:  # noqa
        return [EXN.get(type(x).__name__, 99)]
    return [0] + enc_elem(e)


def _ref_by_id(table, i):
    """Toc.get_element_by_id as a function of the CURRENT table only: first element in iteration order"""
    for g in table:
        for n in table[g]:
            if table[g][n].ident == i:
                return table[g][n]
    return None


def probe_lookups(holder, hints=(), step=0):
    """The model's Toc is a value: every lookup is a function of the table as it is now (that is what
    C03_lookup_agree talks about).  Check it on the real object: by id, by (group, name) and by complete name
    must equal the reference computed from holder.toc.  Performing the lookups is also what exposes any
    history kept inside the object.  Returns a description of the first difference or None."""
    table = holder.toc
    if not isinstance(table, dict) or not all(isinstance(d, dict) for d in table.values()):
        return None
    keys = [(g, n) for g in table for n in table[g]]
    ids = [-1, 0, 1, len(keys) - 1, len(keys)] + [h for h in hints if isinstance(h, int)]
    if keys:
        ids += [getattr(table[g][n], 'ident', None) for g, n in (keys[0], keys[-1], keys[(7 * step + 3) % len(keys)])]
    try:
        for i in ids:
            got, want = holder.get_element_by_id(i), _ref_by_id(table, i)
            if got is not want:
                return 'get_element_by_id(%r) returns %s, the table says %s' % (
                    i, None if got is None else (got.group, got.name), None if want is None else (want.group, want.name))
        for g, n in (keys[:1] + keys[-1:] + [keys[(5 * step + 1) % len(keys)]] if keys else []) + [('no such', 'entry')]:
            want = table.get(g, {}).get(n)
            if holder.get_element(g, n) is not want:
                return 'get_element(%r, %r) differs from the table' % (g, n)
            if '.' not in g and '.' not in n:
                want2 = None if want is None else _ref_by_id(table, want.ident)
                if holder.get_element_by_complete_name(g + '.' + n) is not want2:
                    return 'get_element_by_complete_name(%r) differs from the table' % (g + '.' + n)
    except Exception as e:  # noqa
        return 'lookup raised %s: %s' % (type(e).__name__, e)
    return None


def run_fetch(case, choose=None, probe='none', holder=None):
    """Drive the real TocFetcher.  case: cls, ver, raw (items), crc, extra, cache (toc-as-lists or None),
    evs (list) or, when `choose` is given, the events are chosen adaptively by choose(n_sent) and recorded.
    Returns (encoded observation, info dict)."""
    from cflib.crazyflie.toc import Toc, TocFetcher
    from cflib.crazyflie.log import LogTocElement
    from cflib.crazyflie.param import ParamTocElement
    cls, ver = case['cls'], case['ver']
    port = LOG_PORT if cls == 'log' else PARAM_PORT
    dev = fk.PyDev(case['raw'], case['crc'], bytes(case['extra']))
    trace = []
    cf = fk.FakeCF(ver, trace)
    holder = Toc() if holder is None else holder
    cache = StubCache(trace, {case['crc']: case['cache']} if case.get('cache') is not None else {})
    f = TocFetcher(cf, LogTocElement if cls == 'log' else ParamTocElement, port, holder,
                   lambda: trace.append(('fin',)), cache)
    probe_fail = []
    nprobe = [0]

    def do_probe(where):
        # probe: 'none' | 'start' (only before the INFO reply) | 'all' (after start and after every event)
        if probe == 'all' or (probe == 'start' and where == 'start'):
            nprobe[0] += 1
            bad = probe_lookups(holder, hints=(f.requested_index,), step=nprobe[0])
            if bad and not probe_fail:
                probe_fail.append('%s (%s)' % (bad, where))
    if probe == 'start':
        probe_lookups(holder)               # lookups on the still empty table, before anything is fetched
    f.start()
    do_probe('start')
    evs = []
    k = 0
    while True:
        if choose is not None:
            ev = choose(len(cf.sent(port, 0)), f)
            if ev is None:
                break
        else:
            if k >= len(case['evs']):
                break
            ev = case['evs'][k]
            k += 1
        ev = tuple(ev)
        evs.append(ev)
        if ev[0] == 'D':
            reqs = cf.sent(port, 0)
            if ev[1] < len(reqs):
                r = dev.reply(ver >= 4, reqs[ev[1]][3])     # the device speaks the generation it announced
                if r is not None:
                    cf.deliver(port, 0, r)
        else:
            cf.deliver(port, ev[1], bytes(ev[2]))
        do_probe('after event %d %r' % (len(evs) - 1, ev[:2]))
    st = {None: 0, 'GET_TOC_INFO': 1, 'GET_TOC_ELEMENT': 2}.get(f.state, 9)
    obs = [1 if cf.registered(f._new_packet_cb) else 0, st, _b(f._useV2),
           -1 if f.requested_index is None else f.requested_index,
           -1 if f.nbr_of_items is None else f.nbr_of_items, f._crc] + enc_toc(holder.toc) + enc_trace(trace, port)
    info = {'evs': evs, 'trace': trace, 'toc': holder, 'fetcher': f, 'cf': cf, 'port': port,
            'probe_fail': probe_fail[0] if probe_fail else None, 'probes': nprobe[0]}
    return obs, info


def model_fetch_term(case, evs, wevs=None):
    cache = 'fun _ => None'
    if case.get('cache') is not None:
        cache = 'fun c => if c =? %d then Some %s else None' % (case['crc'], q_toc(case['cache']))
    return 'enc_run (fetch %s (%s) %s %s %s)' % (q_cls(case['cls']), cache, coqrun.z(case['ver']),
                                                q_dev(case['raw'], case['crc'], case['extra']),
                                                q_evs(evs) if wevs is None else '(wire [] %s)' % q_wevs(wevs))


# ------------------------------------------------------------------ generators

def gen_name(rng, maxlen, style=None):
    style = style or rng.choice(['ident', 'ident', 'ident', 'latin', 'dots', 'empty'])
    if style == 'empty':
        return b''
    ln = rng.randint(1, max(1, maxlen))
    if style == 'ident':
        al = b'abcdefghijklmnopqrstuvwxyzABCDEFGHIJKLMNOPQRSTUVWXYZ0123456789_'
        return bytes(rng.choice(al) for _ in range(ln))
    if style == 'dots':
        return bytes(rng.choice(b'ab.') for _ in range(ln))
    return bytes(rng.randint(1, 255) for _ in range(ln))


def gen_items(rng, cls, n, v2, distinct=True, legal=True):
    """n device entries with pairwise distinct (group, name) that fit one packet."""
    budget = 24 if v2 else 25
    items, seen = [], set()
    ngroups = max(1, rng.choice([1, 2, 3, n // 4 + 1, n]))
    groups = []
    while len(groups) < ngroups:
        g = gen_name(rng, rng.choice([1, 3, 8, 12]), None if not legal else rng.choice(['ident', 'ident', 'latin']))
        groups.append(g)
    tries = 0
    while len(items) < n:
        g = rng.choice(groups)
        style = None if not legal else rng.choice(['ident', 'ident', 'latin'])
        if len(items) == 0 and rng.random() < 0.1:
            nm = gen_name(rng, budget - len(g), 'ident')
            nm = nm + b'x' * (budget - len(g) - len(nm))          # exactly fills the packet
        else:
            nm = gen_name(rng, min(budget - len(g), rng.choice([1, 4, 10, 24])), style)
        tries += 1
        if distinct and (g, nm) in seen:
            if tries > 50 * (n + 1):
                nm = (b'%x' % len(items))
                g = b'q'
            if (g, nm) in seen:
                continue
        seen.add((g, nm))
        t = rng.choice(list(LOG_CODE) if cls == 'log' else list(PARAM_CODE))
        items.append({'group': g, 'name': nm, 'type': t, 'ro': rng.random() < 0.3, 'ext': rng.random() < 0.3,
                      'core': rng.random() < 0.3, 'pers': rng.random() < 0.5})
    return items


def stale_packets(rng, cls, v2_other, n_other=None):
    """well-formed TOC replies of ANOTHER table (an earlier session): its INFO reply and its element replies"""
    n = rng.choice([1, 2, 3, 5]) if n_other is None else n_other
    items = gen_items(rng, cls, n, v2_other)
    dev = fk.PyDev(raw_items(cls, items), rng.getrandbits(32), rng.choice([b'', b'\x10\x10']))
    info = dev.reply(v2_other, bytes([3 if v2_other else 1]))
    its = [dev.reply(v2_other, bytes([2, j & 255, j >> 8]) if v2_other else bytes([0, j])) for j in range(n)]
    return info, its


def py_wire(wevs):
    """twin of Stale.v `wire`: link events -> reply deliveries"""
    bag, out = [], []
    for e in wevs:
        if e[0] == 'Q':
            bag.append(e[1])
        elif e[0] == 'P':
            if e[1] < len(bag):
                out.append(('D', bag.pop(e[1])))
        elif e[0] == 'X':
            if e[1] < len(bag):
                bag.pop(e[1])
        else:
            out.append(('R', e[1], bytes(e[2])))
    return out


def q_wevs(wevs):
    return '[' + '; '.join({'Q': 'WReach %d', 'P': 'WDeliver %d', 'X': 'WDrop %d'}[e[0]] % e[1] if e[0] != 'R'
                           else 'WRaw %d %s' % (e[1], q_str(e[2])) for e in wevs) + ']'


def wire_adversary(rng, n_items):
    """link-level adversary: every request sent reaches the device one or more times (resends), answers wait in
    flight and are delivered in any order, late, or lost.  Returns (choose, wevs)."""
    wevs, bag, pending = [], [], []
    reached = [0]
    budget = [4 * n_items + 16]

    def choose(n_sent, f):
        while True:
            if budget[0] <= 0:
                return None
            budget[0] -= 1
            # requests not yet seen by the device reach it (possibly twice)
            if reached[0] < n_sent and rng.random() < 0.7:
                k = reached[0]
                reached[0] += 1
                for _ in range(rng.choice([1, 1, 2, 3])):
                    wevs.append(('Q', k))
                    bag.append(k)
                continue
            r = rng.random()
            if r < 0.1 and n_sent:
                k = rng.randrange(n_sent)                      # a late resend of an old request
                wevs.append(('Q', k))
                bag.append(k)
                continue
            if r < 0.15 and bag:
                j = rng.randrange(len(bag))
                wevs.append(('X', j))
                bag.pop(j)
                continue
            if bag:
                j = 0 if rng.random() < 0.6 else rng.randrange(len(bag))
                wevs.append(('P', j))
                return ('D', bag.pop(j))
            if reached[0] >= n_sent:
                k = n_sent - 1                                   # everything answered: resend the latest request
                wevs.append(('Q', k))
                bag.append(k)
    return choose, wevs


def adversary(rng, n_items, mode):
    """Returns choose(n_sent, fetcher) -> event or None.  Modes: honest, dup (duplicates and stale replies),
    noisy (also other channels, out-of-range), garbage (also malformed packets on the TOC channel), cut
    (honest but stops early)."""
    budget = [3 * n_items + 12 if mode != 'honest' else n_items + 3]
    cut = rng.randint(0, n_items + 1) if mode == 'cut' else None
    steps = [0]
    stale = [None]

    def choose(n_sent, f):
        steps[0] += 1
        if budget[0] <= 0:
            return None
        budget[0] -= 1
        if mode == 'stale' and rng.random() < 0.3 and f is not None:
            # a reply left over from an earlier session (any well-formed reply of another table, either generation),
            # including the ones that are indistinguishable on the wire: model and code must agree on all of them
            if stale[0] is None:
                cls = 'log' if f.port == LOG_PORT else 'param'
                stale[0] = stale_packets(rng, cls, bool(f._useV2) if rng.random() < 0.8 else not f._useV2)
            info, its = stale[0]
            return ('R', 0, info if rng.random() < 0.4 else rng.choice(its))
        if cut is not None and steps[0] > cut:
            return None
        if mode in ('honest', 'cut'):
            return ('D', n_sent - 1)
        r = rng.random()
        if r < 0.55:
            return ('D', n_sent - 1)
        if r < 0.85:
            return ('D', rng.randrange(0, n_sent))
        if mode in ('dup', 'stale'):
            return ('D', 0)
        if r < 0.90:
            return ('D', n_sent + rng.randint(0, 2))
        if r < 0.96 or mode == 'noisy':
            return ('R', rng.randint(1, 3), bytes(rng.randrange(256) for _ in range(rng.randint(0, 8))))
        return ('R', 0, bytes(rng.randrange(256) for _ in range(rng.choice([0, 1, 2, 3, 5, 7, 12]))))
    return choose


def ditem_json(it):
    return {'group': list(it['group']), 'name': list(it['name']), 'type': it['type'], 'ro': it['ro'],
            'ext': it['ext'], 'core': it['core'], 'pers': it['pers']}


def ditem_unjson(d):
    return dict(d, group=bytes(d['group']), name=bytes(d['name']))


def gen_fetch_cases(ctx):
    rng = ctx.rng
    cases = []
    full = [0, 1, 2, 254, 255, 256, 257, 300, 1000]
    if ctx.thorough:
        plan = [(cls, n, ver) for cls in ('log', 'param') for n in full + [2500] for ver in ([7] if n > 255 else [7, 3])]
    else:
        plan = ([('log', n, 7) for n in full] + [('log', n, 3) for n in (0, 1, 255)]
                + [('param', n, 7) for n in (0, 1, 2, 255, 256, 257)] + [('param', n, 3) for n in (0, 1, 254, 255)])
    for cls, n, ver in plan:
        cases.append((cls, n, ver, 'honest' if n > 300 else rng.choice(['honest', 'dup'])))
    for _ in range(ctx.scale(120, 3000)):
        cls = rng.choice(['log', 'param'])
        ver = rng.choice([-1, 0, 3, 4, 5, 7, 10])
        n = rng.choice([0, 1, 1, 2, 3, 4, 5, 8, 13, 20])
        cases.append((cls, n, ver, rng.choice(['honest', 'dup', 'dup', 'noisy', 'garbage', 'garbage', 'cut', 'stale', 'stale', 'stale', 'wire', 'wire'])))
    out = []
    for cls, n, ver, mode in cases:
        v2 = ver >= 4
        legal = mode != 'garbage' or rng.random() < 0.5
        items = gen_items(rng, cls, n, v2, distinct=legal or rng.random() < 0.5, legal=legal)
        case = {'cls': cls, 'ver': ver, 'items': [ditem_json(i) for i in items], 'raw': raw_items(cls, items),
                'crc': rng.choice([0, 1, 0xFFFFFFFF, rng.getrandbits(32), rng.getrandbits(32)]),
                'extra': list(rng.choice([b'', b'\x10\x10', b'\x00', bytes(rng.randrange(256) for _ in range(3))])),
                'cache': None, 'mode': mode}
        if mode != 'honest' and rng.random() < 0.25 or (n <= 20 and rng.random() < 0.1):
            case['cache'] = gen_cached(rng, cls, items)
        out.append(case)
    return out


def spec_elem(cls, i, it):
    pt = '<' + C_FMT[it['type']]
    if cls == 'param' and it['type'] == 'F16':
        pt = ''
    return {'cls': cls, 'ident': i, 'group': bytes(it['group']), 'name': bytes(it['name']), 'ctype': C_NAME[it['type']],
            'pytype': pt, 'access': (1 if it['ro'] else 0) if cls == 'param' else 0,
            'extended': bool(it['ext']) if cls == 'param' else False, 'persistent': False}


def toc_lists(elems):
    """group -> name -> elem in insertion order, as lists"""
    d = {}
    for e in elems:
        d.setdefault(bytes(e['group']), {})[bytes(e['name'])] = e
    return [(g, [(n, e) for n, e in dd.items()]) for g, dd in d.items()]


def gen_cached(rng, cls, items):
    """a cached table: the right one, one of the other element class (CRC collision), an empty dict, or
    a different table of the right class"""
    kind = rng.choice(['same', 'same', 'other_class', 'empty', 'different', 'mixed'])
    if kind == 'empty':
        return []
    if kind == 'same':
        return toc_lists([spec_elem(cls, i, it) for i, it in enumerate(items)])
    oc = 'log' if cls == 'param' else 'param'
    its = gen_items(rng, oc if kind != 'different' else cls, rng.randint(1, 4), True)
    es = [spec_elem(oc if kind != 'different' else cls, i, it) for i, it in enumerate(its)]
    if kind == 'mixed':
        es += [spec_elem(cls, 7 + i, it) for i, it in enumerate(gen_items(rng, cls, 2, True))]
        rng.shuffle(es)
    return toc_lists(es)


def gen_parse_cases(ctx):
    rng = ctx.rng
    cases = []
    for cls in ('log', 'param'):
        for tb in range(256):                                 # every type byte, three name shapes
            cases.append((cls, rng.randrange(65536), bytes([tb]) + b'grp\0nm\0'))
            cases.append((cls, 0, bytes([tb]) + gen_name(rng, 8, 'latin') + b'\0' + gen_name(rng, 8, 'latin') + b'\0'))
        for _ in range(ctx.scale(400, 6000)):
            ln = rng.choice([0, 1, 2, 3, 5, 8, 13, 27])
            al = rng.choice([[0, 1, 2], [0, 65, 66, 46], list(range(256))])
            tbs = list(LOG_CODE.values()) if cls == 'log' else [c + f for c in PARAM_CODE.values() for f in (0, 16, 64, 80, 32)]
            d = bytes([rng.choice(tbs + [rng.randrange(256)])]) + bytes(rng.choice(al) for _ in range(ln))
            if rng.random() < 0.05:
                d = b''
            cases.append((cls, rng.choice([0, 1, 255, 256, 65535, rng.randrange(65536)]), d))
    return cases


# ------------------------------------------------------------------ tie

def tie(ctx):
    dis = []
    dist = {}
    keyset = set()
    nontriv = 0
    samples = []
    # ---- corpus first (replayed as fetch cases through oracle); see oracle()
    # ---- (1) element parsers
    pcs = gen_parse_cases(ctx)
    B = 64
    terms, exp = [], []
    for a in range(0, len(pcs), B):
        blk = pcs[a:a + B]
        terms.append('flat [' + '; '.join('enc_res (parse %s %d %s)' % (q_cls(c), i, q_str(d)) for c, i, d in blk) + ']')
        exp.append(coqrun.flat([impl_parse(c, i, d) for c, i, d in blk]))
    for bi, mv in compare_blocks(HEADER, terms, exp, tag='c03p', shard=3):
        blk = pcs[bi * B:(bi + 1) * B]
        for c, i, d in blk:
            got = impl_parse(c, i, d)
            mv1 = coqrun.eval_terms(HEADER, ['enc_res (parse %s %d %s)' % (q_cls(c), i, q_str(d))], tag='c03p1')[0]
            if list(mv1) != got:
                dis.append({'what': 'element parser: model and implementation differ', 'cls': c, 'ident': i,
                            'data': list(d), 'model': mv1, 'impl': got})
                break
    for c, i, d in pcs:
        k = (c, i, d)
        if k not in keyset:
            keyset.add(k)
            if len(d) > 1:
                nontriv += 1
    dist['parse_cases'] = len(pcs)
    # ---- (2) fetch traces
    fcs = gen_fetch_cases(ctx)
    terms, exp, kept = [], [], []
    for case in fcs:
        wevs = None
        if case['mode'] == 'wire':
            ch, wevs = wire_adversary(ctx.rng, len(case['raw']))
        else:
            ch = adversary(ctx.rng, len(case['raw']), case['mode'])
        case['probe'] = ctx.rng.choice(['all', 'all', 'start', 'none']) if len(case['raw']) <= 300 else 'start'
        obs, info = run_fetch(case, choose=ch, probe=case['probe'])
        if wevs is not None and py_wire(wevs) != [tuple(e) for e in info['evs']]:
            dis.append({'what': 'harness: link twin py_wire disagrees with the events delivered', 'wevs': wevs[:40]})
        dist['lookup_probes_during_fetch'] = dist.get('lookup_probes_during_fetch', 0) + info['probes']
        if info['probe_fail'] and sum(1 for d in dis if d['what'].startswith('Toc lookups depend')) < 2:
            dis.append({'what': 'Toc lookups depend on the history, not only on the current table (the model\'s Toc is a value)',
                        'detail': info['probe_fail'], 'cls': case['cls'], 'ver': case['ver'], 'n': len(case['raw']),
                        'cache': case['cache'] is not None, 'probe': case['probe'], 'events': [list(e[:2]) for e in info['evs']][:40]})
        case['evs'] = [list(e[:2]) + ([list(e[2])] if len(e) > 2 else []) for e in info['evs']]
        terms.append(model_fetch_term(case, info['evs'], wevs))
        exp.append(obs)
        kept.append(case)
        dist['fetch_' + case['mode']] = dist.get('fetch_' + case['mode'], 0) + 1
        dist['fetch_' + case['cls'] + ('_v2' if case['ver'] >= 4 else '_v1')] = dist.get(
            'fetch_' + case['cls'] + ('_v2' if case['ver'] >= 4 else '_v1'), 0) + 1
        if case['cache'] is not None:
            dist['fetch_with_cache_entry'] = dist.get('fetch_with_cache_entry', 0) + 1
        key = json.dumps([case['cls'], case['ver'], [list(map(list, r[:2])) + [r[2]] for r in case['raw']],
                          case['evs'], case['cache'] is not None], default=list)
        if key not in keyset:
            keyset.add(key)
            nd = sum(1 for e in info['evs'] if e[0] == 'D')
            if len(case['raw']) >= 2 and (case['mode'] in ('dup', 'noisy', 'garbage')) and nd > len(case['raw']) + 1:
                nontriv += 1
        if len(samples) < 3 and case['mode'] == 'dup' and 2 <= len(case['raw']) <= 4:
            samples.append({'cls': case['cls'], 'ver': case['ver'], 'items': [(bytes(g).decode('latin-1'), bytes(n).decode('latin-1'), tb) for g, n, tb in case['raw']],
                            'events': case['evs'], 'impl_obs_len': len(obs)})
    sizes = {}
    for c in kept:
        sizes[len(c['raw'])] = sizes.get(len(c['raw']), 0) + 1
    dist['table_sizes'] = {str(k): v for k, v in sorted(sizes.items())}
    for bi, mv in compare_blocks(HEADER, terms, exp, tag='c03f', shard=max(4, len(terms) // 15 + 1)):
        case = kept[bi]
        first = None
        if mv is not None:
            for k in range(max(len(mv), len(exp[bi]))):
                if k >= len(mv) or k >= len(exp[bi]) or mv[k] != exp[bi][k]:
                    first = k
                    break
        small = {k: v for k, v in case.items() if k not in ('raw',)} if len(case['raw']) <= 8 else \
            {'cls': case['cls'], 'ver': case['ver'], 'n': len(case['raw']), 'mode': case['mode']}
        dis.append({'what': 'TocFetcher trace: model and implementation differ', 'case': small, 'first_diff_at': first,
                    'model': None if mv is None or first is None else mv[max(0, first - 6):first + 6],
                    'impl': None if first is None else exp[bi][max(0, first - 6):first + 6]})
        if len(dis) > 6:
            break
    # ---- (3) extended-type phase and lookups
    ext = tie_ext(ctx, dist)
    dis += ext['dis']
    nontriv += ext['nontriv']
    lk = tie_lookup(ctx, dist)
    lg = tie_log(ctx, dist)
    dis += lg['dis']
    pv = tie_platform(ctx, dist)
    dis += pv['dis']
    gd = tie_guard(ctx, dist)
    dis += gd['dis']
    fr = tie_frame(ctx, dist)
    dis += fr['dis']
    dis += lk['dis']
    n_eval = len(pcs) + len(fcs) + ext['n'] + lk['n'] + lg['n'] + pv['n'] + gd['n'] + fr['n']
    return {
        'evaluations': n_eval,
        'distinct_nontrivial': nontriv,
        'rule': 'parser cases: distinct (class, ident, bytes) with at least one name byte; fetch traces: distinct '
                '(table, events) with >= 2 entries, a non-honest adversary and more deliveries than a clean download '
                'needs (i.e. at least one duplicate/stale/garbage delivery); extended-phase traces with >= 2 extended '
                'parameters and at least one duplicate or stale answer.  Whole traces compared by digest computed '
                'inside Coq, differing traces re-evaluated and diffed',
        'samples': samples,
        'distribution': dist,
        'exhaustive': False,
        'disagreements': dis,
    }


# ------------------------------------------------------------------ extended-type phase (real Param)

_param_singleton = {}


def _param_env():
    """One real Param object (its __init__ starts a _ParamUpdater thread) reused for all cases, with Lock/Queue
    of the param module replaced by the monitor's so that the _ExtendedTypeFetcher thread is deterministic."""
    import cflib.crazyflie.param as pm
    if 'mon' not in _param_singleton:
        mon = fk.Monitor()
        _param_singleton['mon'] = mon
        _param_singleton['orig'] = (pm.Lock, pm.Queue)
    return pm, _param_singleton['mon']


class _Patched:
    def __enter__(self):
        self.pm, self.mon = _param_env()
        self.pm.Lock, self.pm.Queue = self.mon.Lock, self.mon.Queue
        return self.pm, self.mon

    def __exit__(self, *a):
        self.pm.Lock, self.pm.Queue = _param_singleton['orig']


def run_ext(case, choose=None):
    """Drive Param.refresh_toc's completion closure (refresh_done) on a table installed through a cache hit of
    the real TocFetcher, then the real _ExtendedTypeFetcher.  case: toc (lists), xdev {ident: byte}, evs."""
    import threading
    with _Patched() as (pm, mon):
        trace = []
        cf = fk.FakeCF(7, trace)
        before = set(threading.enumerate())
        # Param without its updater thread
        p = pm.Param.__new__(pm.Param)
        p.toc = pm.Toc()
        p.cf = cf
        p._useV2 = True
        crc = 0x1234
        cache = StubCache(trace, {crc: case['toc']})
        p.refresh_toc(lambda: trace.append(('fin',)), cache)
        mark = len(trace)
        cf.deliver(PARAM_PORT, 0, b'\x03' + (len(case['toc'])).to_bytes(2, 'little') + crc.to_bytes(4, 'little'))
        worker = [t for t in threading.enumerate() if t not in before and type(t).__name__ == '_ExtendedTypeFetcher']
        th = worker[0] if worker else None

        def settle():
            if th is not None:
                r = mon.quiescent(th)
                if r == 'timeout':
                    trace.append(('raised', 'Timeout', 'worker did not settle'))
        settle()
        # the TocFetcher part (INFO request, packet, finished) is not part of this phase's observation
        del trace[:mark + 1]
        dev = fk.PyDev([], 0)
        dev.ext = dict(case['xdev'])
        evs = []
        k = 0
        while True:
            if choose is not None:
                ev = choose(len(cf.sent(PARAM_PORT, 3)), None)
                if ev is None:
                    break
            else:
                if k >= len(case['evs']):
                    break
                ev = case['evs'][k]
                k += 1
            ev = tuple(ev)
            if ev[0] == 'O':
                # extended-type reply left over from an earlier session, for a parameter id that is NOT in flight
                reqs = cf.sent(PARAM_PORT, 3)
                cur = int.from_bytes(bytes(reqs[-1][3][1:3]), 'little') if reqs else -1
                done = any(t == ('fin',) for t in trace)
                ids = [i for i in list(case['xdev']) + [65535, 0] if done or i != cur]
                oid = ids[ev[1] % len(ids)]
                ev = ('R', 3, bytes([2, oid & 255, oid >> 8, ev[2]]))
            if ev[0] == 'M':
                # misc-channel packet of ANOTHER command (value-updated notification, reply to a persistent/default
                # request) carrying the id of the extended-type request in flight: must not be taken as its answer
                reqs = cf.sent(PARAM_PORT, 3)
                idb = bytes(reqs[-1][3][1:3]) if reqs else b'\0\0'
                ev = ('R', 3, bytes([ev[1]]) + idb + bytes(ev[2]))
            evs.append(ev)
            if ev[0] == 'D':
                reqs = cf.sent(PARAM_PORT, 3)
                if ev[1] < len(reqs):
                    r = dev.ext_reply(reqs[ev[1]][3])
                    if r is not None:
                        cf.deliver(PARAM_PORT, 3, r)
                        settle()
            else:
                cf.deliver(PARAM_PORT, ev[1], bytes(ev[2]))
                settle()
        if th is not None:
            q = list(th.request_queue.items)
            st = lenc([int.from_bytes(bytes(pk.data[1:3]), 'little') for pk in q]) + [th._req_param, th._count, _b(th._lock.held)]
            mon.shutdown(th)
        else:
            st = [0, -1, -1, 0]
        enc = []
        for t in trace:
            if t[0] == 'got':
                enc += [10, t[2]] + lenc(t[3])
            elif t[0] == 'send':
                if t[1] != PARAM_PORT or t[2] != 3:
                    enc += [-11, t[1], t[2]]
                enc += [11] + lenc(t[3])
            elif t[0] == 'fin':
                enc += [13]
            elif t[0] == 'raised':
                enc += [14, EXN.get(t[1], 99)]
        obs = st + enc_toc(p.toc.toc) + enc
        return obs, {'evs': evs, 'trace': trace, 'param': p, 'cf': cf}


def model_ext_term(case, evs):
    return 'enc_xrun (xfetch %s [%s] %s)' % (q_toc(case['toc']), '; '.join('(%d, %d)' % kv for kv in sorted(case['xdev'].items())),
                                             q_evs(evs))


HEADER_X = HEADER.replace('C03.Model.', 'C03.Model C03.ExtModel.')


def gen_ext_case(rng, n=None):
    n = rng.choice([0, 1, 2, 3, 5, 8, 12]) if n is None else n
    items = gen_items(rng, 'param', n, True)
    if n and rng.random() < 0.2:
        for it in items:
            it['ext'] = rng.random() < 0.9
    ids = list(range(n))
    if rng.random() < 0.3:
        ids = rng.sample(range(0, 65536), n)          # cached tables may carry any ids
    es = [spec_elem('param', i, it) for i, it in zip(ids, items)]
    xdev = {}
    for i, it in zip(ids, items):
        if it['ext']:
            xdev[i] = 1 if it['pers'] else rng.choice([0, 0, 2, 255])
    return {'items': [ditem_json(i) for i in items], 'ids': ids, 'toc': toc_lists(es), 'xdev': xdev}


def ext_adversary(rng, n_ext, mode):
    budget = [3 * n_ext + 6]

    def choose(n_sent, _f):
        if budget[0] <= 0:
            return None
        budget[0] -= 1
        if mode == 'honest':
            return ('D', n_sent - 1) if n_sent else None
        r = rng.random()
        if r < 0.5:
            return ('D', max(0, n_sent - 1))
        if r < 0.8:
            return ('D', rng.randrange(0, n_sent + 1))
        if r < 0.84:
            return ('R', rng.choice([0, 1, 2]), bytes(rng.randrange(256) for _ in range(rng.randint(0, 6))))
        if r < 0.89:
            return ('O', rng.randrange(8), rng.choice([0, 1, 1, 2]))
        if r < 0.95 or mode == 'dup':
            # other misc command for the id in flight; tail shaped like a value / status byte (often exactly 1 = "persistent")
            return ('M', rng.choice([1, 1, 1, 0, 3, 4, 5, 6, 255]), rng.choice([b'\x01', b'\x01', b'', b'\x00', bytes(rng.randrange(256) for _ in range(rng.randint(1, 5)))]))
        return ('R', 3, rng.choice([b'', b'\x02', b'\x02\x00', bytes(rng.randrange(256) for _ in range(rng.choice([1, 2, 3, 4, 6]))),
                                    b'\x02' + bytes(rng.randrange(256) for _ in range(rng.choice([1, 2, 3])))]))
    return choose


def tie_ext(ctx, dist):
    rng = ctx.rng
    terms, exp, cases = [], [], []
    nontriv = 0
    for _ in range(ctx.scale(60, 600)):
        case = gen_ext_case(rng)
        mode = rng.choice(['honest', 'dup', 'dup', 'garbage'])
        obs, info = run_ext(case, choose=ext_adversary(rng, len(case['xdev']), mode))
        case['evs'] = [list(e[:2]) + ([list(e[2])] if len(e) > 2 else []) for e in info['evs']]
        case['mode'] = mode
        terms.append(model_ext_term(case, info['evs']))
        exp.append(obs)
        cases.append(case)
        dist['ext_' + mode] = dist.get('ext_' + mode, 0) + 1
        if len(case['xdev']) >= 2 and mode != 'honest' and sum(1 for e in info['evs'] if e[0] == 'D') > len(case['xdev']):
            nontriv += 1
    dis = []
    for bi, mv in compare_blocks(HEADER_X, terms, exp, tag='c03x', shard=max(2, len(terms) // 12 + 1)):
        first = None
        if mv is not None:
            for k in range(max(len(mv), len(exp[bi]))):
                if k >= len(mv) or k >= len(exp[bi]) or mv[k] != exp[bi][k]:
                    first = k
                    break
        c = cases[bi]
        dis.append({'what': 'extended-type phase: model and implementation differ',
                    'case': {'toc': repr(c['toc'])[:600], 'xdev': c['xdev'], 'evs': c['evs']}, 'first_diff_at': first,
                    'model': None if mv is None or first is None else mv[max(0, first - 6):first + 6],
                    'impl': None if first is None else exp[bi][max(0, first - 6):first + 6]})
        if len(dis) > 3:
            break
    return {'dis': dis, 'nontriv': nontriv, 'n': len(terms)}


# ------------------------------------------------------------------ the download as the real Log object starts it

def run_log(case, choose=None, cache=None, chain_param=None):
    """Drive the real Log object (Log.refresh_toc -> reset request -> reset reply -> TocFetcher).
    Events: ('S',) a copy of the reset reply (port 5, settings channel); ('D', k) reply to the k-th request sent
    on the TOC channel of port 5 (by any fetcher); ('R', chan, data) raw packet on port 5.
    case: ver, raw (log items), crc, extra, evs.  Returns (encoded observation, info)."""
    import cflib.crazyflie.log as lg
    ver = case['ver']
    dev = fk.PyDev(case['raw'], case['crc'], bytes(case['extra']))
    trace = []
    cf = fk.FakeCF(ver, trace)
    instances = []
    marks = []
    Orig = lg.TocFetcher

    class Rec(Orig):
        def __init__(self, *a, **k):
            Orig.__init__(self, *a, **k)
            instances.append(self)
            marks.append(len(trace))
    lg.TocFetcher = Rec
    try:
        log = lg.Log(cf)
        stub = cache if cache is not None else StubCache(trace, {})
        fins = []

        def finished():
            trace.append(('fin',))
            fins.append(len(trace))
            if chain_param is not None:
                chain_param(cf, stub, trace)
        log.refresh_toc(finished, stub)
        evs = []
        k = 0
        while True:
            if choose is not None:
                ev = choose(len(cf.sent(LOG_PORT, 0)), instances[0] if instances else None, cf)
                if ev is None:
                    break
            else:
                if k >= len(case['evs']):
                    break
                ev = case['evs'][k]
                k += 1
            ev = tuple(ev)
            evs.append(ev)
            if ev[0] == 'S':
                cf.deliver(LOG_PORT, 1, bytes([5, 0, 0]))
            elif ev[0] == 'D':
                reqs = cf.sent(LOG_PORT, 0)
                if ev[1] < len(reqs):
                    r = dev.reply(ver >= 4, reqs[ev[1]][3])
                    if r is not None:
                        cf.deliver(LOG_PORT, 0, r)
            else:
                cf.deliver(LOG_PORT, ev[1], bytes(ev[2]))
        if log.toc is None or not instances:
            obs = [-1]
        else:
            f = instances[0]
            st = {None: 0, 'GET_TOC_INFO': 1, 'GET_TOC_ELEMENT': 2}.get(f.state, 9)
            tr = [t for t in trace[marks[0]:] if not (t[0] in ('got', 'send') and t[1] == LOG_PORT and t[2] == 1)
                  and not (t[0] in ('got', 'send') and t[1] != LOG_PORT)]
            obs = [len(instances), 1 if cf.registered(f._new_packet_cb) else 0, st, _b(f._useV2),
                   -1 if f.requested_index is None else f.requested_index,
                   -1 if f.nbr_of_items is None else f.nbr_of_items, f._crc] + enc_toc(log.toc.toc) + enc_trace(tr, LOG_PORT)
        return obs, {'evs': evs, 'trace': trace, 'log': log, 'cf': cf, 'fetchers': instances, 'fins': len(fins)}
    finally:
        lg.TocFetcher = Orig


def q_levs(evs):
    out = []
    for e in evs:
        if e[0] == 'S':
            out.append('LReset')
        elif e[0] == 'D':
            out.append('LEv (Deliver %d)' % e[1])
        else:
            out.append('LEv (Raw %d %s)' % (e[1], q_str(e[2])))
    return '[' + '; '.join(out) + ']'


HEADER_L = HEADER.replace('C03.Model.', 'C03.Model C03.Restart.')


def log_adversary(rng, n_items, mode):
    inner = adversary(rng, n_items, 'dup' if mode == 'garbage' else mode)
    started = [False]

    def choose(n_sent, f, cf):
        r = rng.random()
        if not started[0] and r < 0.8:
            started[0] = True
            return ('S',)
        if r < 0.22:
            return ('S',)
        if mode == 'garbage' and r < 0.3:
            return ('R', rng.choice([0, 0, 3]), bytes(rng.randrange(256) for _ in range(rng.choice([1, 2, 3, 5, 7, 12]))))
        if n_sent == 0:
            return ('D', rng.randrange(0, 2)) if rng.random() < 0.5 else ('S',)
        return inner(n_sent, f)
    return choose


def tie_log(ctx, dist):
    rng = ctx.rng
    terms, exp, cases = [], [], []
    for _ in range(ctx.scale(60, 600)):
        n = rng.choice([0, 1, 1, 2, 3, 5, 8])
        ver = rng.choice([-1, 3, 4, 7])
        items = gen_items(rng, 'log', n, ver >= 4)
        case = {'ver': ver, 'raw': raw_items('log', items), 'crc': rng.getrandbits(32), 'extra': list(rng.choice([b'', b'\x10\x10']))}
        mode = rng.choice(['honest', 'dup', 'dup', 'garbage'])
        obs, info = run_log(case, choose=log_adversary(rng, n, mode))
        terms.append('enc_lrun (lrun (fun _ => None) %s %s %s)' % (coqrun.z(ver), q_dev(case['raw'], case['crc'], case['extra']),
                                                                  q_levs(info['evs'])))
        exp.append(obs)
        cases.append((case, info['evs']))
        dist['log_start_traces'] = dist.get('log_start_traces', 0) + 1
        dist['log_reset_copies'] = dist.get('log_reset_copies', 0) + sum(1 for e in info['evs'] if e[0] == 'S')
    dis = []
    for bi, mv in compare_blocks(HEADER_L, terms, exp, tag='c03r', shard=max(2, len(terms) // 10 + 1)):
        first = None
        if mv is not None:
            for k in range(max(len(mv), len(exp[bi]))):
                if k >= len(mv) or k >= len(exp[bi]) or mv[k] != exp[bi][k]:
                    first = k
                    break
        c, evs = cases[bi]
        dis.append({'what': 'Log download start (reset replies + fetch): model and implementation differ',
                    'ver': c['ver'], 'n': len(c['raw']), 'events': [list(e[:2]) for e in evs][:60], 'first_diff_at': first,
                    'model': None if mv is None or first is None else mv[max(0, first - 6):first + 6],
                    'impl': None if first is None else exp[bi][max(0, first - 6):first + 6]})
        if len(dis) > 3:
            break
    return {'dis': dis, 'n': len(terms)}


def tie_guard(ctx, dist):
    """the restart guard of the real Log object over its life: refresh_toc / reset replies / disconnected in any
    order; observed: is a Toc present, and for every TocFetcher the Log creates, whether a refresh_toc of the current
    attempt was waiting for its reset reply (harness-side ghost) — against `grun GFixed`"""
    import cflib.crazyflie.log as lg
    rng = ctx.rng
    terms, exp, cases = [], [], []
    Orig = lg.TocFetcher
    for _ in range(ctx.scale(60, 500)):
        evs = [rng.choice(['GRefresh', 'GReset', 'GReset', 'GDisconnect']) for _ in range(rng.randint(1, 9))]
        if rng.random() < 0.7:
            evs.insert(0, 'GRefresh')
        trace = []
        cf = fk.FakeCF(rng.choice([3, 7]), trace)
        ghost = {'pending': False}
        starts = []

        class Rec(Orig):
            def __init__(self, *a, **k):
                Orig.__init__(self, *a, **k)
                starts.append(1 if ghost['pending'] else 0)
                ghost['pending'] = False
        lg.TocFetcher = Rec
        try:
            log = lg.Log(cf)
            cache = StubCache(trace, {})
            for e in evs:
                if e == 'GRefresh':
                    ghost['pending'] = True
                    log.refresh_toc(lambda: None, cache)
                elif e == 'GReset':
                    cf.deliver(LOG_PORT, 1, bytes([5, 0, 0]))
                else:
                    cf.disconnected.call('uri')
                    ghost['pending'] = False
            obs = [0 if log.toc is None else 1, 1 if ghost['pending'] else 0] + starts
        finally:
            lg.TocFetcher = Orig
        terms.append('enc_gst (grun GFixed [%s])' % '; '.join(evs))
        exp.append(obs)
        cases.append(evs)
    dis = []
    for bi, mv in compare_blocks(HEADER_L, terms, exp, tag='c03g', shard=max(2, len(terms) // 6 + 1)):
        dis.append({'what': 'Log restart guard over sessions: model and implementation differ', 'events': cases[bi],
                    'model [toc, pending, legit flags...]': mv, 'impl': exp[bi]})
        if len(dis) > 2:
            break
    dist['guard_histories'] = len(terms)
    return {'dis': dis, 'n': len(terms)}


def oracle_log_case(case):
    """property text through the real Log (and Param) objects with a real TocCache: whenever the download is reported
    finished the table equals the device's table exactly, and the cache file under the device's CRC holds it."""
    import shutil
    import tempfile
    from cflib.crazyflie.toccache import TocCache
    items = [ditem_unjson(d) for d in case['items']]
    pitems = [ditem_unjson(d) for d in case.get('pitems', [])]
    c = dict(case, raw=raw_items('log', items))
    root = tempfile.mkdtemp(prefix='c03_', dir=os.path.join(coqrun.VERIF, '.build'))
    try:
        cache = TocCache(rw_cache=root)
        evs = [tuple(e[:2]) + ((bytes(e[2]),) if len(e) > 2 else ()) for e in case['evs']]
        it_ = iter(evs)
        guard = [4 * len(items) + 20]
        pstate = {}

        def chain(cf, ch, trace):                 # what Crazyflie does on log completion: memories, then parameters
            import cflib.crazyflie.param as pm
            par = pm.Param.__new__(pm.Param)
            par.toc = pm.Toc()
            par.cf = cf
            par._useV2 = case['ver'] >= 4
            pstate.setdefault('pars', []).append(par)
            par.refresh_toc(lambda: trace.append(('pfin',)), ch)

        def choose(n_sent, f, cf):
            ev = next(it_, None)
            if ev is not None:
                return ev
            guard[0] -= 1
            if guard[0] < 0 or n_sent == 0 or any(t == ('fin',) for t in cf.trace):
                return None
            return ('D', n_sent - 1)
        obs, info = run_log(c, choose=choose, cache=cache, chain_param=chain if case.get('param') else None)
        tr, cf = info['trace'], info['cf']

        def fail(klass, detail):
            return {'class': klass, 'case': case, 'detail': detail, 'expected': 'finished => table == device table, once', 'observed': detail}
        # parameter download (if chained), with more reset-reply copies in between and afterwards
        if case.get('param') and pstate.get('pars'):
            pdev = fk.PyDev(raw_items('param', pitems), case['pcrc'], b'')
            for step in range(len(pitems) + 3):
                if any(t == ('pfin',) for t in tr):
                    break
                if step in case.get('late_resets', []):
                    cf.deliver(LOG_PORT, 1, bytes([5, 0, 0]))
                reqs = cf.sent(PARAM_PORT, 0)
                if not reqs:
                    break
                r = pdev.reply(case['ver'] >= 4, reqs[-1][3])
                if r is None:
                    break
                cf.deliver(PARAM_PORT, 0, r)
        for _ in range(case.get('after_done_resets', 0)):
            cf.deliver(LOG_PORT, 1, bytes([5, 0, 0]))
            # a restarted download would now be waiting for replies: answer whatever is outstanding
            for _ in range(len(items) + 3):
                reqs = cf.sent(LOG_PORT, 0)
                r = fk.PyDev(c['raw'], case['crc'], b'').reply(case['ver'] >= 4, reqs[-1][3]) if reqs else None
                before = len(tr)
                if r is not None:
                    cf.deliver(LOG_PORT, 0, r)
                if len([t for t in tr[before:] if t[0] == 'send']) == 0:
                    break
        exc = [t for t in tr if t[0] == 'raised']
        if exc:
            return fail('log_download_raises', 'callback raised %r' % (exc[0][1:],))
        fins = sum(1 for t in tr if t == ('fin',))
        if fins == 0 and not any(e[0] == 'S' for e in evs):
            return None
        if fins != 1:
            return fail('log_download_not_finished_once', 'log download reported finished %d times' % fins)
        first_fin = tr.index(('fin',))
        if len(info['fetchers']) != 1:
            return fail('log_download_restarted', '%d downloads were started by the copies of the reset reply' % len(info['fetchers']))
        bad = check_table('log', items, info['log'].toc) if info['log'].toc is not None else 'log table is None'
        if bad:
            return fail('log_table_differs_when_finished', bad)
        files = sorted(os.listdir(root))
        want = ['%08X.json' % case['crc']] + (['%08X.json' % case['pcrc']] if case.get('param') and any(t == ('pfin',) for t in tr) else [])
        if files != sorted(set(want)):
            return fail('log_cache_files_wrong', 'cache directory holds %r, expected %r' % (files, sorted(set(want))))
        if case['crc'] != case.get('pcrc'):
            got = TocCache(rw_cache=root).fetch(case['crc'])
            from cflib.crazyflie.toc import Toc
            h = Toc()
            h.toc = got if isinstance(got, dict) else {}
            bad = None if (not items and got == {}) else check_table('log', items, h) if isinstance(got, dict) else 'cache file does not load'
            if bad:
                return fail('log_cache_file_differs', 'file under the device CRC: %s' % bad)
        if case.get('param'):
            pf = sum(1 for t in tr if t == ('pfin',))
            if pf != 1 or len(pstate.get('pars', [])) != 1:
                return fail('param_download_not_started_or_finished_once', 'parameter download started %d times, finished %d times' % (len(pstate.get('pars', [])), pf))
            bad = check_table('param', pitems, pstate['pars'][0].toc)
            if bad:
                return fail('param_table_differs_when_finished', bad)
        return None
    finally:
        shutil.rmtree(root, ignore_errors=True)


def gen_log_oracle_cases(ctx, deep):
    """copies of the reset reply at EVERY position of the download: before INFO, between INFO and element 0, between
    elements, after completion, during and after the parameter download; one or two copies; both generations"""
    rng = ctx.rng
    out = []
    for ver in (3, 7):
        for n in ([0, 1, 2, 4] if not deep else [0, 1, 2, 3, 4, 6]):
            items = gen_items(rng, 'log', n, ver >= 4)
            honest = [['S']] + [['D', k] for k in range(n + 1)]
            for pos in range(1, len(honest) + 1):
                for copies in (1, 2):
                    evs = honest[:pos] + [['S']] * copies + honest[pos:]
                    if rng.random() < 0.3:
                        evs.insert(rng.randrange(1, len(evs) + 1), ['D', rng.randrange(0, n + 1)])     # plus a stale reply
                    with_param = rng.random() < 0.35
                    pit = gen_items(rng, 'param', rng.choice([1, 2, 3]), ver >= 4) if with_param else []
                    for it in pit:
                        it['ext'] = False
                    out.append({'kind': 'log', 'ver': ver, 'items': [ditem_json(i) for i in items], 'crc': rng.getrandbits(32),
                                'extra': [], 'evs': evs, 'param': with_param, 'pitems': [ditem_json(i) for i in pit],
                                'pcrc': rng.getrandbits(32), 'late_resets': [rng.randrange(0, 3)] if with_param else [],
                                'after_done_resets': rng.choice([0, 1, 2])})
    return out


# ------------------------------------------------------------------ two sessions on ONE object, two device tables

def gen_session_events(rng, cls, n, ver, other_ver, n_other, ext_ids):
    """symbolic schedule of the SECOND session: honest progress ('H') with, at every point, duplicates of earlier
    answers of this session ('DUP', k), replies left over from the first session ('SI' its INFO reply, ('SE', j) its
    element replies) — excluding exactly the two kinds that are indistinguishable on the wire —, copies of the reset
    reply ('S', log only); then the extended-type phase (param)."""
    same_gen = (ver >= 4) == (other_ver >= 4)
    evs = []
    if cls == 'log':
        evs.append(('S',))
    for h in range(n + 2):                      # h honest steps done: 0 -> INFO pending, 1..n -> item h-1 pending
        for _ in range(rng.choice([0, 1, 1, 2, 3])):
            r = rng.random()
            if r < 0.3 and (h >= 1 or not same_gen):
                evs.append(('SI',))
            elif r < 0.65 and n_other:
                j = rng.randrange(n_other)
                if same_gen and 1 <= h <= n and j == h - 1:
                    j = (j + 1) % n_other
                    if j == h - 1:
                        continue
                evs.append(('SE', j))
            elif r < 0.85 and h >= 1:
                evs.append(('DUP', rng.randrange(h)))
            elif cls == 'log':
                evs.append(('S',))
        if h <= n:
            evs.append(('H',))
    k = 0
    for _ in ext_ids:
        for _ in range(rng.choice([0, 1, 2])):
            r = rng.random()
            if r < 0.4:
                evs.append(('XO', rng.randrange(8), rng.choice([0, 1, 1])))
            elif r < 0.7 and k:
                evs.append(('XDUP', rng.randrange(k)))
            elif r < 0.85:
                evs.append(('M', rng.choice([1, 4, 6]), [1]))
            else:
                evs.append(('SI',))
        evs.append(('XH',))
        k += 1
    for _ in range(rng.choice([0, 1, 2])):
        evs.append(rng.choice([('SI',), ('SE', 0), ('XO', 1, 1)] if n_other else [('SI',)]))
    return [list(e) for e in evs]


def oracle_sessions_case(case):
    """One Log / Param object, one cf, one cache directory; session 1 against device A (complete, or abandoned
    after `cut1` honest steps and a disconnect), session 2 against device B with everything of session 1 still in
    flight.  Property text on session 2: when it reports finished the table is exactly B's (persistence included),
    the cache file under B's CRC holds it, finished once, and nothing of session 1 reports finished again."""
    import shutil
    import tempfile
    import threading
    from cflib.crazyflie.toccache import TocCache
    cls = case['cls']
    port = LOG_PORT if cls == 'log' else PARAM_PORT
    A = [ditem_unjson(d) for d in case['itemsA']]
    B = [ditem_unjson(d) for d in case['itemsB']]
    root = tempfile.mkdtemp(prefix='c03s_', dir=os.path.join(coqrun.VERIF, '.build'))

    def fail(klass, detail):
        return {'class': klass, 'case': case, 'detail': detail, 'observed': detail,
                'expected': 'session 2 finished once with exactly the table of device B'}
    with _Patched() as (pm, mon):
        import cflib.crazyflie.log as lg
        trace = []
        cf = fk.FakeCF(case['ver1'], trace)
        cache = TocCache(rw_cache=root)
        before = set(threading.enumerate())
        workers = []
        try:
            if cls == 'log':
                obj = lg.Log(cf)
            else:
                obj = pm.Param.__new__(pm.Param)
                obj.cf = cf
                obj.toc = pm.Toc()

            def settle():
                for t in threading.enumerate():
                    if t not in before and type(t).__name__ == '_ExtendedTypeFetcher':
                        if t not in workers:
                            workers.append(t)
                for t in workers:
                    if mon.quiescent(t) == 'timeout':
                        trace.append(('raised', 'Timeout', 'worker did not settle'))

            def start(sess, ver):
                cf.platform.ver = ver
                if cls == 'log':
                    obj.refresh_toc(lambda: trace.append(('fin', sess)), cache)
                else:
                    obj.toc = pm.Toc()                     # Param._connection_requested
                    obj._useV2 = ver >= 4
                    obj.refresh_toc(lambda: trace.append(('fin', sess)), cache)
                settle()

            def run(sess, ver, dev, evs, stale_dev, stale_ver):
                base = len(cf.sent(port, 0))
                xbase = len(cf.sent(PARAM_PORT, 3))
                start(sess, ver)
                for ev in evs:
                    ev = tuple(ev)
                    reqs = cf.sent(port, 0)[base:]
                    xreqs = cf.sent(PARAM_PORT, 3)[xbase:]
                    if ev[0] == 'S':
                        cf.deliver(LOG_PORT, 1, bytes([5, 0, 0]))
                    elif ev[0] in ('H', 'DUP'):
                        k = len(reqs) - 1 if ev[0] == 'H' else ev[1]
                        if 0 <= k < len(reqs):
                            r = dev.reply(ver >= 4, reqs[k][3])
                            if r is not None:
                                cf.deliver(port, 0, r)
                    elif ev[0] == 'SI':
                        cf.deliver(port, 0, stale_dev.reply(stale_ver >= 4, bytes([3 if stale_ver >= 4 else 1])))
                    elif ev[0] == 'SE':
                        j = ev[1]
                        r = stale_dev.reply(stale_ver >= 4, bytes([2, j & 255, j >> 8]) if stale_ver >= 4 else bytes([0, j]))
                        if r is not None:
                            cf.deliver(port, 0, r)
                    elif ev[0] in ('XH', 'XDUP'):
                        k = len(xreqs) - 1 if ev[0] == 'XH' else ev[1]
                        if 0 <= k < len(xreqs):
                            r = dev.ext_reply(xreqs[k][3])
                            if r is not None:
                                cf.deliver(PARAM_PORT, 3, r)
                    elif ev[0] == 'XO':
                        cur = int.from_bytes(bytes(xreqs[-1][3][1:3]), 'little') if xreqs else -1
                        done = any(t == ('fin', sess) for t in trace)
                        ids = [i for i in list(dev.ext) + [65535, 0] if done or not xreqs or i != cur]
                        oid = ids[ev[1] % len(ids)]
                        cf.deliver(PARAM_PORT, 3, bytes([2, oid & 255, oid >> 8, ev[2]]))
                    elif ev[0] == 'M':
                        idb = bytes(xreqs[-1][3][1:3]) if xreqs else b'\0\0'
                        cf.deliver(PARAM_PORT, 3, bytes([ev[1]]) + idb + bytes(ev[2]))
                    settle()

            def mkdev(items, crc):
                d = fk.PyDev(raw_items(cls, items), crc, b'')
                d.ext = {i: (1 if it['pers'] else 0) for i, it in enumerate(items) if cls == 'param' and it['ext']}
                return d
            devA, devB = mkdev(A, case['crcA']), mkdev(B, case['crcB'])
            run(1, case['ver1'], devA, case['evs1'], devA, case['ver1'])
            fin1 = sum(1 for t in trace if t == ('fin', 1))
            cf.disconnected.call('uri')
            mark = len(trace)
            run(2, case['ver2'], devB, case['evs2'], devA, case['ver1'])
            tr2 = trace[mark:]
            exc = [t for t in tr2 if t[0] == 'raised']
            if exc:
                return fail('second_session_raises', 'callback raised %r' % (exc[0][1:],))
            if any(t == ('fin', 1) for t in tr2):
                return fail('old_session_reports_finished_in_new_session', 'the completion callback of session 1 fired during session 2')
            fins = sum(1 for t in tr2 if t == ('fin', 2))
            if fins != 1:
                return fail('second_session_not_finished_once', 'session 2 reported finished %d times' % fins)
            if obj.toc is None:
                return fail('second_session_table_differs', 'table is None')
            bad = check_table(cls, B, obj.toc, pers=True if cls == 'param' else None)
            if bad:
                return fail('second_session_table_differs', bad)
            got = TocCache(rw_cache=root).fetch(case['crcB'])
            from cflib.crazyflie.toc import Toc
            h = Toc()
            h.toc = got if isinstance(got, dict) else {}
            bad = None if (not B and got == {}) else (check_table(cls, B, h) if isinstance(got, dict) else 'cache file of session 2 does not load')
            if bad:
                return fail('second_session_cache_file_differs', 'file under the CRC of device B: %s' % bad)
            want = {'%08X.json' % case['crcB']} | ({'%08X.json' % case['crcA']} if fin1 or case.get('a_stored') else set())
            have = set(os.listdir(root))
            if not (have <= want | {'%08X.json' % case['crcA']}) or '%08X.json' % case['crcB'] not in have:
                return fail('second_session_cache_files_wrong', 'cache directory holds %r' % sorted(have))
            return None
        finally:
            for t in workers:
                mon.shutdown(t)
            shutil.rmtree(root, ignore_errors=True)


def gen_sessions_cases(ctx, deep):
    rng = ctx.rng
    out = []
    for k in range(ctx.scale(36, 300) * (2 if deep else 1)):
        cls = 'log' if k % 2 == 0 else 'param'
        ver1, ver2 = rng.choice([(7, 7), (7, 7), (3, 3), (3, 7), (7, 3)])
        nA, nB = rng.choice([1, 2, 3, 5]), rng.choice([0, 1, 2, 3, 4])
        A, B = gen_items(rng, cls, nA, ver1 >= 4), gen_items(rng, cls, nB, ver2 >= 4)
        extA = [i for i, it in enumerate(A) if cls == 'param' and it['ext']]
        extB = [i for i, it in enumerate(B) if cls == 'param' and it['ext']]
        # session 1: complete, or abandoned after cut1 honest steps (possibly inside the extended-type phase)
        full1 = ([['S']] if cls == 'log' else []) + [['H']] * (nA + 1) + [['XH']] * len(extA)
        cut = rng.choice([None, None, rng.randint(0, len(full1))])
        if extA and rng.random() < 0.4:
            cut = len(full1) - rng.randint(1, len(extA))          # abandoned inside the extended-type phase
        evs1 = full1 if cut is None else full1[:cut]
        evs2 = gen_session_events(rng, cls, nB, ver2, ver1, nA, extB)
        out.append({'kind': 'sessions', 'cls': cls, 'ver1': ver1, 'ver2': ver2, 'itemsA': [ditem_json(i) for i in A],
                    'itemsB': [ditem_json(i) for i in B], 'crcA': rng.getrandbits(32), 'crcB': rng.getrandbits(32),
                    'evs1': evs1, 'evs2': evs2, 'a_stored': cut is None or cut > nA + (1 if cls == 'log' else 0)})
    return out


# ------------------------------------------------------------------ protocol generation per session (PlatformService)

MAGIC = b'Bitcraze Crazyflie'


def mk_cf_with_platform(trace):
    """fake cf whose `platform` is the REAL PlatformService (driven by packets on ports 15 and 13)"""
    from cflib.crazyflie.platformservice import PlatformService
    cf = fk.FakeCF(-1, trace)
    cf.link_uri = 'radio://0/80/2M/E7E7E7E7E7'
    cf.platform = PlatformService(cf)
    return cf


def tie_platform(ctx, dist):
    rng = ctx.rng
    terms, exp, cases = [], [], []
    for _ in range(ctx.scale(40, 400)):
        evs = []
        for _ in range(rng.randint(1, 10)):
            r = rng.random()
            if r < 0.3:
                evs.append(('F', rng.choice([7, 7, 8])))
            elif r < 0.55:
                evs.append(('P', 15, rng.choice([1, 1, 1, 0, 2]), rng.choice([MAGIC + b'\0', MAGIC, MAGIC[:17], b'\0', b'Bitcraze Crazyfliex', b''])))
            elif r < 0.9:
                evs.append(('P', 13, rng.choice([1, 1, 1, 0, 2]), rng.choice([bytes([0, rng.choice([0, 3, 4, 10, 255])]), b'\0', b'', bytes([1, 5]), bytes([0, 7, 9])])))
            else:
                evs.append(('P', rng.choice([5, 2, 14]), rng.randrange(4), bytes(rng.randrange(128) for _ in range(rng.randint(0, 4)))))
        trace = []
        cf = mk_cf_with_platform(trace)
        obs = []
        for e in evs:
            mark = len(trace)
            if e[0] == 'F':
                cf.link_uri = 'radio://0/%d/2M' % e[1]
                cf.platform.fetch_platform_informations(lambda: trace.append(('done', cf.platform.get_protocol_version())))
            else:
                cf.deliver(e[1], e[2], bytes(e[3]))
        for t in trace:
            if t[0] == 'send':
                obs += [1, t[1], t[2]] + lenc(t[3])
            elif t[0] == 'done':
                obs += [2, t[1]]
            elif t[0] == 'raised':
                obs += [3, EXN.get(t[1], 99)]
        obs = [cf.platform.get_protocol_version(), 0 if cf.platform._callback is None else 1] + obs
        terms.append('enc_prun (prun p_init [%s])' % '; '.join(('PFetch %d' % e[1]) if e[0] == 'F' else ('PPkt %d %d %s' % (e[1], e[2], q_str(e[3]))) for e in evs))
        exp.append(obs)
        cases.append(evs)
    dis = []
    for bi, mv in compare_blocks(HEADER.replace('C03.Model.', 'C03.Model C03.Version.'), terms, exp, tag='c03v', shard=max(2, len(terms) // 8 + 1)):
        dis.append({'what': 'PlatformService handshake: model and implementation differ', 'events': repr(cases[bi])[:600],
                    'model': None if mv is None else mv[:40], 'impl': exp[bi][:40]})
        if len(dis) > 2:
            break
    dist['platform_traces'] = len(terms)
    return {'dis': dis, 'n': len(terms)}


def oracle_versions_case(case):
    """ONE Crazyflie-like object (real PlatformService, real Log, real Param, one cf, one URI) connected to a sequence
    of devices with DIFFERENT protocol versions; each device answers the way a firmware of its version does.  After
    every session: both tables exactly the device's, for both generations and for tables of more than 255 entries."""
    import cflib.crazyflie.log as lg
    import cflib.crazyflie.param as pm
    trace = []
    cf = mk_cf_with_platform(trace)
    log = lg.Log(cf)
    par = pm.Param.__new__(pm.Param)
    par.cf = cf
    par.toc = pm.Toc()
    cache = StubCache(trace, {})

    def fail(klass, detail):
        return {'class': klass, 'case': case, 'detail': detail, 'observed': detail,
                'expected': 'every session: tables exactly the device tables (the generation of THAT device)'}
    for sn, sess in enumerate(case['sessions']):
        ver = sess['ver']
        L = [ditem_unjson(d) for d in sess['log']]
        P = [ditem_unjson(d) for d in sess['param']]
        ldev = fk.PyDev(raw_items('log', L), sess['crc_log'])
        pdev = fk.PyDev(raw_items('param', P), sess['crc_param'])
        cf.link_uri = sess.get('uri', 'radio://0/80/2M/E7E7E7E7E7')
        done = []
        mark = len(trace)
        par.toc = pm.Toc()                                   # Param._connection_requested

        def after_platform():
            done.append('platform')
            par._useV2 = cf.platform.get_protocol_version() >= 4
            log.refresh_toc(lambda: done.append('log'), cache)
        cf.platform.fetch_platform_informations(after_platform)
        # the device answers the source request, then (if asked) the version request
        # the device only answers requests it receives
        if any(t[0] == 'send' and t[1] == 15 and t[2] == 1 for t in trace[mark:]):
            cf.deliver(15, 1, (MAGIC + b'\0') if ver >= 0 else b'\0')
        if ver >= 0 and any(t[0] == 'send' and t[1] == 13 and t[2] == 1 for t in trace[mark:]):
            cf.deliver(13, 1, bytes([0, ver]))
        if 'platform' not in done:
            return fail('platform_handshake_not_completed', 'session %d: no completion after the handshake' % sn)
        cf.deliver(5, 1, bytes([5, 0, 0]))
        lbase = len([t for t in trace[:mark] if t[0] == 'send' and t[1] == 5 and t[2] == 0])
        for _ in range(len(L) + 3):
            reqs = cf.sent(5, 0)[lbase:]
            if 'log' in done or not reqs:
                break
            r = ldev.reply_fw(ver, reqs[-1][3])
            if r is None:
                break
            cf.deliver(5, 0, r)
        if 'log' not in done:
            return fail('log_download_does_not_finish', 'session %d (version %d): log download does not finish' % (sn, ver))
        pbase = len(cf.sent(2, 0))
        par.refresh_toc(lambda: done.append('param'), cache)
        for _ in range(len(P) + 3):
            reqs = cf.sent(2, 0)[pbase:]
            if 'param' in done or not reqs:
                break
            r = pdev.reply_fw(ver, reqs[-1][3])
            if r is None:
                break
            cf.deliver(2, 0, r)
        exc = [t for t in trace[mark:] if t[0] == 'raised']
        if exc:
            return fail('session_raises', 'session %d: %r' % (sn, exc[0][1:]))
        if 'param' not in done:
            return fail('param_download_does_not_finish', 'session %d (version %d): parameter download does not finish' % (sn, ver))
        for cls, items, toc in (('log', L, log.toc), ('param', P, par.toc)):
            bad = check_table(cls, items, toc)
            if bad:
                return fail('table_differs_for_device_generation', 'session %d (device version %d, %d %s entries): %s' % (sn, ver, len(items), cls, bad))
    return None


def gen_versions_cases(ctx, deep):
    rng = ctx.rng
    out = []
    seqs = [[3, 10], [10, 3], [-1, 10], [10, -1], [3, 3, 7], [7, 7], [0, 4], [4, 3, 255]]
    for k, seq in enumerate(seqs * (2 if deep else 1)):
        sessions = []
        for ver in seq:
            big = ver >= 4 and rng.random() < (0.7 if k < 4 else 0.2)
            nl = rng.choice([256, 257, 300]) if big else rng.choice([0, 1, 3, 8])
            npar = rng.choice([256, 300]) if big and rng.random() < 0.5 else rng.choice([1, 2, 5])
            L = gen_items(rng, 'log', nl, ver >= 4)
            P = gen_items(rng, 'param', npar, ver >= 4)
            for it in P:
                it['ext'] = False
            sessions.append({'ver': ver, 'log': [ditem_json(i) for i in L], 'param': [ditem_json(i) for i in P],
                             'crc_log': rng.getrandbits(32), 'crc_param': rng.getrandbits(32)})
        out.append({'kind': 'versions', 'sessions': sessions})
    return out


# ------------------------------------------------------------------ whole connection setup over two sessions, stale settings replies

def oracle_setup_case(case):
    """ONE Crazyflie-like object (real PlatformService, Log, Param on one cf) through two connection setups as
    Crazyflie wires them: version handshake -> Log.refresh_toc -> (memories) -> Param.refresh_toc -> `connected`.
    The device answers every request it receives, in order, both generations' TOC commands (reply_fw).  Replies of the
    log SETTINGS channel left over from the first session (reset reply, block replies) are injected before the answer
    to the k-th request of the second setup, for the k of the case (0 = before the source answer, 1 = before the
    version answer, ...).  Property text at `connected` of each session: both tables exactly the device's."""
    import cflib.crazyflie.log as lg
    import cflib.crazyflie.param as pm
    trace = []
    cf = mk_cf_with_platform(trace)
    log = lg.Log(cf)
    par = pm.Param.__new__(pm.Param)
    par.cf = cf
    par.toc = pm.Toc()
    cache = StubCache(trace, {})
    nfetch = [0]
    Orig = lg.TocFetcher

    class Rec(Orig):
        def __init__(self, *a, **k):
            Orig.__init__(self, *a, **k)
            nfetch[0] += 1
    lg.TocFetcher = Rec

    def fail(klass, detail):
        return {'class': klass, 'case': case, 'detail': detail, 'observed': detail,
                'expected': 'at connected of every session both tables are exactly the device tables'}
    try:
        for sn, sess in enumerate(case['sessions']):
            ver = sess['ver']
            L = [ditem_unjson(d) for d in sess['log']]
            P = [ditem_unjson(d) for d in sess['param']]
            ldev = fk.PyDev(raw_items('log', L), sess['crc_log'])
            pdev = fk.PyDev(raw_items('param', P), sess['crc_param'])
            mark = len(trace)
            connected = []
            par.toc = pm.Toc()                                  # Param._connection_requested

            def on_connected():
                connected.append(check_table('log', L, log.toc) if log.toc is not None else 'log table is None')

            def after_log():
                par._useV2 = cf.platform.get_protocol_version() >= 4
                par.refresh_toc(on_connected, cache)             # Memory.refresh with no memories completes at once

            def after_platform():
                log.refresh_toc(after_log, cache)
            cf.platform.fetch_platform_informations(after_platform)
            answered = 0
            limit = sess.get('cut')
            for step in range(len(L) + len(P) + 40):
                for st in [x for x in sess.get('stale', []) if x['k'] == answered and not x.get('done')]:
                    st['done'] = True
                    cf.deliver(5, 1, bytes(st['data']))
                if limit is not None and answered >= limit:
                    break
                sends = [t for t in trace[mark:] if t[0] == 'send']
                if answered >= len(sends):
                    break
                t = sends[answered]
                answered += 1
                port, chan, data = t[1], t[2], t[3]
                r = None
                if (port, chan) == (15, 1):
                    r = (MAGIC + b'\0') if ver >= 0 else b'\0'
                elif (port, chan) == (13, 1):
                    r = bytes([0, ver]) if ver >= 0 else None
                elif (port, chan) == (5, 1) and data[:1] == b'\x05':
                    r = bytes([5, 0, 0])
                elif (port, chan) == (5, 0):
                    r = ldev.reply_fw(ver, data)
                elif (port, chan) == (2, 0):
                    r = pdev.reply_fw(ver, data)
                if r is not None:
                    cf.deliver(port, chan, r)
            for st in sess.get('stale', []):
                st.pop('done', None)
            exc = [t for t in trace[mark:] if t[0] == 'raised']
            if limit is not None:
                cf.disconnected.call('uri')
                continue
            if exc:
                return fail('setup_raises', 'session %d: callback raised %r' % (sn, exc[0][1:]))
            if not connected:
                return fail('connected_never_signalled', 'session %d: connected is never signalled' % sn)
            for ci, snap in enumerate(connected):
                if snap:
                    return fail('log_table_incomplete_at_connected', 'session %d: at connected (signal %d of %d): %s' % (
                        sn, ci + 1, len(connected), snap))
            # connected signalled more than once with complete tables each time is not a matter of this property (C02)
            bad = check_table('log', L, log.toc) or check_table('param', P, par.toc)
            if bad:
                return fail('table_differs_after_setup', 'session %d: %s' % (sn, bad))
            cf.disconnected.call('uri')
        return None
    finally:
        lg.TocFetcher = Orig


def gen_setup_cases(ctx, deep):
    rng = ctx.rng
    out = []
    stale_kinds = [[5, 0, 0], [5, 0, 0], [5, 0, 0], [0, 1, 0], [6, 1, 0], [3, 1, 0], [4, 1, 0], [2, 1, 0]]
    # how far the first session got: complete; cut after k answers (0: nothing answered, 1: source, 2: version,
    # 3: reset reply = download started, 4: INFO, ...)
    for k in range(ctx.scale(40, 300) * (2 if deep else 1)):
        ver1, ver2 = rng.choice([(7, 7), (3, 3), (3, 7), (7, 3), (10, 10)])
        def tabs(ver):
            L = gen_items(rng, 'log', rng.choice([2, 3, 5, 12]), ver >= 4)
            P = gen_items(rng, 'param', rng.choice([1, 2, 3]), ver >= 4)
            for it in P:
                it['ext'] = False
            return [ditem_json(i) for i in L], [ditem_json(i) for i in P]
        L1, P1 = tabs(ver1)
        L2, P2 = tabs(ver2)
        cut = [None, None, 2, 3, 4, 6, 2][k % 7]               # 2: abandoned between refresh_toc and its reset reply
        nstale = rng.choice([1, 1, 2, 3])
        stale = [{'k': rng.choice([0, 0, 1, 1, 2, 3, 4, rng.randrange(0, len(L2) + len(P2) + 6)]), 'data': rng.choice(stale_kinds)}
                 for _ in range(nstale)]
        out.append({'kind': 'setup', 'sessions': [
            {'ver': ver1, 'log': L1, 'param': P1, 'crc_log': rng.getrandbits(32), 'crc_param': rng.getrandbits(32), 'cut': cut, 'stale': []},
            {'ver': ver2, 'log': L2, 'param': P2, 'crc_log': rng.getrandbits(32), 'crc_param': rng.getrandbits(32), 'stale': stale}]})
    return out


# ------------------------------------------------------------------ frame: no sharing between tables

def _honest(n):
    return [('D', k) for k in range(n + 1)]


def permuted(rng, items, flip_pers=True):
    """the same element descriptions at other indexes (and, for extended parameters, the other persistence)"""
    b = [dict(it) for it in items]
    if len(b) > 1:
        while True:
            rng.shuffle(b)
            if [x['name'] for x in b] != [x['name'] for x in items] or len(set(map(lambda x: bytes(x['name']), items))) < 2:
                break
    if flip_pers:
        for it in b:
            if it.get('ext'):
                it['pers'] = not it['pers']
    return b


def oracle_frame_case(case):
    """two tables alive at once (two Crazyflie objects in one process): A is downloaded, then B — the same
    descriptions at other indexes — by another fetcher on another cf.  After B's download BOTH tables must be exactly
    their device's (index, lookups), and no element object may be shared between them."""
    cls = case['cls']
    A = [ditem_unjson(d) for d in case['itemsA']]
    B = [ditem_unjson(d) for d in case['itemsB']]
    holders = []
    for items, crc, ver in ((A, case['crcA'], case['verA']), (B, case['crcB'], case['verB'])):
        c = {'cls': cls, 'ver': ver, 'raw': raw_items(cls, items), 'crc': crc, 'extra': [], 'cache': None, 'evs': _honest(len(items))}
        obs, info = run_fetch(c)
        if sum(1 for t in info['trace'] if t == ('fin',)) != 1 or [t for t in info['trace'] if t[0] == 'raised']:
            return {'class': 'frame_download_failed', 'case': case, 'detail': 'a download did not complete'}
        holders.append(info['toc'])

    def fail(klass, detail):
        return {'class': klass, 'case': case, 'detail': detail, 'observed': detail,
                'expected': 'both tables exactly their device tables after the second download; no shared element objects'}
    bad = check_table(cls, A, holders[0])
    if bad:
        return fail('other_table_changed_by_a_download', 'table A after the download of table B: %s' % bad)
    bad = check_table(cls, B, holders[1])
    if bad:
        return fail('downloaded_table_differs', 'table B: %s' % bad)
    ida = {id(e) for d in holders[0].toc.values() for e in d.values()}
    idb = {id(e) for d in holders[1].toc.values() for e in d.values()}
    if ida & idb:
        return fail('element_objects_shared_between_tables', '%d element objects are part of both tables' % len(ida & idb))
    return None


def gen_frame_cases(ctx, deep):
    rng = ctx.rng
    out = []
    for k in range(ctx.scale(24, 200) * (2 if deep else 1)):
        cls = 'log' if k % 2 else 'param'
        ver = rng.choice([3, 7])
        A = gen_items(rng, cls, rng.choice([2, 3, 5, 8]), ver >= 4)
        B = permuted(rng, A)
        if k % 3 == 0:
            B = B[:-1] + gen_items(rng, cls, 1, ver >= 4)          # mostly shared, one entry of its own
        out.append({'kind': 'frame', 'cls': cls, 'verA': ver, 'verB': ver if k % 4 else (7 if ver < 4 else 3),
                    'itemsA': [ditem_json(i) for i in A], 'itemsB': [ditem_json(i) for i in B],
                    'crcA': rng.getrandbits(32), 'crcB': rng.getrandbits(32)})
    # (b) two sessions on ONE object whose tables share descriptions but differ in index and persistence
    for k in range(ctx.scale(16, 120) * (2 if deep else 1)):
        cls = 'param' if k % 4 else 'log'
        ver = rng.choice([3, 7]) if cls == 'log' else 7
        A = gen_items(rng, cls, rng.choice([2, 3, 4]), ver >= 4)
        if cls == 'param':
            A[0]['ext'] = True
            A[0]['pers'] = True
        B = permuted(rng, A)
        extA = [i for i, it in enumerate(A) if cls == 'param' and it['ext']]
        extB = [i for i, it in enumerate(B) if cls == 'param' and it['ext']]
        evs1 = ([['S']] if cls == 'log' else []) + [['H']] * (len(A) + 1) + [['XH']] * len(extA)
        evs2 = ([['S']] if cls == 'log' else []) + [['H']] * (len(B) + 1) + [['XH']] * len(extB)
        out.append({'kind': 'sessions', 'cls': cls, 'ver1': ver, 'ver2': ver, 'itemsA': [ditem_json(i) for i in A],
                    'itemsB': [ditem_json(i) for i in B], 'crcA': rng.getrandbits(32), 'crcB': rng.getrandbits(32),
                    'evs1': evs1, 'evs2': evs2, 'a_stored': True, 'shared_descriptions': True})
    return out


def tie_frame(ctx, dist):
    """pairs of downloads with shared descriptions by the real TocFetcher: table A is RE-READ after table B's
    download; the model computes the two tables independently (tables are values)"""
    rng = ctx.rng
    terms, exp, cases = [], [], []
    for _ in range(ctx.scale(24, 200)):
        cls = rng.choice(['log', 'param'])
        ver = rng.choice([3, 7])
        A = gen_items(rng, cls, rng.choice([1, 2, 3, 5]), ver >= 4)
        B = permuted(rng, A, flip_pers=False)
        ca = {'cls': cls, 'ver': ver, 'raw': raw_items(cls, A), 'crc': rng.getrandbits(32), 'extra': [], 'cache': None}
        cb = {'cls': cls, 'ver': ver, 'raw': raw_items(cls, B), 'crc': rng.getrandbits(32), 'extra': [], 'cache': None}
        _, ia = run_fetch(dict(ca, evs=_honest(len(A))))
        _, ib = run_fetch(dict(cb, evs=_honest(len(B))))
        exp.append(enc_toc(ia['toc'].toc) + enc_toc(ib['toc'].toc))
        terms.append('enc_toc (f_toc (fst %s)) ++ enc_toc (f_toc (fst %s))' % (
            model_fetch_term(ca, _honest(len(A)))[len('enc_run '):], model_fetch_term(cb, _honest(len(B)))[len('enc_run '):]))
        cases.append((cls, ver, len(A)))
    dis = []
    for bi, mv in compare_blocks(HEADER, terms, exp, tag='c03fr', shard=max(2, len(terms) // 6 + 1)):
        dis.append({'what': 'two tables with shared descriptions: table A re-read after the download of table B differs from the model '
                            '(tables are values: no sharing)', 'cls': cases[bi][0], 'ver': cases[bi][1], 'n': cases[bi][2]})
        if len(dis) > 2:
            break
    dist['frame_pairs'] = len(terms)
    return {'dis': dis, 'n': len(terms)}


# ------------------------------------------------------------------ whole connections on a REAL Crazyflie object

class _SyncLink:
    """link object for a real Crazyflie driven synchronously: send_packet records; the harness answers"""

    def __init__(self):
        self.needs_resending = False
        self.sent = []
        self.closed = False

    def send_packet(self, pk):
        self.sent.append((pk.port, pk.channel, bytes(pk.data)))

    def receive_packet(self, wait=0):
        return None

    def close(self):
        self.closed = True


def oracle_crazyflie_case(case):
    """A REAL Crazyflie object (its own PlatformService, Log, Memory, Param and connection sequencing) through two or
    three sessions; open_link's body is replayed without the dispatcher thread, packets are dispatched synchronously the
    way _IncomingPacketHandler.run does.  The device answers every request; when requests of several ports are
    outstanding, `prefer` decides which port is served first (one port slower than the other).  Session i is cut after
    cut[i] answers (close_link / link error).  At EVERY `connected` callback both tables must be exactly the device's."""
    from cflib.crazyflie import Crazyflie, State
    from cflib.crtp.crtpstack import CRTPPacket
    cf = Crazyflie(rw_cache=None)
    snaps = []
    cur = {}

    def on_connected(uri):
        bad = check_table('log', cur['L'], cf.log.toc) if cf.log.toc is not None else 'log table is None'
        bad = bad or check_table('param', cur['P'], cf.param.toc)
        snaps.append((cur['sn'], bad))
    cf.connected.add_callback(on_connected)

    def dispatch(port, chan, data):
        pk = CRTPPacket()
        pk.set_header(port, chan)
        pk.data = bytes(data)
        cf.packet_received.call(pk)
        for cb in [c for c in cf.incoming.cb if c.port == (pk.port & c.port_mask) and c.channel == (pk.channel & c.channel_mask)]:
            try:
                cb.callback(pk)
            except Exception as e:  # noqa
                cur.setdefault('exc', []).append('%s: %s' % (type(e).__name__, e))

    def fail(klass, detail):
        return {'class': klass, 'case': case, 'detail': detail, 'observed': detail,
                'expected': 'at every connected callback both tables are exactly the device tables'}
    try:
        for sn, sess in enumerate(case['sessions']):
            ver = sess['ver']
            L = [ditem_unjson(d) for d in sess['log']]
            P = [ditem_unjson(d) for d in sess['param']]
            cur.update(L=L, P=P, sn=sn)
            cur.pop('exc', None)
            ldev = fk.PyDev(raw_items('log', L), sess['crc_log'])
            pdev = fk.PyDev(raw_items('param', P), sess['crc_param'])
            link = _SyncLink()
            # Crazyflie.open_link without get_link_driver and without starting the dispatcher thread
            cf.connection_requested.call('fake://0')
            cf.state = State.INITIALIZED
            cf.link_uri = 'fake://0'
            cf.link = link
            cf.packet_received.add_callback(cf._check_for_initial_packet_cb)
            cf._start_connection_setup()
            answered = set()
            n_ans = 0
            nconn0 = len(snaps)
            for step in range(len(L) + len(P) + 60):
                if sess.get('cut') is not None and n_ans >= sess['cut']:
                    break
                pending = [(i, t) for i, t in enumerate(link.sent) if i not in answered and
                           ((t[0], t[1]) in ((15, 1), (13, 1), (5, 1), (5, 0), (2, 0), (4, 0)))]
                pending = [(i, t) for i, t in pending if not (t[0] == 5 and t[1] == 1 and t[2][:1] != b'\x05')]
                if not pending or len(snaps) > nconn0:
                    break
                pref = sess.get('prefer', 'fifo')
                pick = pending[0]
                if pref != 'fifo':
                    want = 5 if pref == 'log' else 2
                    first = [x for x in pending if x[1][0] == want or (want == 2 and x[1][0] == 4)]
                    if first:
                        pick = first[0]
                i, (port, chan, data) = pick
                answered.add(i)
                n_ans += 1
                r = None
                if (port, chan) == (15, 1):
                    r = MAGIC + b'\0'
                elif (port, chan) == (13, 1) and data[:1] == b'\x00':
                    r = bytes([0, ver])
                elif (port, chan) == (5, 1):
                    r = bytes([5, 0, 0])
                elif (port, chan) == (5, 0):
                    r = ldev.reply_fw(ver, data)
                elif (port, chan) == (2, 0):
                    r = pdev.reply_fw(ver, data)
                elif (port, chan) == (4, 0) and data[:1] == b'\x01':
                    r = bytes([1, 0])                            # no memories
                if r is not None:
                    dispatch(port, chan, r)
            if cur.get('exc'):
                return fail('connection_setup_raises', 'session %d: %s' % (sn, cur['exc'][0]))
            for (s_, bad) in snaps[nconn0:]:
                if bad:
                    return fail('table_incomplete_at_connected', 'session %d: inside the connected callback: %s' % (s_, bad))
            if sess.get('cut') is None and len(snaps) == nconn0:
                return fail('connected_never_signalled', 'session %d: all requests answered, connected not signalled' % sn)
            if sess.get('end', 'close') == 'close':
                cf.close_link()
            else:
                cf._link_error_cb('link lost')
        return None
    finally:
        try:
            cf.link = None
            cf.link_statistics.stop()                   # the latency ping thread is not a daemon
            cf.param.param_updater.close()
        except Exception:  # noqa
            pass


def gen_crazyflie_cases(ctx, deep):
    rng = ctx.rng
    out = []
    sizes = [(12, 2), (2, 12), (6, 6)]
    for k in range(ctx.scale(30, 200) * (2 if deep else 1)):
        nl, npar = sizes[k % 3]
        ver = rng.choice([3, 7])
        total = nl + npar + 8
        def tabs():
            L = gen_items(rng, 'log', nl, ver >= 4)
            P = gen_items(rng, 'param', npar, ver >= 4)
            for it in P:
                it['ext'] = False
            for it in L + P:                              # request_update_of_all_params splits complete names at '.'
                it['group'] = bytes(it['group']).replace(b'.', b'_')
                it['name'] = bytes(it['name']).replace(b'.', b'_')
            if len({(bytes(i['group']), bytes(i['name'])) for i in P}) < len(P) or len({(bytes(i['group']), bytes(i['name'])) for i in L}) < len(L):
                return tabs()
            return [ditem_json(i) for i in L], [ditem_json(i) for i in P]
        sessions = []
        nsess = 2 + (k % 5 == 0)
        for sn in range(nsess):
            L, P = tabs()
            last = sn == nsess - 1
            sessions.append({'ver': ver, 'log': L, 'param': P, 'crc_log': rng.getrandbits(32), 'crc_param': rng.getrandbits(32),
                             'cut': None if last else (k // 3 + sn * 7) % total, 'end': 'close' if k % 2 else 'error',
                             'prefer': ['fifo', 'log', 'param'][(k // 2 + sn) % 3]})
        out.append({'kind': 'crazyflie', 'sessions': sessions})
    return out


# ------------------------------------------------------------------ lookups

def impl_lookups(toc_lists_, queries):
    from cflib.crazyflie.toc import Toc
    t = Toc()
    t.toc = mk_toc_obj(toc_lists_)
    out = []
    for q in queries:
        try:
            if q[0] == 'gn':
                e = t.get_element(bytes(q[1]).decode('latin-1'), bytes(q[2]).decode('latin-1'))
            elif q[0] == 'id':
                e = t.get_element_by_id(q[1])
            else:
                e = t.get_element_by_complete_name(bytes(q[1]).decode('latin-1'))
            out.append([0] if e is None else [1] + enc_elem(e))
        except Exception as x:
            out.append([2, EXN.get(type(x).__name__, 99)])
    return out


def tie_lookup(ctx, dist):
    rng = ctx.rng
    terms, exp = [], []
    for _ in range(ctx.scale(40, 400)):
        cls = rng.choice(['log', 'param'])
        items = gen_items(rng, cls, rng.choice([0, 1, 3, 6, 10]), True, legal=rng.random() < 0.5)
        tl = toc_lists([spec_elem(cls, i, it) for i, it in enumerate(items)])
        qs = []
        for it in items[:6]:
            qs.append(('gn', it['group'], it['name']))
            qs.append(('cn', it['group'] + b'.' + it['name']))
        for _ in range(4):
            qs.append(('id', rng.randint(-1, len(items) + 1)))
            qs.append(('gn', gen_name(rng, 3), gen_name(rng, 3)))
            qs.append(('cn', gen_name(rng, 6, 'dots')))
        qt = []
        for q in qs:
            if q[0] == 'gn':
                qt.append('enc_opt_elem (get_element %s %s t)' % (q_str(q[1]), q_str(q[2])))
            elif q[0] == 'id':
                qt.append('enc_opt_elem (get_element_by_id %s t)' % coqrun.z(q[1]))
            else:
                qt.append('enc_opt_elem (get_element_by_complete_name %s t)' % q_str(q[1]))
        terms.append('let t := %s in flat [%s]' % (q_toc(tl), '; '.join(qt)))
        exp.append(coqrun.flat(impl_lookups(tl, qs)))
    dis = []
    for bi, mv in compare_blocks(HEADER, terms, exp, tag='c03l', shard=max(2, len(terms) // 8 + 1)):
        dis.append({'what': 'Toc lookups: model and implementation differ', 'term': terms[bi][:800],
                    'model': mv if mv is None else mv[:60], 'impl': exp[bi][:60]})
        if len(dis) > 2:
            break
    dist['lookup_tables'] = len(terms)
    return {'dis': dis, 'n': len(terms)}


# ------------------------------------------------------------------ oracle (property text on the real code)

def check_table(cls, items, toc, ids=None, pers=None):
    """toc (a cflib Toc) must be exactly the device table.  Returns a description of the first mismatch or None."""
    try:
        return _check_table(cls, items, toc, ids, pers)
    except Exception as e:  # a malformed table must be reported, not crash the oracle
        return 'table is malformed: %s: %s' % (type(e).__name__, e)


def _check_table(cls, items, toc, ids=None, pers=None):
    want = {}
    for i, it in enumerate(items):
        want[(bytes(it['group']).decode('latin-1'), bytes(it['name']).decode('latin-1'))] = (i if ids is None else ids[i], it)
    have = {}
    if not isinstance(toc.toc, dict):
        return 'table is not a dict'
    for g, d in toc.toc.items():
        if not isinstance(d, dict):
            return 'group %r of the table is a %s' % (g, type(d).__name__)
        for n, e in d.items():
            have[(g, n)] = e
    if set(have) != set(want):
        return 'entry set differs: missing %r, extra %r' % (sorted(set(want) - set(have))[:3], sorted(set(have) - set(want))[:3])
    cn = 'LogTocElement' if cls == 'log' else 'ParamTocElement'
    for k, (i, it) in want.items():
        e = have[k]
        if type(e).__name__ != cn:
            return 'element %r is a %s' % (k, type(e).__name__)
        if e.group != k[0] or e.name != k[1] or e.ident != i:
            return 'element %r has group/name/ident %r/%r/%r, device index %d' % (k, e.group, e.name, e.ident, i)
        if e.ctype != C_NAME[it['type']]:
            return 'element %r has C type %r, device %r' % (k, e.ctype, C_NAME[it['type']])
        if cls == 'param':
            if e.access != (1 if it['ro'] else 0) or e.extended is not bool(it['ext']):
                return 'element %r access/extended %r/%r, device ro=%r ext=%r' % (k, e.access, e.extended, it['ro'], it['ext'])
            if pers is not None and e.persistent is not bool(it['ext'] and it['pers']):
                return 'element %r persistent=%r, device ext=%r persistent=%r' % (k, e.persistent, it['ext'], it['pers'])
        elif e.access != 0:
            return 'log element %r access %r' % (k, e.access)
        if not (cls == 'param' and it['type'] == 'F16') and e.pytype != '<' + C_FMT[it['type']]:
            return 'element %r unpack format %r for %s' % (k, e.pytype, it['type'])
    # three-way lookup agreement
    for k, (i, it) in want.items():
        e = have[k]
        if toc.get_element(k[0], k[1]) is not e:
            return 'get_element%r does not return the entry' % (k,)
        if toc.get_element_by_id(i) is not e:
            return 'get_element_by_id(%d) does not return entry %r' % (i, k)
        if '.' not in k[0] and '.' not in k[1]:
            if toc.get_element_by_complete_name(k[0] + '.' + k[1]) is not e or toc.get_element_id(k[0] + '.' + k[1]) != i:
                return 'lookup by complete name of %r disagrees' % (k,)
    if toc.get_element_by_id(len(items) if ids is None else 70000) is not None:
        return 'get_element_by_id beyond the table finds something'
    return None


def oracle_fetch_case(case, holder=None):
    """case: cls, ver, items (json), crc, extra, cachekind, evs, probe.  The adversarial events are followed by an honest
    completion; then the property text is checked.  Returns failure dict or None."""
    items = [ditem_unjson(d) for d in case['items']]
    cls = case['cls']
    c = dict(case, raw=raw_items(cls, items))
    ck = case.get('cachekind')
    if ck == 'same':
        c['cache'] = toc_lists([spec_elem(cls, i, it) for i, it in enumerate(items)])
    elif ck == 'other_class':
        oc = 'log' if cls == 'param' else 'param'
        c['cache'] = toc_lists([dict(spec_elem(oc, i, dict(it, type='U8')), ) for i, it in enumerate(items)] or
                               [spec_elem(oc, 0, {'group': b'g', 'name': b'n', 'type': 'U8', 'ro': False, 'ext': False,
                                                  'core': False, 'pers': False})])
    else:
        c['cache'] = None
    evs = [tuple(e[:2]) + ((bytes(e[2]),) if len(e) > 2 else ()) for e in case['evs']]
    it_ = iter(evs)
    guard = [4 * len(items) + 20]

    def choose(n_sent, f):
        ev = next(it_, None)
        if ev is not None:
            return ev
        guard[0] -= 1
        if guard[0] < 0 or any(t == ('fin',) for t in f_trace[0]):
            return None
        return ('D', n_sent - 1)
    f_trace = [[]]

    # run_fetch builds the trace itself; expose it to `choose` through the fetcher's cf
    def choose2(n_sent, f):
        f_trace[0] = f.cf.trace
        return choose(n_sent, f)
    obs, info = run_fetch(c, choose=choose2, probe=case.get('probe', 'none'), holder=holder)
    tr = info['trace']
    exc = [t for t in tr if t[0] == 'raised']
    fins = sum(1 for t in tr if t == ('fin',))
    n = len(items)
    v2 = case['ver'] >= 4

    def fail(klass, detail, expected=None, observed=None):
        return {'class': klass, 'case': case, 'detail': detail, 'expected': expected, 'observed': observed}
    if exc:
        return fail('toc_fetch_raises', 'callback raised %s' % (exc[0][1:],), 'no exception', exc[0][1])
    if fins != 1:
        return fail('toc_fetch_not_completed_once', 'finished callback called %d times after all requests were answered' % fins, 1, fins)
    if info['probe_fail']:
        return fail('toc_lookup_not_a_function_of_the_table', info['probe_fail'], 'lookups answer from the current table', info['probe_fail'])
    bad = check_table(cls, items, info['toc'])
    if bad:
        if bad.startswith('get_element') or bad.startswith('lookup'):
            k = 'lookups_disagree_after_fetch'
        else:
            k = 'cached_table_of_other_class_installed' if ck == 'other_class' else 'downloaded_table_differs'
        return fail(k, bad, 'device table', bad)
    sent = [t for t in tr if t[0] == 'send']
    if ck == 'same' and n > 0:
        want = [bytes([3 if v2 else 1])]
    else:
        want = [bytes([3 if v2 else 1])] + [bytes([2, i & 255, i >> 8]) if v2 else bytes([0, i]) for i in range(n)]
    if [t[3] for t in sent] != want:
        return fail('toc_requests_wrong', 'requests sent are not INFO, ITEM 0..n-1 once each', len(want), [list(t[3]) for t in sent][:6])
    for t in sent:
        if tuple(t[4]) != tuple(t[3]) or t[1] != info['port'] or t[2] != 0:
            return fail('toc_request_header_or_pattern_wrong', 'port/channel/expected_reply of a request', list(t[3]), [t[1], t[2], list(t[4])])
    if info['cf'].registered(info['fetcher']._new_packet_cb):
        return fail('toc_callback_left_registered', 'port callback still registered after completion')
    ins = [t for t in tr if t[0] == 'insert']
    if (ck == 'same' and n > 0 and ins) or (not (ck == 'same' and n > 0) and (len(ins) != 1 or ins[0][1] != case['crc'])):
        return fail('toc_cache_insert_wrong', 'cache insert calls: %d' % len(ins))
    return None


def oracle_ext_case(case):
    """real Param.refresh_toc completion + _ExtendedTypeFetcher; adversarial events then honest completion."""
    items = [ditem_unjson(d) for d in case['items']]
    evs = [tuple(e) if e[0] == 'O' else tuple(e[:2]) + ((bytes(e[2]),) if len(e) > 2 else ()) for e in case['evs']]
    it_ = iter(evs)
    n_ext = len(case['xdev'])
    guard = [3 * n_ext + 5]

    def choose(n_sent, _f):
        ev = next(it_, None)
        if ev is not None:
            return ev
        guard[0] -= 1
        if guard[0] < 0 or n_sent == 0:
            return None
        return ('D', n_sent - 1)
    c = dict(case, xdev={int(k): v for k, v in case['xdev'].items()},
             toc=toc_lists([spec_elem('param', i, it) for i, it in zip(case['ids'], items)]))
    obs, info = run_ext(c, choose=choose)
    tr = info['trace']

    def fail(klass, detail, expected=None, observed=None):
        return {'class': klass, 'case': case, 'detail': detail, 'expected': expected, 'observed': observed}
    exc = [t for t in tr if t[0] == 'raised']
    if exc:
        return fail('ext_phase_raises', repr(exc[0][1:]))
    fins = sum(1 for t in tr if t == ('fin',))
    if fins != 1:
        return fail('ext_phase_not_completed_once', 'refresh callback called %d times' % fins, 1, fins)
    bad = check_table('param', items, info['param'].toc, ids=case['ids'], pers=True)
    if bad:
        return fail('persistent_marker_wrong', bad)
    sent = sorted(int.from_bytes(t[3][1:3], 'little') for t in tr if t[0] == 'send')
    if sent != sorted(c['xdev']):
        return fail('ext_requests_wrong', 'extended-type queries are not one per extended parameter', sorted(c['xdev']), sent)
    return None


def _mk_oracle_cases(ctx, deep):
    rng = ctx.rng
    cases = []
    sizes = [0, 1, 2, 3, 5, 254, 255, 256, 257, 300]
    for cls in ('log', 'param'):
        for n in sizes:
            for ver in ([7] if n > 255 else [7, 3]):
                cases.append((cls, n, ver, rng.choice(['honest', 'dup']), rng.choice([None, None, 'same'])))
        cases.append((cls, 3, 7, 'honest', 'other_class'))
        cases.append((cls, 0, 3, 'honest', 'other_class'))
    for _ in range(ctx.scale(150, 1500) * (4 if deep else 1)):
        cases.append((rng.choice(['log', 'param']), rng.choice([0, 1, 2, 3, 4, 6, 9, 17]), rng.choice([0, 3, 4, 7]),
                      rng.choice(['honest', 'dup', 'dup', 'noisy']), rng.choice([None, None, None, 'same', 'other_class'])))
    out = []
    for cls, n, ver, mode, ck in cases:
        items = gen_items(rng, cls, n, ver >= 4)
        ch = adversary(rng, n, mode)
        evs = []
        ns = 1
        # the schedule is generated against the number of requests a correct fetch would have sent
        for _ in range(2 * n + 6 if mode != 'honest' else 0):
            ev = ch(ns, None)
            if ev is None:
                break
            if ev[0] == 'D' and ev[1] == ns - 1 and ns <= n:
                ns += 1
            evs.append(list(ev[:2]) + ([list(ev[2])] if len(ev) > 2 else []))
        out.append({'kind': 'fetch', 'cls': cls, 'ver': ver, 'items': [ditem_json(i) for i in items],
                    'crc': rng.getrandbits(32), 'extra': list(rng.choice([b'', b'\x10\x10'])), 'cachekind': ck, 'evs': evs,
                    'probe': rng.choice(['none', 'start', 'all', 'all']) if n <= 20 else rng.choice(['none', 'start'])})
    # stale / duplicated element replies aimed at index distances that alias in one byte: while ITEM p is pending,
    # the reply to ITEM p-d is delivered again, d in {256, 512} (and 255, 257, 1 as controls); V2 tables of 257..600
    # entries, both classes.  Request k of a correct fetch is sends[k]: INFO is 0, ITEM i is 1+i.
    for cls in ('log', 'param'):
        for n in ([257, rng.choice([300, 400, 513]), 600] if not ctx.thorough else [257, 258, 300, 511, 512, 513, 600]):
            items = gen_items(rng, cls, n, True)
            for rep in range(2 if not ctx.thorough else 4):
                inject = {}
                for d in ([256] if n <= 512 else [256, 512]) + [rng.choice([255, 257, 1])]:
                    if d >= n:
                        continue
                    for _ in range(rng.randint(1, 2)):
                        p = rng.randrange(d, n) if rep else (n - 1 if d == 256 else rng.randrange(d, n))
                        inject.setdefault(p, []).append(p - d)
                evs = [['D', 0]]
                for p in range(n):
                    for k in inject.get(p, []):
                        evs.append(['D', 1 + k])
                        if rng.random() < 0.3:
                            evs.append(['D', 1 + k])
                    evs.append(['D', 1 + p])
                out.append({'kind': 'fetch', 'cls': cls, 'ver': rng.choice([4, 7]), 'items': [ditem_json(i) for i in items],
                            'crc': rng.getrandbits(32), 'extra': [], 'cachekind': None, 'evs': evs, 'probe': 'none',
                            'aimed': {str(p): v for p, v in sorted(inject.items())}})
    # two fetches into the same Toc object (download then cache hit, cache hit then download, ...)
    fetches = [c for c in out if c['kind'] == 'fetch' and len(c['items']) <= 20 and c['cachekind'] != 'other_class']
    for _ in range(ctx.scale(30, 300)):
        a, b = rng.choice(fetches), rng.choice(fetches)
        if a['cls'] == b['cls']:
            out.append({'kind': 'refetch', 'first': a, 'second': b})
    for _ in range(ctx.scale(25, 250) * (3 if deep else 1)):
        c = gen_ext_case(rng)
        ch = ext_adversary(rng, len(c['xdev']), 'dup')
        evs = []
        for _ in range(rng.randint(0, 2 * len(c['xdev']) + 2)):
            ev = ch(rng.randint(1, max(1, len(c['xdev']))), None)
            if ev is None or (ev[0] == 'R' and ev[1] == 3):      # malformed extended-type packets: tie only
                continue
            evs.append(list(ev) if ev[0] == 'O' else list(ev[:2]) + ([list(ev[2])] if len(ev) > 2 else []))
        out.append({'kind': 'ext', 'items': c['items'], 'ids': c['ids'], 'xdev': {str(k): v for k, v in c['xdev'].items()}, 'evs': evs})
    return out


def oracle_refetch_case(case):
    """two fetches into the SAME Toc object: first, then (after Toc.clear() when the second one downloads) second"""
    from cflib.crazyflie.toc import Toc
    holder = Toc()
    f = oracle_fetch_case(dict(case['first'], kind='fetch'), holder=holder)
    if f:
        return dict(f, case=case)
    if case['second'].get('cachekind') != 'same' or not case['second']['items']:
        holder.clear()
    f = oracle_fetch_case(dict(case['second'], kind='fetch'), holder=holder)
    if f:
        return dict(f, case=case, detail='second fetch into the same Toc: ' + str(f.get('detail')))
    return None


def _run_oracle_case(case):
    try:
        if case.get('kind') == 'ext':
            return oracle_ext_case(case)
        if case.get('kind') == 'refetch':
            return oracle_refetch_case(case)
        if case.get('kind') == 'log':
            return oracle_log_case(case)
        if case.get('kind') == 'sessions':
            return oracle_sessions_case(case)
        if case.get('kind') == 'versions':
            return oracle_versions_case(case)
        if case.get('kind') == 'setup':
            return oracle_setup_case(case)
        if case.get('kind') == 'frame':
            return oracle_frame_case(case)
        if case.get('kind') == 'crazyflie':
            return oracle_crazyflie_case(case)
        return oracle_fetch_case(case)
    except Exception as e:  # noqa
        import traceback
        return {'class': 'oracle_harness_error', 'case': case, 'detail': traceback.format_exc()[-800:]}


def corpus_cases():
    d = os.path.join(coqrun.VERIF, 'corpus', 'C03')
    out = []
    if os.path.isdir(d):
        for fn in sorted(os.listdir(d)):
            if fn.endswith('.json'):
                out.append(json.load(open(os.path.join(d, fn)))['case'])
    return out


def oracle(ctx, deep=False):
    fails = []
    n = 0
    for case in corpus_cases() + _mk_oracle_cases(ctx, deep) + gen_log_oracle_cases(ctx, deep) + gen_sessions_cases(ctx, deep) + gen_versions_cases(ctx, deep) + gen_setup_cases(ctx, deep) + gen_frame_cases(ctx, deep) + gen_crazyflie_cases(ctx, deep):
        n += 1
        f = _run_oracle_case(case)
        if f:
            fails.append(f)
    # keep one (the smallest) failure per class
    best = {}
    for f in fails:
        k = f['class']
        if k not in best or len(json.dumps(f['case'])) < len(json.dumps(best[k]['case'])):
            best[k] = f
    return {'evaluations': n, 'failures': list(best.values()),
            'rule': 'real TocFetcher/Param on adversarial schedules completed honestly: exactly-once completion, '
                    'table == device table (independent type tables), request sequence, three-way lookup agreement, '
                    'persistent markers'}


def replay(payload, ctx):
    return _run_oracle_case(payload['case'])
